// Demonstrations of KNOWN findings (defects recorded, not repaired). These tests FAIL on the
// current tree by design. Copy into a scratch worktree of /repo to run.
package decimal

import "testing"

// F12 (C13): Append with an explicit 'f' precision whose rounding position lies at or above
// the leading digit asks SetPrec(0), which means "take the operand's precision": the digits
// are truncated instead of rounded.
func TestKnownF12FormatAboveLeadingDigit(t *testing.T) {
	x, _, err := new(Decimal).SetPrec(20).Parse("0.0087890625", 10)
	if err != nil {
		t.Fatal(err)
	}
	if got := x.Text('f', 2); got != "0.01" {
		t.Errorf("Text('f', 2) of 0.0087890625 = %s, want 0.01", got)
	}
	y, _, _ := new(Decimal).SetPrec(20).Parse("0.6", 10)
	if got := y.Text('f', 0); got != "1" {
		t.Errorf("Text('f', 0) of 0.6 = %s, want 1", got)
	}
}

// F19 (C05): sqrtInverse computes its working precision as z.prec + 2 and doubles t.prec in
// uint32. For a receiver precision of MaxPrec or MaxPrec-1 the target wraps to 0 or 1, the Newton
// loop does not run at all, and Sqrt returns the 17-digit initial estimate times x, reported as
// Exact. (Takes ~20 s per case: the final multiplication validates a MaxPrec result.)
func TestKnownF19SqrtMaxPrec(t *testing.T) {
	z := new(Decimal).SetPrec(MaxPrec)
	z.Sqrt(new(Decimal).SetInt64(2))
	if z.Acc() == Exact || z.MinPrec() < 100 {
		t.Errorf("Sqrt(2) at MaxPrec = %s with accuracy %v: %d digits", z.Text('g', 40), z.Acc(), z.MinPrec())
	}
}
