// Demonstration of F22 (DESIGN.md §5), in a file of its own so that it compiles with GOARCH=386,
// where the defect manifests. Not part of /repo: copy into a scratch worktree to run.
package decimal

import "testing"

// F22: z.Prec()+_DW was formed in uint. Where uint has 32 bits it wraps for precisions within _DW
// of MaxPrec, and the temporaries that pow2 and scan scale with work with a handful of digits.
// Manifests with GOARCH=386 (run: GOARCH=386 go test -run TestFindingF22); on 64-bit platforms the
// sum does not wrap and SetPrec clamps it, so the test passes there before and after the fix.
func TestFindingF22WorkPrecWrapsOn32Bit(t *testing.T) {
	z := new(Decimal).SetPrec(MaxPrec)
	z.pow2(300)
	want, _, err := new(Decimal).SetPrec(200).Parse("2037035976334486086268445688409378161051468393665936250636140449354381299763336706183397376", 10)
	if err != nil {
		t.Fatal(err)
	}
	if z.Cmp(want) != 0 {
		t.Errorf("pow2(300) at MaxPrec = %s, want %s", z.Text('g', 40), want.Text('g', 40))
	}
}
