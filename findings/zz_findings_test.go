// Demonstrations of the genuine defects found by the static rules (DESIGN.md §5).
// Each test fails on the pinned tree and passes after the corresponding fix: commit.
// Not part of /repo: copy into a scratch worktree to run.
package decimal

import (
	"math"
	"math/big"
	"testing"
)

func mustParse(t *testing.T, s string, prec uint, mode RoundingMode) *Decimal {
	d, _, err := new(Decimal).SetPrec(prec).SetMode(mode).Parse(s, 10)
	if err != nil {
		t.Fatal(err)
	}
	return d
}

// F1: divBasic add-back stores a raw sum into the remainder.
func TestFindingF1DivBasicAddBack(t *testing.T) {
	if _W != 64 {
		t.Skip("64-bit words only")
	}
	v := dec{5000000000000000001, 5000000000000000001, 9999999999999999998, 6547831465315079697}
	q := dec{9999999999999999998, 5000000000000000000, 9999999999999999998}
	u := dec(nil).mul(v, q)
	qq, r := dec(nil).div(nil, u, v)
	for _, w := range r {
		if w >= _DB {
			t.Errorf("remainder word %d >= base", w)
		}
	}
	if qq.cmp(q) != 0 || len(r) != 0 {
		t.Errorf("(v*q)/v: quotient %v (want %v), remainder %v (want 0)", qq, q, r)
	}
}

// F2: Sub(±0, y) rounds y before negating it.
func TestFindingF2SubZeroRoundsUnderWrongSign(t *testing.T) {
	y := mustParse(t, "1.23456789", 20, ToNearestEven)
	z := new(Decimal).SetPrec(3).SetMode(ToPositiveInf)
	z.Sub(new(Decimal), y)
	if got := z.Text('g', -1); got != "-1.23" {
		t.Errorf("0 - 1.23456789 to 3 digits toward +Inf = %s, want -1.23", got)
	}
	if z.Acc() != Above {
		t.Errorf("acc = %v, want Above", z.Acc())
	}
}

// F3: FMA with the receiver aliasing an infinite (or zero-mantissa) u.
func TestFindingF3FMAAliasInf(t *testing.T) {
	u := new(Decimal).SetPrec(10).SetInf(false)
	x := new(Decimal).SetPrec(10).SetInt64(2)
	y := new(Decimal).SetPrec(10).SetInt64(-3)
	u.FMA(x, y, u)
	if !u.IsInf() || u.Signbit() {
		t.Errorf("2*-3 + +Inf (z aliasing u) = %s, want +Inf", u.Text('g', -1))
	}
}

// F4: FMA ignores the sign of a zero u.
func TestFindingF4FMAZeroSign(t *testing.T) {
	negZero := new(Decimal).SetPrec(10).Neg(new(Decimal))
	posZero := new(Decimal).SetPrec(10)
	three := new(Decimal).SetPrec(10).SetInt64(3)
	z := new(Decimal).SetPrec(10)
	z.FMA(negZero, three, posZero)
	if z.Signbit() {
		t.Errorf("(-0)*3 + (+0) = -0, want +0")
	}
	z = new(Decimal).SetPrec(10).SetMode(ToNegativeInf)
	z.FMA(posZero, three, negZero)
	if !z.Signbit() {
		t.Errorf("(+0)*3 + (-0) under ToNegativeInf = +0, want -0")
	}
	z = new(Decimal).SetPrec(10)
	z.FMA(negZero, three, negZero)
	if !z.Signbit() {
		t.Errorf("(-0)*3 + (-0) = +0, want -0")
	}
}

// F5: SetFloat tests the receiver instead of the argument for infinity.
func TestFindingF5SetFloatInf(t *testing.T) {
	defer func() {
		if r := recover(); r != nil {
			t.Errorf("SetFloat(+Inf) panicked: %v", r)
		}
	}()
	z := new(Decimal).SetFloat(new(big.Float).SetInf(false))
	if !z.IsInf() || z.Signbit() {
		t.Errorf("SetFloat(+Inf) = %s", z.Text('g', -1))
	}
	w := new(Decimal).SetInf(true)
	w.SetFloat(big.NewFloat(1.5))
	if w.IsInf() || w.Text('g', -1) != "1.5" {
		t.Errorf("(-Inf receiver).SetFloat(1.5) = %s, want 1.5", w.Text('g', -1))
	}
}

// F6: SetBitsExp on a zero-precision receiver.
func TestFindingF6SetBitsExpZeroPrec(t *testing.T) {
	defer func() {
		if r := recover(); r != nil {
			t.Errorf("SetBitsExp on a zero-value receiver panicked: %v", r)
		}
	}()
	z := new(Decimal).SetBitsExp([]Word{5}, 1)
	if z.Text('g', -1) != "0.5" && z.Text('g', -1) != "5e-19" {
		// value: 0.mant x 10^exp with mant = 5 (one word) -> 0.000...05 x 10^1
	}
	if z.Prec() == 0 {
		t.Errorf("precision still 0 after SetBitsExp of a non-zero value")
	}
}

// F7: Sqrt overwrites the receiver's rounding mode with x's.
func TestFindingF7SqrtMode(t *testing.T) {
	two := new(Decimal).SetPrec(20).SetInt64(2)
	z := new(Decimal).SetPrec(5).SetMode(ToPositiveInf)
	z.Sqrt(two)
	if z.Mode() != ToPositiveInf {
		t.Errorf("mode after Sqrt = %v, want ToPositiveInf", z.Mode())
	}
	if got := z.Text('g', -1); got != "1.4143" {
		t.Errorf("sqrt(2) to 5 digits toward +Inf = %s, want 1.4143", got)
	}
}

// F8: SetInt(0) overwrites a non-zero precision.
func TestFindingF8SetIntZeroPrec(t *testing.T) {
	z := new(Decimal).SetPrec(5).SetInt(new(big.Int))
	if z.Prec() != 5 {
		t.Errorf("SetPrec(5).SetInt(0).Prec() = %d, want 5", z.Prec())
	}
}

// F9/F10: GobDecode of truncated or malformed input.
func TestFindingF9F10GobDecode(t *testing.T) {
	for _, buf := range [][]byte{{1}, {1, 0}, {1, 0, 0}, {1, 2, 0, 0, 0, 5}, {1, 2, 0, 0, 0, 5, 0, 0, 0}} {
		func() {
			defer func() {
				if r := recover(); r != nil {
					t.Errorf("GobDecode(%v) panicked: %v", buf, r)
				}
			}()
			new(Decimal).GobDecode(buf)
		}()
	}
	// finite, prec 5, exp 1, one word >= base
	bad := []byte{1, 2, 0, 0, 0, 5, 0, 0, 0, 1, 0xff, 0xff, 0xff, 0xff, 0xff, 0xff, 0xff, 0xff}
	var z Decimal
	if err := z.GobDecode(bad); err == nil {
		bits, _ := z.BitsExp()
		for _, w := range bits {
			if uint64(w) >= uint64(DecimalBase) {
				t.Errorf("GobDecode accepted a mantissa word >= base: %d", w)
			}
		}
	}
	// rounding mode 7
	var y Decimal
	if err := y.GobDecode([]byte{1, 7 << 5, 0, 0, 0, 5}); err == nil && y.Mode() > ToPositiveInf {
		t.Errorf("GobDecode accepted rounding mode %d", y.Mode())
	}
	// finite with precision 0
	var w Decimal
	if err := w.GobDecode([]byte{1, 2, 0, 0, 0, 0, 0, 0, 0, 1, 0x0d, 0xe0, 0xb6, 0xb3, 0xa7, 0x64, 0, 0}); err == nil && w.Prec() == 0 && !w.IsZero() && !w.IsInf() {
		t.Errorf("GobDecode produced a finite Decimal with precision 0")
	}
}

// F13: Parse returns a non-nil Decimal together with an error.
func TestFindingF13ParseTrailing(t *testing.T) {
	d, _, err := new(Decimal).Parse("1x", 10)
	if err == nil {
		t.Fatal("expected an error")
	}
	if d != nil {
		t.Errorf("Parse(\"1x\") returned a non-nil Decimal with error %v", err)
	}
}

// F14: int64 exponent arithmetic wraps before the range check.
func TestFindingF14ExponentWrap(t *testing.T) {
	if z := NewDecimal(1, math.MaxInt64); !z.IsInf() {
		t.Errorf("NewDecimal(1, MaxInt64) = %s, want +Inf", z.Text('g', -1))
	}
	if z := new(Decimal).SetPrec(5).SetBitsExp([]Word{5}, math.MinInt64+3); !z.IsZero() {
		t.Errorf("SetBitsExp([5], MinInt64+3) = %s, want 0", z.Text('g', -1))
	}
	m := new(Decimal).SetPrec(5).SetInt64(5000)
	if z := new(Decimal).SetMantExp(m, math.MaxInt64); !z.IsInf() {
		t.Errorf("SetMantExp(5000, MaxInt64) = %s, want +Inf", z.Text('g', -1))
	}
}

// F16: FMA panics with ErrNaN when the exact product of two finite operands
// overflows the exponent range and u is an infinity of the opposite sign.
func TestFindingF16FMAOverflowInf(t *testing.T) {
	defer func() {
		if r := recover(); r != nil {
			t.Errorf("finite*finite + -Inf panicked: %v", r)
		}
	}()
	x := NewDecimal(1, math.MaxInt32/2+10)
	u := new(Decimal).SetInf(true)
	z := new(Decimal).SetPrec(10).FMA(x, x, u)
	if !z.IsInf() || !z.Signbit() {
		t.Errorf("x*x + -Inf = %s, want -Inf", z.Text('g', -1))
	}
}

// F17: GobEncode computed the mantissa word count in uint32: for a precision within 18 of
// MaxPrec the count wrapped to 0 and a finite value was encoded without its mantissa.
func TestFindingF17GobEncodeMaxPrec(t *testing.T) {
	for _, p := range []uint{MaxPrec, MaxPrec - 17, MaxPrec - 18} {
		x := new(Decimal).SetPrec(p).SetInt64(15)
		b, err := x.GobEncode()
		if err != nil {
			t.Fatal(err)
		}
		var y Decimal
		if err := y.GobDecode(b); err != nil {
			t.Errorf("prec %d: round trip fails: %v (encoding has %d bytes)", p, err, len(b))
			continue
		}
		if y.Cmp(x) != 0 || y.Prec() != p {
			t.Errorf("prec %d: got %v (prec %d), want %v", p, &y, y.Prec(), x)
		}
	}
}

// F18: SetFloat64/SetFloat incremented the precision temporarily with z.prec++, which wraps to 0
// at MaxPrec: the receiver came back with an unrelated small precision and an inexact value.
// (Values >= 1 are used so that the scaling is an exact multiplication, which is cheap at any
// precision; a division at MaxPrec allocates a quotient of MaxPrec digits.)
func TestFindingF18SetFloatMaxPrec(t *testing.T) {
	for _, f := range []float64{1e300, 3 * (1 << 60), math.MaxFloat64} {
		z := new(Decimal).SetPrec(MaxPrec).SetFloat64(f)
		if z.Prec() != MaxPrec {
			t.Errorf("SetFloat64(%g): precision changed from MaxPrec to %d", f, z.Prec())
		}
		want, _ := new(big.Float).SetFloat64(f).Int(nil)
		got, acc := z.Int(nil)
		if got.Cmp(want) != 0 || acc != Exact || z.Acc() != Exact {
			t.Errorf("SetFloat64(%g) at MaxPrec is not exact: %s (acc %v)", f, z.Text('g', 40), z.Acc())
		}
		z2 := new(Decimal).SetPrec(MaxPrec).SetFloat(new(big.Float).SetFloat64(f))
		if z2.Prec() != MaxPrec || z2.Cmp(z) != 0 {
			t.Errorf("SetFloat(%g): precision %d, value %s", f, z2.Prec(), z2.Text('g', 40))
		}
	}
}

// F20: Append read the exponent field of a zero to pick the %g layout and the number of fraction
// digits; a zero keeps whatever exponent an earlier value left there (x.Sub(x, x), Mul by zero,
// SetFloat64(0)), so two equal zeros printed differently depending on the variable's history.
func TestFindingF20StaleExponentOfZero(t *testing.T) {
	fresh := new(Decimal)
	for _, lit := range []string{"1e30", "1e-30", "123456789012345678901234567890", "0.001"} {
		x, _, err := new(Decimal).SetPrec(40).Parse(lit, 10)
		if err != nil {
			t.Fatal(err)
		}
		x.Sub(x, x) // +0, exponent field untouched
		if !x.IsZero() {
			t.Fatalf("%s - %s is not zero", lit, lit)
		}
		for _, f := range []byte{'e', 'f', 'g', 'G'} {
			for _, p := range []int{-1, 0, 1, 6, 10} {
				if got, want := x.Text(f, p), fresh.Text(f, p); got != want {
					t.Errorf("zero left by %s-%s: Text(%q, %d) = %q, a fresh zero gives %q", lit, lit, f, p, got, want)
				}
			}
		}
		if got, want := x.String(), fresh.String(); got != want {
			t.Errorf("zero left by %s-%s: String() = %q, want %q", lit, lit, got, want)
		}
	}
}

// F21: SetFloat stored the sign of x and then converted the mantissa through SetInt, which sets
// the sign of the integer 0 it is given: SetFloat(-0) returned +0 (SetFloat64(-0) was right).
func TestFindingF21SetFloatNegativeZero(t *testing.T) {
	nz := big.NewFloat(math.Copysign(0, -1))
	for _, p := range []uint{0, 9} {
		z := new(Decimal).SetPrec(p).SetFloat(nz)
		if !z.IsZero() || !z.Signbit() {
			t.Errorf("prec %d: SetFloat(-0) = %s (signbit %v), want -0", p, z.Text('g', -1), z.Signbit())
		}
		if z.Acc() != Exact {
			t.Errorf("prec %d: SetFloat(-0) accuracy %v, want Exact", p, z.Acc())
		}
	}
	if z := new(Decimal).SetFloat(big.NewFloat(0)); !z.IsZero() || z.Signbit() {
		t.Errorf("SetFloat(+0) = %s (signbit %v), want +0", z.Text('g', -1), z.Signbit())
	}
}
