package context

import (
	"testing"

	"github.com/db47h/decimal"
)

// F11: a panic that is not an ErrNaN must not be swallowed by a Context operation.
func TestFindingF11NonNaNPanicNotSwallowed(t *testing.T) {
	c := New(10, decimal.ToNearestEven)
	panicked := false
	func() {
		defer func() {
			if r := recover(); r != nil {
				panicked = true
			}
		}()
		c.Add(new(decimal.Decimal), nil, new(decimal.Decimal)) // nil operand: runtime error
	}()
	if !panicked {
		t.Errorf("nil-pointer panic inside Context.Add was swallowed; Err() = %v", c.Err())
	}
}
