#!/usr/bin/env python3
# Controls for the rules added after the first round of seeded changes (LOWCUT, DECNORM,
# SHIFTDIR, EXP(ii) on any exponent arithmetic, ASM copy-order, T-UNARY Sqrt pre-rounding).
import json
C=[]
def pos(name, file, old, new, rule, construct="", quick=False, note="", config=""):
    d={"name":name,"kind":"positive","edits":[{"file":file,"old":old,"new":new}],"expect":[{"rule":rule,"construct":construct}] if construct else [{"rule":rule}]}
    if quick: d["quick"]=True
    if note: d["note"]=note
    if config: d["config"]=config
    C.append(d)
def neg(name, file, old, new, rules, quick=False, note=""):
    d={"name":name,"kind":"negative","edits":[{"file":file,"old":old,"new":new}],"rules":rules}
    if quick: d["quick"]=True
    if note: d["note"]=note
    C.append(d)
X="decimal.go"
TODO="""	// TODO(db47h): If we have too many digits (d < 0), we should be able
	// to shorten x for faster division. But we must be extra careful
	// with rounding in that case.
"""
pos("lowcut-uquo-shortened-dividend",X,"		copy(xadj[d:], x.mant)\n	}\n"+TODO,"		copy(xadj[d:], x.mant)\n	} else if d < 0 {\n		xadj = x.mant[-d:]\n	}\n","LOWCUT","uquo",quick=True,note="seed C01")
pos("lowcut-setbitsexp-truncated",X,"		z.setExpAndRound(limitExp(exp)-dnorm(z.mant)-int64(len(mant)-len(z.mant))*_DW, 0)","		e := limitExp(exp) - int64(len(mant)-len(z.mant))*_DW\n		if n := int((uint64(z.prec)+_DW-1)/_DW) + 1; len(z.mant) > n {\n			z.mant = z.mant[len(z.mant)-n:]\n		}\n		z.setExpAndRound(e-dnorm(z.mant), 0)","LOWCUT","SetBitsExp",note="seed C20")
UQ_OLD_NEW=("	xadj := x.mant\n	if d := n - len(x.mant) + len(y.mant); d > 0 {\n		// d extra words needed => add d \"0 digits\" to x\n		xadj = make(dec, len(x.mant)+d)\n		copy(xadj[d:], x.mant)\n	}\n"+TODO+"""
	// Compute d before division since there may be aliasing of x.mant
	// (via xadj) or y.mant with z.mant.
	d := len(xadj) - len(y.mant)

	// divide
	var r dec
	z.mant, r = z.mant.div(nil, xadj, y.mant)
	e := int64(x.exp) - int64(y.exp) - int64(d-len(z.mant))*_DW

	// The result is long enough to include (at least) the rounding bit.
	// If there's a non-zero remainder, the corresponding fractional part
	// (if it were computed), would have a non-zero sticky bit (if it were
	// zero, it couldn't have a non-zero remainder).
	var sbit uint
	if len(r) > 0 {
		sbit = 1
	}
""","	xadj := x.mant\n	var sbit uint\n	if d := n - len(x.mant) + len(y.mant); d > 0 {\n		// d extra words needed => add d \"0 digits\" to x\n		xadj = make(dec, len(x.mant)+d)\n		copy(xadj[d:], x.mant)\n	} else if d < 0 && !alias(z.mant, x.mant) {\n		sbit = x.mant.sticky(uint(-d) * _DW)\n		xadj = x.mant[-d:]\n	}\n"+"""
	// Compute d before division since there may be aliasing of x.mant
	// (via xadj) or y.mant with z.mant.
	d := len(xadj) - len(y.mant)

	// divide
	var r dec
	z.mant, r = z.mant.div(nil, xadj, y.mant)
	e := int64(x.exp) - int64(y.exp) - int64(d-len(z.mant))*_DW

	if len(r) > 0 {
		sbit = 1
	}
""")
pos("lowcut-sticky-in-words",X,UQ_OLD_NEW[0],UQ_OLD_NEW[1].replace("uint(-d) * _DW","uint(-d)"),"LOWCUT","uquo",note="seed C02: word count where a digit count is expected")
neg("neg-lowcut-sticky-in-digits",X,UQ_OLD_NEW[0],UQ_OLD_NEW[1],["LOWCUT","MUSTFLOW","FX-RAW"],quick=True,note="the correct form of the optimisation: dropped words summarised by sticky(words*_DW) feeding the same sticky bit — must not alarm")
pos("decnorm-scan-norm-dropped","dec_conv.go","	res = z.norm()\n","	res = z\n","DECNORM","dec.scan",quick=True,note="seed C12")
pos("decnorm-add-returns-raw-buffer","dec.go","	z[m] = c\n\n	return z.norm()","	z[m] = c\n\n	return z","DECNORM","dec.add")
pos("shiftdir-uadd-branch-swapped",X,"	case ex < ey:\n		if same(z.mant, x.mant) {\n			t := dec(nil).shl(y.mant, uint(ey-ex))\n			z.mant = z.mant.add(x.mant, t)","	case ex < ey:\n		if same(z.mant, x.mant) {\n			t := dec(nil).shl(x.mant, uint(ey-ex))\n			z.mant = z.mant.add(y.mant, t)","SHIFTDIR","uadd",quick=True)
pos("shiftdir-usub-negative-count",X,"	case ex > ey:\n		if same(z.mant, y.mant) {\n			t := dec(nil).shl(x.mant, uint(ex-ey))\n			z.mant = t.sub(t, y.mant)","	case ex > ey:\n		if same(z.mant, y.mant) {\n			t := dec(nil).shl(x.mant, uint(ey-ex))\n			z.mant = t.sub(t, y.mant)","SHIFTDIR","usub")
pos("exp-fmte-int32-arith","decimal_toa.go","		exp = int64(ex) - 1 // -1 because first digit was printed before '.'","		_ = ex\n		exp = int64(x.exp - 1) // -1 because first digit was printed before '.'","EXP","fmtE",quick=True,note="seed C11")
pos("sqrt-prerounds-operand","decimal_sqrt.go","	b := x.MantExp(z)\n	z.prec, z.mode = prec, mode","	b := x.MantExp(z)\n	if xprec := 2*uint64(prec) + 2*_DW; uint64(z.prec) > xprec {\n		z.SetPrec(uint(xprec))\n	}\n	z.prec, z.mode = prec, mode","T-UNARY","Sqrt(+F)",note="seed C05")
S="dec_arith_amd64.s"
pos("asm-deccpyinv-store-before-load",S,"TEXT decCpyInv(SB),NOSPLIT,$0\n	SUBQ $4, SI\n	JL CV\n\nCU: // n >= 4\n	MOVQ 0(R8)(SI*8), AX\n	MOVQ 8(R8)(SI*8), BX\n	MOVQ 16(R8)(SI*8), CX\n	MOVQ 24(R8)(SI*8), DX\n	MOVQ AX, 0(R10)(SI*8)\n	MOVQ BX, 8(R10)(SI*8)\n","TEXT decCpyInv(SB),NOSPLIT,$0\n	SUBQ $4, SI\n	JL CV\n\nCU: // n >= 4\n	MOVQ 0(R8)(SI*8), AX\n	MOVQ 8(R8)(SI*8), BX\n	MOVQ AX, 0(R10)(SI*8)\n	MOVQ BX, 8(R10)(SI*8)\n	MOVQ 16(R8)(SI*8), CX\n	MOVQ 24(R8)(SI*8), DX\n","ASM","copy-order/decCpyInv",quick=True,note="the shape of seed C07: low words stored before high words are loaded")

INV_OLD="""TEXT decCpyInv(SB),NOSPLIT,$0
	SUBQ $4, SI
	JL CV

CU: // n >= 4
	MOVQ 0(R8)(SI*8), AX
	MOVQ 8(R8)(SI*8), BX
	MOVQ 16(R8)(SI*8), CX
	MOVQ 24(R8)(SI*8), DX
	MOVQ AX, 0(R10)(SI*8)
	MOVQ BX, 8(R10)(SI*8)
	MOVQ CX, 16(R10)(SI*8)
	MOVQ DX, 24(R10)(SI*8)
	SUBQ $4, SI		// n -= 4
	JGE CU			// if n >= 0 goto C4
CV:
	ADDQ $3, SI
	JL CE
CLoop:
	MOVQ 0(R8)(SI*8), AX
	MOVQ AX, 0(R10)(SI*8)
	SUBQ $1, SI
	JGE CLoop
CE:
	RET
"""
INV_RENAMED=INV_OLD.replace("CU","IU").replace("CV","IV").replace("CLoop","ITail").replace("CE","IEnd")
neg("neg-asm-deccpyinv-labels-renamed",S,INV_OLD,INV_RENAMED,["ASM"],quick=True,note="labels are not part of the rule: loops are found as backward jumps")
INV_2WAY="""TEXT decCpyInv(SB),NOSPLIT,$0
	SUBQ $2, SI
	JL CV

CU: // n >= 2
	MOVQ 0(R8)(SI*8), AX
	MOVQ 8(R8)(SI*8), BX
	MOVQ AX, 0(R10)(SI*8)
	MOVQ BX, 8(R10)(SI*8)
	SUBQ $2, SI		// n -= 2
	JGE CU
CV:
	ADDQ $1, SI
	JL CE
CLoop:
	MOVQ 0(R8)(SI*8), AX
	MOVQ AX, 0(R10)(SI*8)
	SUBQ $1, SI
	JGE CLoop
CE:
	RET
"""
neg("neg-asm-deccpyinv-2way",S,INV_OLD,INV_2WAY,["ASM"],note="a different unroll factor with loads before stores and a matching index step is fine")
pos("asm-deccpyinv-step-mismatch",S,INV_OLD,INV_OLD.replace("	SUBQ $4, SI		// n -= 4","	SUBQ $3, SI		// n -= 4"),"ASM","lanes/decCpyInv",note="index step differs from the number of lanes")

# reverts of the two precision wrap-around fixes
pos("revert-F17-gobencode-uint32-wordcount","decimal_marsh.go","		n = int((uint64(x.prec) + (_DW - 1)) / _DW) // required","		n = int((x.prec + (_DW - 1)) / _DW) // required","PRECWRAP","GobEncode",quick=True,note="F17")
pos("revert-F18-setfloat64-prec-increment","decimal.go","		prec := z.prec\n		if z.prec < MaxPrec {\n			z.prec++\n		}\n		t := new(Decimal).SetPrec(uint(z.prec))\n		if exp2 < 0 {\n			z = z.Quo(z, t.pow2(uint64(-exp2)))\n		} else {\n			z = z.Mul(z, t.pow2(uint64(exp2)))\n		}\n		z.prec = prec","		z.prec++\n		t := new(Decimal).SetPrec(uint(z.prec))\n		if exp2 < 0 {\n			z = z.Quo(z, t.pow2(uint64(-exp2)))\n		} else {\n			z = z.Mul(z, t.pow2(uint64(exp2)))\n		}\n		z.prec--","PRECWRAP","SetFloat64",quick=True,note="F18")
pos("tconv-setfloat64-no-guard-digit","decimal.go","		prec := z.prec\n		if z.prec < MaxPrec {\n			z.prec++\n		}\n		t := new(Decimal).SetPrec(uint(z.prec))\n		if exp2 < 0 {\n			z = z.Quo(z, t.pow2(uint64(-exp2)))","		prec := z.prec\n		t := new(Decimal).SetPrec(uint(z.prec))\n		if exp2 < 0 {\n			z = z.Quo(z, t.pow2(uint64(-exp2)))","T-CONV","SetFloat64(",note="the scaling loses its guard digit")
pos("asm-defuse-index-not-initialised",S,"	MOVQ y+48(FP), CX	// c = y\n	MOVQ z+0(FP), R10\n\n	MOVQ $0, SI			// i = 0\n","	MOVQ y+48(FP), CX	// c = y\n	MOVQ z+0(FP), R10\n\n","ASM","defuse/·add10VW",quick=True)
# revert of one instance of F20 (Append reading the exponent of a zero)
pos("revert-F20-append-stale-exponent","decimal_toa.go","		exp := x.exp10() - 1\n","		exp := int(x.exp) - 1\n","STALE","(*Decimal).Append",quick=True,note="F20")
pos("stale-toa-zero-through-finite-path","decimal_toa.go","	if x.form == finite {\n		m := x.mant\n","	if x.form != inf {\n		m := x.mant\n","STALE","(*Decimal).toa",note="a zero's leftover mantissa words are printed")
C.append({"name":"stale-intmant-caller-unguarded","kind":"positive","edits":[
 {"file":"decimal.go","old":"		z = new(big.Int)\n	}\n\n	switch x.form {\n	case finite:\n","new":"		z = new(big.Int)\n	}\n\n	switch x.form {\n	case finite, zero:\n"},
 {"file":"decimal.go","old":"		return z, acc\n\n	case zero:\n		return z.SetInt64(0), Exact\n\n	case inf:\n		return nil, makeAcc(x.neg)","new":"		return z, acc\n\n	case inf:\n		return nil, makeAcc(x.neg)"}],
 "expect":[{"rule":"STALE","construct":"(*Decimal).Int"}],"note":"Int treats a zero like a finite value: its leftover exponent and mantissa decide the result"})
# rules added after the fourth round of seeded changes
pos("fill-setnat-stops-when-source-exhausted","dec.go","	for i := 0; i < len(z); i++ {\n		z[i] = divWVW(b, 0, b, _DB)\n	}","	for i := 0; i < len(z); i++ {\n		if len(b) > 0 && b[len(b)-1] == 0 {\n			b = b[:len(b)-1]\n		}\n		if len(b) == 0 {\n			break\n		}\n		z[i] = divWVW(b, 0, b, _DB)\n	}","FILL","dec.setNat",quick=True,note="seed r4-C02A")
neg("fill-setnat-index-renamed","dec.go","	for i := 0; i < len(z); i++ {\n		z[i] = divWVW(b, 0, b, _DB)\n	}","	for k := 0; k < len(z); k++ {\n		w := divWVW(b, 0, b, _DB)\n		z[k] = w\n	}",["FILL"])
pos("gob-setbytes-range-over-words","dec.go","	for k := 0; i >= _S; k++ {\n		z[k] = bigEndianWord(buf[i-_S : i])","	for k := range z {\n		z[k] = bigEndianWord(buf[i-_S : i])","GOB","G6:offset-guard",quick=True,note="seed r4-C17B")
neg("gob-setbytes-guard-rewritten","dec.go","	for k := 0; i >= _S; k++ {\n		z[k] = bigEndianWord(buf[i-_S : i])","	for k := 0; _S <= i; k++ {\n		z[k] = bigEndianWord(buf[i-_S : i])",["GOB"])
pos("gob-bytes-stops-at-last-significant-byte","dec.go","		for j := 0; j < _S; j++ {\n			i--\n			buf[i] = byte(d)","		for j := 0; j < _S && d != 0; j++ {\n			i--\n			buf[i] = byte(d)","GOB","G7:positional",quick=True,note="seed r4-C17A")
pos("scan-setstring-strconv-fast-path","decimal_conv.go","	if f, _, err := z.Parse(s, 0); err == nil {\n		return f, true\n	}\n	return nil, false","	if len(s) < 19 {\n		if u, err := strconv.ParseUint(s, 0, 64); err == nil {\n			return z.SetUint64(u), true\n		}\n	}\n	if f, _, err := z.Parse(s, 0); err == nil {\n		return f, true\n	}\n	return nil, false","SCANSHAPE","SetString/one-grammar",note="seed r4-C12B")
C[-1]["edits"].append({"file":"decimal_conv.go","old":"	\"io\"\n	\"strings\"\n","new":"	\"io\"\n	\"strconv\"\n	\"strings\"\n"})
pos("scan-readbyte-accepts-wide-runes","stdlib.go","	ch, size, err := r.ReadRune()\n	if size != 1 && err == nil {","	ch, size, err := r.ReadRune()\n	if size == 0 && err == nil {","SCANSHAPE","byte-reader",quick=True,note="seed r4-C12A")
neg("scan-readbyte-range-test","stdlib.go","	ch, size, err := r.ReadRune()\n	if size != 1 && err == nil {","	ch, _, err := r.ReadRune()\n	if ch >= 0x80 && err == nil {",["SCANSHAPE"])
pos("wordsum-addmul-carry-folded-into-addend","dec_arith.go","		hi, z0 := mulAddWWW_g(x[i], y, z[i])\n		lo, cc := bits.Add(uint(z0), uint(c), 0)\n		c, z[i] = div10W_g(hi+Word(cc), Word(lo))","		hi, lo := mulAddWWW_g(x[i], y, z[i]+c)\n		c, z[i] = div10W_g(hi, lo)","WORDSUM","addMul10VVW_g",quick=True,note="seed r3-C07B",config="purego")
neg("wordsum-add10vw-operands-swapped","dec_arith.go","		s := x[i] + c\n","		s := c + x[i]\n",["WORDSUM"])
# rules added after the fifth round
pos("divcore-mul10ww-g-high-zero-shortcut","dec_arith.go","	hi, lo := bits.Mul(uint(x), uint(y))\n	return div10W_g(Word(hi), Word(lo))","	hi, lo := bits.Mul(uint(x), uint(y))\n	if hi == 0 {\n		return 0, Word(lo)\n	}\n	return div10W_g(Word(hi), Word(lo))","DIVCORE","mul10WW_g",quick=True,note="seed r3-C07C")
pos("asm-divcore-mul10ww-high-zero-shortcut","dec_arith_amd64.s","	MOVQ x+0(FP), AX\n	MULQ y+8(FP)\n","	MOVQ x+0(FP), AX\n	MULQ y+8(FP)\n	TESTQ DX, DX\n	JNE R0a\n	MOVQ DX, z1+16(FP)\n	MOVQ AX, z0+24(FP)\n	RET\nR0a:\n","ASM","divcore/·mul10WW",quick=True,note="seed r5-C07A")
pos("fill-add10vw-g-naked-return-after-copy","dec_arith.go","			copy(z[i+1:], x[i+1:])\n			return 0\n","			copy(z[i+1:], x[i+1:])\n			return\n","FILL","add10VW_g/copy-rest",quick=True,note="seed r5-C07B")
pos("shiftw-pow2-count-may-equal-width","decimal_conv.go","	if n < _W {","	if n <= _W {","SHIFTW","pow2",quick=True,note="seed r5-C15B")
neg("shiftw-pow2-guard-rewritten","decimal_conv.go","	if n < _W {","	if n <= _W-1 {",["SHIFTW"])
pos("carry-decaddat-one-word-window","dec.go","				add10VW(z[j:], z[j:], c)","				add10VW(z[j:j+1], z[j:], c)","CARRY","decAddAt/add10VW/window",quick=True,note="seed r5-C05B")
pos("sibling-karatsubasub-half-window","dec.go","		sub10VW(z[n:n+n>>1], z[n:], c)","		sub10VW(z[n:n+n>>2], z[n:], c)","SIBLING","decKaratsubaAdd~decKaratsubaSub",quick=True,note="seed r5-C05C")
neg("sibling-karatsuba-windows-rewritten","dec.go","		sub10VW(z[n:n+n>>1], z[n:], c)","		sub10VW(z[n:n>>1+n], z[n:], c)",["SIBLING"])
pos("workprec-floatpow5-minprec","stdlib.go","	f := new(big.Float).SetPrec(z.Prec() + 64).SetUint64(5)","	f := new(big.Float).SetPrec(z.MinPrec() + 64).SetUint64(5)","WORKPREC","floatPow5",quick=True,note="seed r5-C15C")
# normalisation: checks moved into a helper (and one of them lost on the way)
C.append({"name":"norm-gob-checks-extracted-word-test-lost","kind":"positive","quick":True,"edits":[
 {"file":"decimal_marsh.go","old":"\t\tif len(m) == 0 || m[len(m)-1] < _DB/10 {\n\t\t\treturn errors.New(\"Decimal.GobDecode: mantissa is not normalized\")\n\t\t}\n\t\tfor _, w := range m {\n\t\t\tif w >= _DB {\n\t\t\t\treturn errors.New(\"Decimal.GobDecode: invalid mantissa word\")\n\t\t\t}\n\t\t}\n\t\tif uint(len(m))*_DW-m.trailingZeroDigits() > uint(prec) {\n\t\t\treturn errors.New(\"Decimal.GobDecode: mantissa does not fit precision\")\n\t\t}\n","new":"\t\tif err := gobCheckMant(m, prec); err != nil {\n\t\t\treturn err\n\t\t}\n"},
 {"file":"decimal_marsh.go","old":"// UnmarshalText implements the encoding.TextUnmarshaler interface.","new":"func gobCheckMant(m dec, prec uint32) error {\n\tif len(m) == 0 || m[len(m)-1] < _DB/10 {\n\t\treturn errors.New(\"Decimal.GobDecode: mantissa is not normalized\")\n\t}\n\tif uint(len(m))*_DW-m.trailingZeroDigits() > uint(prec) {\n\t\treturn errors.New(\"Decimal.GobDecode: mantissa does not fit precision\")\n\t}\n\treturn nil\n}\n\n// UnmarshalText implements the encoding.TextUnmarshaler interface."}],
 "expect":[{"rule":"GOB","construct":"G2:mant/words<base"}],"note":"the validity tests of the decoded mantissa extracted into a helper with several returns, the test of the words against the base lost: found after the helper is inlined back (normalisation pass)"})
C.append({"name":"norm-gob-checks-extracted","kind":"negative","quick":True,"edits":[
 {"file":"decimal_marsh.go","old":"\t\tif len(m) == 0 || m[len(m)-1] < _DB/10 {\n\t\t\treturn errors.New(\"Decimal.GobDecode: mantissa is not normalized\")\n\t\t}\n\t\tfor _, w := range m {\n\t\t\tif w >= _DB {\n\t\t\t\treturn errors.New(\"Decimal.GobDecode: invalid mantissa word\")\n\t\t\t}\n\t\t}\n\t\tif uint(len(m))*_DW-m.trailingZeroDigits() > uint(prec) {\n\t\t\treturn errors.New(\"Decimal.GobDecode: mantissa does not fit precision\")\n\t\t}\n","new":"\t\tif err := gobCheckMant(m, prec); err != nil {\n\t\t\treturn err\n\t\t}\n"},
 {"file":"decimal_marsh.go","old":"// UnmarshalText implements the encoding.TextUnmarshaler interface.","new":"func gobCheckMant(m dec, prec uint32) error {\n\tif len(m) == 0 || m[len(m)-1] < _DB/10 {\n\t\treturn errors.New(\"Decimal.GobDecode: mantissa is not normalized\")\n\t}\n\tfor _, w := range m {\n\t\tif w >= _DB {\n\t\t\treturn errors.New(\"Decimal.GobDecode: invalid mantissa word\")\n\t\t}\n\t}\n\tif uint(len(m))*_DW-m.trailingZeroDigits() > uint(prec) {\n\t\treturn errors.New(\"Decimal.GobDecode: mantissa does not fit precision\")\n\t}\n\treturn nil\n}\n\n// UnmarshalText implements the encoding.TextUnmarshaler interface."}],
 "rules":["GOB","WORD","FX-OWN"],"note":"the same extraction, complete"})
# aliasing: a renamed function keeps its construct name (and its obligations)
C.append({"name":"alias-intmant-renamed-and-reached-for-zero","kind":"positive","edits":[
 {"file":"decimal.go","old":"func (x *Decimal) intMant() dec {","new":"func (x *Decimal) integralDigits() dec {"},
 {"file":"decimal.go","old":"		z.SetBits(decToNat(z.Bits(), x.intMant()))","new":"		z.SetBits(decToNat(z.Bits(), x.integralDigits()))"},
 {"file":"decimal.go","old":"			if t, ok := x.intMant().toUint64(); ok {","new":"			if t, ok := x.integralDigits().toUint64(); ok {"},
 {"file":"decimal.go","old":"			if r, ok := x.intMant().toUint64(); ok {","new":"			if r, ok := x.integralDigits().toUint64(); ok {"},
 {"file":"decimal.go","old":"		z = new(big.Int)\n	}\n\n	switch x.form {\n	case finite:\n","new":"		z = new(big.Int)\n	}\n\n	switch x.form {\n	case finite, zero:\n"},
 {"file":"decimal.go","old":"		return z, acc\n\n	case zero:\n		return z.SetInt64(0), Exact\n\n	case inf:\n		return nil, makeAcc(x.neg)","new":"		return z, acc\n\n	case inf:\n		return nil, makeAcc(x.neg)"}],
 "expect":[{"rule":"STALE","construct":"(*Decimal).intMant"}],"note":"intMant renamed everywhere and Int made to reach it for a zero: reported under the pinned construct name (fingerprint aliasing)"})
pos("revert-F21-setfloat-negative-zero","decimal.go","	if x.Sign() == 0 {\n		// ±0: SetInt below would drop the sign of a negative zero\n		z.form = zero\n		return z\n	}\n","","T-CONV","SetFloat(-0)",quick=True,note="F21")
pos("revert-F22-pow2-workprec-wraps-on-32-bit","decimal_conv.go","	f := new(Decimal).SetPrec(z.workPrec()).SetUint64(2)\n","	f := new(Decimal).SetPrec(z.Prec() + _DW).SetUint64(2)\n","PRECWRAP","(*Decimal).pow2",note="F22: manifests where uint has 32 bits",config="386")
SHL_OLD="		h, l = d.div(x[i-1])\n		z[i] = t*m + h"
SHL_NEW="		if w := x[i-1]; w %s Word(d.d) {\n			h, l = 0, w\n		} else {\n			h, l = d.div(w)\n		}\n		z[i] = t*m + h"
pos("divcore-shl-skips-division-up-to-divisor","dec_arith.go",SHL_OLD,SHL_NEW%"<=","DIVCORE","shl10VU_g",quick=True,note="seed r8-C20C: the word equal to the divisor has quotient 1",config="purego")
neg("neg-divcore-shl-skips-division-below-divisor","dec_arith.go",SHL_OLD,SHL_NEW%"<",["DIVCORE","WORDSUM","FILL","SHIFTW"],note="the correct form of the shortcut: strictly below the divisor the pair is (0, word)")
pos("gob-decode-into-receiver-before-validation","decimal_marsh.go","		m := dec(nil).setBytes(buf[10:])\n","		m := z.mant.setBytes(buf[10:])\n","GOB","G9",quick=True,note="seed r8-C08B: unvalidated words land in the receiver's mantissa array, then an error is returned")
pos("gob-attributes-stored-before-validation","decimal_marsh.go","	if frm == finite {\n		if len(buf) < 10 {","	z.mode = mode\n	z.prec = prec\n	if frm == finite {\n		if len(buf) < 10 {","GOB","G9",note="seed r8-C09C")
pos("aliasskip-sub-copy-skipped-for-wrong-operand","dec.go","	if m > n {\n		c = sub10VW(z[n:], x[n:], c)\n	}","	if m > n {\n		if c != 0 {\n			c = sub10VW(z[n:], x[n:], c)\n		} else if !alias(z, y) {\n			copy(z[n:], x[n:])\n		}\n	}","ALIASGUARD","dec.sub/alias-skip",quick=True,note="seed r8-C03A")
neg("neg-aliasskip-sub-copy-skipped-when-same","dec.go","	if m > n {\n		c = sub10VW(z[n:], x[n:], c)\n	}","	if m > n {\n		if c != 0 {\n			c = sub10VW(z[n:], x[n:], c)\n		} else if !same(z, x) {\n			copy(z[n:], x[n:])\n		}\n	}",["ALIASGUARD","FILL","CARRY","OVERLAP"],note="the copy skipped only when z is x itself: must not alarm")
pos("fill-dectonat-stops-when-source-exhausted","dec.go","	for i := 0; i < len(z); i++ {\n		// r = zz & _B; zz = zz >> _W\n","	for i := 0; i < len(z); i++ {\n		if len(zz) == 0 {\n			break\n		}\n		// r = zz & _B; zz = zz >> _W\n","FILL","decToNat",note="seed r8-C10A: the words of the reused []big.Word that are not reached keep their old contents")
GT_OLD="	return x1 > y1 || x1 == y1 && x2 > y2\n"
pos("qhat-greaterthan-not-strict","stdlib.go",GT_OLD,"	return x1 > y1 || x1 == y1 && x2 >= y2\n","QHAT","test-strict",quick=True,note="seed r9-C15C: on equality the estimate is exact")
neg("neg-qhat-greaterthan-branch-free","stdlib.go",GT_OLD,"	_, b := bits.Sub(uint(y2), uint(x2), 0)\n	_, b = bits.Sub(uint(y1), uint(x1), b)\n	return b != 0\n",["QHAT"],note="the strict comparison written with borrows (y - x borrows exactly when x > y): must not alarm; needs math/bits imported — stdlib.go does not import it, so the edit below adds it")
C[-1]["edits"].append({"file":"stdlib.go","old":"	\"math/big\"\n","new":"	\"math/big\"\n	\"math/bits\"\n"})
pos("word-product-touint64","dec.go","			lo = x[1]\n			fallthrough\n		case 1:\n			hi, lo = mulAddWWW_g(lo, _DB, x[0])","			lo = x[1] * _DB\n			fallthrough\n		case 1:\n			hi, lo = mulAddWWW_g(0, 0, lo+x[0])","WORD","word-product",note="seed r9-C14B (the carry handling of the seed left out: the product alone wraps)")
pos("gob-partial-word-through-whole-word-reader","dec.go","		var d Word\n		for s := uint(0); i > 0; s += 8 {\n			d |= Word(buf[i-1]) << s\n			i--\n		}\n		z[len(z)-1] = d\n","		z[len(z)-1] = bigEndianWord(buf[:i])\n","GOB","G10",quick=True,note="seed r9-C17C")
pos("sqrt-scratch-rounds-to-zero","decimal_sqrt.go","	z.mant = z.mant.make(int(prec2/_DW) * 2)\n	return z","	z.mant = z.mant.make(int(prec2/_DW) * 2)\n	z.mode = ToZero\n	return z","SQRTSHAPE","scratch-mode",quick=True,note="seed r9-C05B")
pos("workprec-whole-words-only","decimal_conv.go","	return uint(p)\n}","	return uint(p / _DW * _DW)\n}","WORKPREC","guard-word",note="seed r9-C15B")
pos("writemultiple-block-remainder","stdlib.go","		b := []byte(text)\n		for ; count > 0; count-- {\n			s.Write(b)\n		}\n","		if len(text) > 1 {\n			return\n		}\n		var block [32]byte\n		for i := range block {\n			block[i] = text[0]\n		}\n		for ; count > len(block); count -= len(block) {\n			s.Write(block[:])\n		}\n		s.Write(block[:count%len(block)])\n","FMTSHAPE","writeMultiple/count",quick=True,note="seeds r5-C13C, r7-C13C: a full last block is written as nothing")
neg("neg-writemultiple-block-remainder","stdlib.go","		b := []byte(text)\n		for ; count > 0; count-- {\n			s.Write(b)\n		}\n","		if len(text) > 1 {\n			b := []byte(text)\n			for ; count > 0; count-- {\n				s.Write(b)\n			}\n			return\n		}\n		var block [32]byte\n		for i := range block {\n			block[i] = text[0]\n		}\n		for ; count > len(block); count -= len(block) {\n			s.Write(block[:])\n		}\n		s.Write(block[:count])\n",["FMTSHAPE","FX-IMMUT"],note="the correct batching (remainder = what is left, at most a block): must not alarm")
json.dump(C,open("seedrules.json","w"),indent=1,ensure_ascii=False)
print(len(C),"controls")
