#!/usr/bin/env python3
# Incremental companion of gen_corpus.py: evaluates only the seeded changes named on the command
# line (argument 1: a scratch worktree of /repo; further arguments: directory names under
# /verif/seeded) and merges the outcome into controls/corpus.json, seeded/MISSED.txt and
# seeded/OFFTARGET.txt, leaving every other entry as the last full run of gen_corpus.py wrote it.
import json, os, re, subprocess, sys
from concurrent.futures import ThreadPoolExecutor
import queue
wt = sys.argv[1]; names = sys.argv[2:]
WTS = [wt]
for k in (2, 3, 4, 5, 6):
    w = '%s-%d' % (wt, k)
    subprocess.run(['git', '-C', '/repo', 'worktree', 'remove', '--force', w], capture_output=True)
    subprocess.run(['rm', '-rf', w])
    subprocess.run(['git', '-C', '/repo', 'worktree', 'add', '-q', '--detach', w, 'HEAD'], check=True)
    WTS.append(w)
pool = queue.Queue()
for w in WTS:
    pool.put(w)
def run(name):
    w = pool.get()
    try:
        out = subprocess.run(['/verif/seeded/eval_patch.sh', w, '/verif/seeded/%s/patch.diff' % name], capture_output=True, text=True).stdout
    finally:
        pool.put(w)
    fails = []
    for ln in out.splitlines():
        m = re.match(r'\s+\[(C\d\d)\] FAIL (\S+) (.*?) at \S+ \[\w+\]: ', ln)
        if m:
            fails.append((m.group(1), m.group(2), m.group(3)))
    return fails
with ThreadPoolExecutor(max_workers=len(WTS)) as ex:
    RES = dict(zip(names, ex.map(run, names)))
for w in WTS[1:]:
    subprocess.run(['git', '-C', '/repo', 'worktree', 'remove', '--force', w], capture_output=True)
    subprocess.run(['rm', '-rf', w])
C = json.load(open('/verif/controls/corpus.json'))
missed = [l.strip() for l in open('/verif/seeded/MISSED.txt') if l.strip()]
off = [l.rstrip('\n') for l in open('/verif/seeded/OFFTARGET.txt') if l.strip()]
for name in names:
    fails = RES[name]
    C = [c for c in C if c['name'] != 'seed-' + name]
    missed = [m for m in missed if m != name]
    off = [o for o in off if not o.startswith(name + ':')]
    if not fails:
        missed.append(name); continue
    target = re.search(r'(C\d\d)', name).group(1)
    props = sorted(set(f[0] for f in fails))
    if target not in props:
        off.append('%s: reported under %s, not under %s (%s)' % (name, ' '.join(props), target, '; '.join(sorted(set(f[1] for f in fails)))[:120]))
    exp, seen = [], set()
    for _, rule, cons in fails:
        if (rule, cons) in seen or len([e for e in exp if e['rule'] == rule]) >= 2:
            continue
        seen.add((rule, cons)); exp.append({'rule': rule, 'construct': cons})
    C.append({'name': 'seed-' + name, 'kind': 'positive', 'patch': 'seeded/%s/patch.diff' % name, 'expect': exp[:8],
              'note': 'seeded change written by an independent sub-agent (breaks %s); see seeded/%s/SEED.md' % (target, name)})
json.dump(C, open('/verif/controls/corpus.json', 'w'), indent=1, ensure_ascii=False)
open('/verif/seeded/MISSED.txt', 'w').write('\n'.join(sorted(missed)) + '\n')
open('/verif/seeded/OFFTARGET.txt', 'w').write('\n'.join(sorted(off)) + '\n')
print(len(names), 'evaluated;', sum(1 for n in names if not RES[n]), 'missed')
