#!/usr/bin/env python3
import json
C=[]
def pos(name, file, old, new, rule, construct="", quick=False, note=""):
    d={"name":name,"kind":"positive","edits":[{"file":file,"old":old,"new":new}],"expect":[{"rule":rule,"construct":construct}] if construct else [{"rule":rule}]}
    if quick: d["quick"]=True
    if note: d["note"]=note
    C.append(d)
def neg(name, file, old, new, rules, quick=False, note=""):
    d={"name":name,"kind":"negative","edits":[{"file":file,"old":old,"new":new}],"rules":rules}
    if quick: d["quick"]=True
    if note: d["note"]=note
    C.append(d)
CV="decimal_conv.go"
pos("revert-F13-parse-nonnil-with-error",CV,"""		d, err = nil, fmt.Errorf("expected end of string, found %q", ch)
	} else if err2 != io.EOF {
		d, err = nil, err2
	}""","""		err = fmt.Errorf("expected end of string, found %q", ch)
	} else if err2 != io.EOF {
		err = err2
	}""","ERRNIL","(*Decimal).Parse",quick=True,note="F13")
pos("scan-result-set-before-range-check",CV,"""	if MinExp <= exp10 && exp10 <= MaxExp {
		z.prec = prec
		z.form = finite
		z.exp = int32(exp10)
		f = z
	} else {""","""	f = z
	if MinExp <= exp10 && exp10 <= MaxExp {
		z.prec = prec
		z.form = finite
		z.exp = int32(exp10)
	} else {""","ERRNIL","(*Decimal).scan")
pos("setstring-wrong-flag",CV,"	if f, _, err := z.Parse(s, 0); err == nil {\n		return f, true\n	}\n	return nil, false","	if f, _, err := z.Parse(s, 0); err == nil {\n		return f, true\n	}\n	return nil, true","ERRNIL","(*Decimal).SetString")
pos("parse-success-without-eof",CV,"	} else if err2 != io.EOF {\n		d, err = nil, err2","	} else if err2 != io.EOF && err2 != io.ErrUnexpectedEOF {\n		d, err = nil, err2","ERRNIL","(*Decimal).Parse",note="success reported on a path that has not seen io.EOF")
pos("parse-skips-consumption-check",CV,"""	if d, b, err = z.scan(r, base); err != nil {
		return
	}
""","""	if d, b, err = z.scan(r, base); err != nil || base == 10 {
		return
	}
""","ERRNIL","(*Decimal).Parse")
pos("scan-exponent-error-dropped",CV,"	exp, ebase, err = scanExponent(r, true, base == 0)\n	if err != nil {\n		return\n	}","	exp, ebase, _ = scanExponent(r, true, base == 0)","ERRDROP","(*Decimal).scan",quick=True)
neg("neg-decscan-unread-error-discarded","dec_conv.go","				err = r.UnreadByte() // ch does not belong to number anymore","				r.UnreadByte() // ch does not belong to number anymore",["ERRDROP"],note="putting back the byte that the ReadByte in front of it has just read cannot fail for any io.ByteScanner that honours its contract: discarding that error is not a dropped error (was a positive control until batch 7 of the refactorings showed the rule to be too strict, DESIGN 9g)")
pos("scan-octal-fraction-4-bits",CV,"			exp2 += d * 3 // octal digits are 3 bits each","			exp2 += d * 4 // octal digits are 3 bits each","SCANSHAPE","radix-8",quick=True)
pos("scan-hex-fraction-into-decimal-exponent",CV,"			exp2 += d * 4 // hexadecimal digits are 4 bits each","			exp10 += d * 4 // hexadecimal digits are 4 bits each","SCANSHAPE","radix-16")
pos("scan-binary-fraction-subtracted",CV,"		case 2:\n			exp2 += d\n","		case 2:\n			exp2 -= d\n","SCANSHAPE","radix-2")
neg("scan-octal-fraction-shift-add",CV,"			exp2 += d * 3 // octal digits are 3 bits each","			exp2 = d<<1 + d // octal digits are 3 bits each",["SCANSHAPE"],note="exp2 is 0 before the switch")
pos("scan-hex-fraction-into-exp10",CV,"			exp2 += d * 4 // hexadecimal digits are 4 bits each","			exp10 += d * 4 // hexadecimal digits are 4 bits each","SCANSHAPE","radix-16")
pos("scan-exponent-separators-always",CV,"	exp, ebase, err = scanExponent(r, true, base == 0)","	exp, ebase, err = scanExponent(r, true, true)","SCANSHAPE","sepOk")
pos("decscan-separators-any-base","dec_conv.go","		} else if ch == '_' && base == 0 {","		} else if ch == '_' && base >= 0 {","SCANSHAPE","sepGate")
T="decimal_toa.go"
pos("marshaltext-fixed-precision","decimal_marsh.go","	return x.Append(buf, 'g', -1), nil","	return x.Append(buf, 'g', 10), nil","FMTSHAPE","MarshalText",quick=True)
pos("append-copy-without-mode",T,"			x = new(Decimal).SetMode(x.mode).SetPrec(uint(rnd)).Set(x)","			x = new(Decimal).SetPrec(uint(rnd)).Set(x)","FMTSHAPE","TMPMODE")
pos("append-no-rounding-copy",T,"		if rnd < digits {\n			x = new(Decimal).SetMode(x.mode).SetPrec(uint(rnd)).Set(x)\n			digits = int(x.MinPrec())\n		}","		_ = rnd","FMTSHAPE","rounding-copy")
pos("append-infinity-spelling",T,'		return append(buf, "Inf"...)','		return append(buf, "Infinity"...)',"FMTSHAPE","infinity-spelling")
pos("fmtb-exponent-marker",T,"	buf = append(buf, 'e')\n	e := int64(exp) - int64(x.prec)","	buf = append(buf, 'x')\n	e := int64(exp) - int64(x.prec)","FMTSHAPE","fmtB")
pos("format-without-F",T,"	case 'F':\n		// (*Decimal).Text doesn't support 'F'; handle like 'f'\n		format = 'f'\n","","FMTSHAPE","Format/verbs")
pos("format-ignores-plus-flag",T,"	case s.Flag('+'):\n		sign = \"+\"\n","","FMTSHAPE","Format/flags")
neg("neg-append-copy-as-statements",T,"			x = new(Decimal).SetMode(x.mode).SetPrec(uint(rnd)).Set(x)","			t := new(Decimal)\n			t.SetMode(x.mode)\n			t.SetPrec(uint(rnd))\n			x = t.Set(x)",["FMTSHAPE"],quick=True,note="same rounding copy, written as separate statements")
json.dump(C,open("api.json","w"),indent=1,ensure_ascii=False)
print(len(C),"controls")
