#!/bin/bash
# sweep_benign.sh [workers]: runs every stored behaviour-preserving refactoring (benign/*.diff) through
# decverif -evalall in scratch worktrees of /repo under /tmp and prints the ones on which any rule of
# any property reports a violation or an analysis error (expected: none). Changes nothing under /verif.
set -u
n=${1:-12}
for k in $(seq 1 $n); do git -C /repo worktree remove --force /tmp/bsweep-$k >/dev/null 2>&1; rm -rf /tmp/bsweep-$k; git -C /repo worktree add -q --detach /tmp/bsweep-$k HEAD || exit 2; done
ls /verif/benign/*.diff | awk -v n=$n '{print (NR%n)+1, $0}' > /tmp/bsweep.list
for k in $(seq 1 $n); do
  ( awk -v k=$k '$1==k{print $2}' /tmp/bsweep.list | while read p; do
      /verif/seeded/eval_patch.sh /tmp/bsweep-$k $p 2>&1 | tail -1
    done > /tmp/bsweep-$k.out ) &
done
wait
cat /tmp/bsweep-*.out | grep -c "VIOLATION in: none  ANALYSIS-ERROR in: none" | sed 's/^/silent: /'
cat /tmp/bsweep-*.out | grep -v "VIOLATION in: none  ANALYSIS-ERROR in: none" | sed 's/^/ALARM: /'
for k in $(seq 1 $n); do git -C /repo worktree remove --force /tmp/bsweep-$k >/dev/null 2>&1; rm -rf /tmp/bsweep-$k /tmp/bsweep-$k.out; done
rm -f /tmp/bsweep.list
