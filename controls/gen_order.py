#!/usr/bin/env python3
import json
C=[]
def pos(name, file, old, new, rule, construct="", quick=False, note="", config=""):
    d={"name":name,"kind":"positive","edits":[{"file":file,"old":old,"new":new}],"expect":[{"rule":rule,"construct":construct}] if construct else [{"rule":rule}]}
    if quick: d["quick"]=True
    if note: d["note"]=note
    if config: d["config"]=config
    C.append(d)
def neg(name, file, old, new, rules, quick=False, note=""):
    d={"name":name,"kind":"negative","edits":[{"file":file,"old":old,"new":new}],"rules":rules}
    if quick: d["quick"]=True
    if note: d["note"]=note
    C.append(d)
D="dec.go"; X="decimal.go"
# CARRY
pos("carry-add-top-dropped",D,"	c := add10VV(z[0:n], x, y)\n	if m > n {\n		c = add10VW(z[n:m], x[n:], c)\n	}\n	z[m] = c","	c := add10VV(z[0:n], x, y)\n	if m > n {\n		add10VW(z[n:m], x[n:], c)\n	}\n	z[m] = c","CARRY","dec.add/add10VW",quick=True)
pos("carry-round-allnines-ignored",X,"			if add10VW(z.mant, z.mant, Word(lsd)) != 0 {","			add10VW(z.mant, z.mant, Word(lsd))\n			if false {","CARRY","round")
neg("neg-carry-divrecursive-sanity-borrow-dropped",D,"	c := sub10VV(u[0:len(qhatv)], u[0:len(qhatv)], qhatv)\n	if c > 0 {\n		c = sub10VW(u[len(qhatv):], u[len(qhatv):], c)\n	}","	c := sub10VV(u[0:len(qhatv)], u[0:len(qhatv)], qhatv)\n	if c > 0 {\n		sub10VW(u[len(qhatv):], u[len(qhatv):], c)\n		c = 0\n	}",["CARRY"],note="the borrow of the last in-place propagation only feeds a `cannot happen` panic: dropping it does not change any result (was a positive control while CARRY counted discards per function; in-place propagations are now accepted by shape so that moving code between helpers is not an alarm)")
# MUSTFLOW
pos("uquo-sticky-dropped",X,"	var sbit uint\n	if len(r) > 0 {\n		sbit = 1\n	}\n","	var sbit uint\n	_ = r\n","MUSTFLOW","uquo/remainder",quick=True,note="compiles and passes all 80 tests")
pos("umul-dnorm-ignored",X,"	z.setExpAndRound(e-dnorm(z.mant), 0)\n}\n\nconst (","	dnorm(z.mant)\n	z.setExpAndRound(e, 0)\n}\n\nconst (","MUSTFLOW","umul/dnorm")
pos("setbitsexp-stripped-words-ignored",X,"		z.setExpAndRound(limitExp(exp)-dnorm(z.mant)-int64(len(mant)-len(z.mant))*_DW, 0)","		z.setExpAndRound(limitExp(exp)-dnorm(z.mant), 0)","MUSTFLOW","SetBitsExp/stripped-words",note="no test covers SetBitsExp")
# POOL
pos("pool-put-before-use",D,"	if n < divRecursiveThreshold {\n		q.divBasic(u, v)\n	} else {\n		q.divRecursive(u, v)\n	}\n	putDec(vp)\n","	putDec(vp)\n	if n < divRecursiveThreshold {\n		q.divBasic(u, v)\n	} else {\n		q.divRecursive(u, v)\n	}\n","POOL","dec.divLarge",quick=True,note="another goroutine may be handed the divisor copy while it is still read")
pos("pool-double-put",D,"		putDec(tp)\n	}\n\n	return z.norm()\n}\n\n// basicSqr","		putDec(tp)\n		putDec(tp)\n	}\n\n	return z.norm()\n}\n\n// basicSqr","POOL","dec.sqr")
pos("pool-buffer-returned",D,"	qhatvp := getDec(n + 1)\n	qhatv := *qhatvp","	qhatvp := getDec(n + 1)\n	qhatv := *qhatvp\n	defer func() { _ = qhatv }()","POOL","",note="placeholder: closure capture")
C.pop()
neg("neg-pool-leak",D,"	putDec(qhatvp)\n}","}",["POOL"],quick=True,note="a missing put is a leak, not a violation of any property")
# ALIASGUARD
pos("aliasguard-divlarge-removed",D,"	if alias(z, u) {\n		z = nil // z is an alias for u - cannot reuse\n	}","","ALIASGUARD","dec.divLarge",quick=True,note="passes all 80 tests")
pos("aliasguard-mul-y-removed",D,"	if alias(z, x) || alias(z, y) {\n		z = nil // z is an alias for x or y - cannot reuse\n	}","	if alias(z, x) {\n		z = nil // z is an alias for x or y - cannot reuse\n	}","ALIASGUARD","dec.mul/(z,y)")
pos("aliasguard-sqr-no-rebind",D,"	if alias(z, x) {\n		z = nil // z is an alias for x - cannot reuse\n	}","	if alias(z, x) {\n		_ = z // z is an alias for x - cannot reuse\n	}","ALIASGUARD","dec.sqr")
# GUARD
pos("guard-usub-swapped",X,"			if x.ucmp(y) > 0 {\n				z.usub(x, y)\n			} else {\n				z.neg = !z.neg\n				z.usub(y, x)\n			}\n		}\n		if z.form == zero && z.mode == ToNegativeInf && z.acc == Exact {\n			z.neg = true\n		}\n		return z\n	}\n\n	if x.form == inf && y.form == inf && x.neg == y.neg {","			if x.ucmp(y) > 0 {\n				z.usub(y, x)\n			} else {\n				z.neg = !z.neg\n				z.usub(x, y)\n			}\n		}\n		if z.form == zero && z.mode == ToNegativeInf && z.acc == Exact {\n			z.neg = true\n		}\n		return z\n	}\n\n	if x.form == inf && y.form == inf && x.neg == y.neg {","GUARD","Sub")
pos("guard-ucmp-dropped",X,"			if x.ucmp(y) > 0 {\n				z.usub(x, y)\n			} else {\n				z.neg = !z.neg\n				z.usub(y, x)\n			}\n		}\n		if z.form == zero && z.mode == ToNegativeInf && z.acc == Exact {\n			z.neg = true\n		}\n		return z\n	}\n\n	if x.form == inf && y.form == inf && x.neg != y.neg {","			if x.exp > y.exp {\n				z.usub(x, y)\n			} else {\n				z.neg = !z.neg\n				z.usub(y, x)\n			}\n		}\n		if z.form == zero && z.mode == ToNegativeInf && z.acc == Exact {\n			z.neg = true\n		}\n		return z\n	}\n\n	if x.form == inf && y.form == inf && x.neg != y.neg {","GUARD","Add",quick=True)
neg("neg-guard-ge",X,"			if x.ucmp(y) > 0 {\n				z.usub(x, y)\n			} else {\n				z.neg = !z.neg\n				z.usub(y, x)\n			}\n		}\n		if z.form == zero && z.mode == ToNegativeInf && z.acc == Exact {\n			z.neg = true\n		}\n		return z\n	}\n\n	if x.form == inf && y.form == inf && x.neg != y.neg {","			if x.ucmp(y) >= 0 {\n				z.usub(x, y)\n			} else {\n				z.neg = !z.neg\n				z.usub(y, x)\n			}\n		}\n		if z.form == zero && z.mode == ToNegativeInf && z.acc == Exact {\n			z.neg = true\n		}\n		return z\n	}\n\n	if x.form == inf && y.form == inf && x.neg != y.neg {",["GUARD","SIGN"],quick=True,note="equal magnitudes cancel to an exact zero whose sign usub resets")
# SIGN
pos("revert-F2-sign",X,"""	z.acc = Exact
	if z == y {
		z.neg = !z.neg
		return z
	}
	z.form = y.form
	z.neg = !y.neg
	if y.form == finite {
		z.exp = y.exp
		z.mant = z.mant.set(y.mant)
	}
	if z.prec < y.prec {
		z.round(0)
	}
	return z
}""","""	return z.Neg(y)
}""","SIGN","Sub",quick=True,note="F2")
pos("sign-after-round-in-setint64",X,"	// the sign afterwards because the sign affects rounding.\n	return z.setBits64(x < 0, uint64(u), 0)","	// the sign afterwards because the sign affects rounding.\n	z.setBits64(false, uint64(u), 0)\n	z.neg = x < 0\n	return z","SIGN","SetInt64")
pos("sign-mul-after-umul",X,"	z.neg = x.neg != y.neg\n\n	if x.form == finite && y.form == finite {\n		// x * y (common case)\n		z.umul(x, y)\n		return z\n	}","	if x.form == finite && y.form == finite {\n		// x * y (common case)\n		xn, yn := x.neg, y.neg\n		z.umul(x, y)\n		z.neg = xn != yn\n		return z\n	}\n	z.neg = x.neg != y.neg","SIGN","Mul")
# CMPSYM
pos("cmpsym-ucmp-exp-one-sided",X,"	case x.exp < y.exp:\n		return -1\n	case x.exp > y.exp:\n		return +1\n	}","	case x.exp < y.exp:\n		return -1\n	case x.exp >= y.exp+1:\n		return +1\n	}","CMPSYM","ucmp",quick=True)
pos("cmpsym-deccmp-same-direction",D,"	case x[i] < y[i]:\n		r = -1\n	case x[i] > y[i]:\n		r = 1\n	}","	case x[i] < y[i]:\n		r = -1\n	case x[i] > y[i]:\n		r = -1\n	}","CMPSYM","dec.cmp")
pos("cmpsym-ucmp-words-before-exp",X,"	switch {\n	case x.exp < y.exp:\n		return -1\n	case x.exp > y.exp:\n		return +1\n	}\n	// x.exp == y.exp\n\n	// compare mantissas\n	i := len(x.mant)","	// compare mantissas\n	i := len(x.mant)","CMPSYM","ucmp")

# NORM
pos("norm-setfloat64-final-round-removed",X,"		z.prec = prec\n	}\n	z.round(0)\n	return z\n}\n\n// SetInf","		z.prec = prec\n	}\n	return z\n}\n\n// SetInf","NORM","SetFloat64",quick=True)
pos("norm-setbits64-no-rounding",X,"	z.mant = z.mant.setUint64(x)\n	z.setExpAndRound(limitExp(exp)+int64(len(z.mant))*_DW-dnorm(z.mant), 0)\n	return z","	z.mant = z.mant.setUint64(x)\n	z.exp = int32(len(z.mant))*_DW - int32(dnorm(z.mant))\n	return z","NORM","setBits64")
pos("norm-setint-no-dnorm",X,"	z.setExpAndRound(int64(len(z.mant))*_DW-dnorm(z.mant), 0)\n	return z\n}\n\nfunc (z *Decimal) setBits64","	z.setExpAndRound(int64(len(z.mant))*_DW, 0)\n	return z\n}\n\nfunc (z *Decimal) setBits64","NORM","SetInt")
# EXP
pos("revert-F14-setbits64-unclamped",X,"	z.setExpAndRound(limitExp(exp)+int64(len(z.mant))*_DW-dnorm(z.mant), 0)","	z.setExpAndRound(exp+int64(len(z.mant))*_DW-dnorm(z.mant), 0)","EXP","setBits64",quick=True,note="F14")
pos("revert-F14-setmantexp-unclamped",X,"	z.setExpAndRound(int64(z.exp)+limitExp(int64(exp)), 0)","	z.setExpAndRound(int64(z.exp)+int64(exp), 0)","EXP","SetMantExp")
pos("exp-scan-range-check-upper-only","decimal_conv.go","	if MinExp <= exp10 && exp10 <= MaxExp {","	if exp10 <= MaxExp {","EXP","scan")
pos("exp-round-step-unguarded",X,"				if z.exp >= MaxExp {\n					// exponent overflow\n					z.form = inf\n					return\n				}\n				z.exp++","				z.exp++","EXP","round")
pos("exp-clamp-one-sided",X,"	if exp < -lim {\n		return -lim\n	}\n	return exp","	return exp","EXP","")
# OVERLAP
pos("overlap-decaddat-offset",D,"		if c := add10VV(z[i:i+n], z[i:], x); c != 0 {","		if c := add10VV(z[i:i+n], z[i+1:], x); c != 0 {","OVERLAP","decAddAt",quick=True)
pos("overlap-divbasic-in-place",D,"		q.divBasic(u, v)\n	} else {\n		q.divRecursive(u, v)","		u.divBasic(u, v)\n	} else {\n		q.divRecursive(u, v)","OVERLAP","divLarge")
# NORMARG
pos("normarg-norm-dropped",D,"			e := qhatv.cmp(uu.norm())","			e := qhatv.cmp(uu)","NORMARG","divRecursiveStep",quick=True)
# INIT
pos("init-divrecursive-no-clear",D,"	temps := make([]*dec, recDepth)\n	z.clear()\n","	temps := make([]*dec, recDepth)\n","INIT","",quick=True,note="passes all tests because fresh quotient buffers happen to be zero; reported at the caller that owns the buffer (divLarge)")
pos("init-basicsqr-no-clear",D,"	t := *tp // temporary variable to hold the products\n	t.clear()\n","	t := *tp // temporary variable to hold the products\n","INIT","decBasicSqr")
pos("init-basicmul-no-clear",D,"	z[0 : len(x)+len(y)].clear() // initialize z\n","","INIT","")
neg("neg-init-mul-partial-clear",D,"	z = z[0 : m+n]  // z has final length but may be incomplete\n	z[2*k:].clear() // upper portion of z is garbage (and 2*k <= m+n since k <= n <= m)","	z = z[0 : m+n]  // z has final length but may be incomplete",["INIT"],note="KNOWN MISS kept as a negative control: ranges are not compared, so removing the partial clear in mul is out of reach of INIT (DESIGN E3-INIT)")
json.dump(C,open("order.json","w"),indent=1,ensure_ascii=False)
print(len(C),"controls")
