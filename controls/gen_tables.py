#!/usr/bin/env python3
# Generates tables.json: controls for the E4 table rules. Run by hand after editing; the JSON is what the checker reads.
import json
C=[]
def pos(name, file, old, new, rule, construct="", quick=False, note="", config=""):
    d={"name":name,"kind":"positive","edits":[{"file":file,"old":old,"new":new}],"expect":[{"rule":rule,"construct":construct}] if construct else [{"rule":rule}]}
    if quick: d["quick"]=True
    if note: d["note"]=note
    if config: d["config"]=config
    C.append(d)
def neg(name, file, old, new, rules, quick=False, note=""):
    d={"name":name,"kind":"negative","edits":[{"file":file,"old":old,"new":new}],"rules":rules}
    if quick: d["quick"]=True
    if note: d["note"]=note
    C.append(d)

# --- the repaired defects, re-introduced
pos("revert-F2-sub-via-neg","decimal.go","""	z.acc = Exact
	if z == y {
		z.neg = !z.neg
		return z
	}
	z.form = y.form
	z.neg = !y.neg
	if y.form == finite {
		z.exp = y.exp
		z.mant = z.mant.set(y.mant)
	}
	if z.prec < y.prec {
		z.round(0)
	}
	return z
}""","""	return z.Neg(y)
}""","T-ARITH","Sub(",quick=True,note="F2: rounds y, then flips the sign")
pos("revert-F3-fma-alias-guard","decimal.go","if z == u || alias(z.mant, u.mant) {","if alias(z.mant, u.mant) {","T-ARITH-ALIAS","z=u",quick=True,note="F3")
pos("revert-F4-fma-zero-u","decimal.go","""		uneg := u.neg
		z.Mul(x, y)
		if z.form == zero && z.acc == Exact && z.neg != uneg {
			// exact zero sum of zeros with opposite signs (IEEE 754-2008, 6.3)
			z.neg = z.mode == ToNegativeInf
		}
		return z""","		return z.Mul(x, y)","T-ARITH","FMA(",note="F4")
pos("revert-F16-fma-inf-u","decimal.go","""		if u.form == inf {
			// the exact product is finite even if its exponent is out of
			// range: x*y + ±Inf == ±Inf
			return z.Set(u)
		}
""","","T-ARITH","FMA(",note="F16")
pos("revert-F5-setfloat-isinf","decimal.go","	z.neg = x.Signbit()\n	if x.IsInf() {","	z.neg = x.Signbit()\n	if z.IsInf() {","T-CONV","SetFloat(",quick=True,note="F5")
pos("revert-F7-sqrt-mode","decimal_sqrt.go","	prec, mode := z.prec, z.mode\n	b := x.MantExp(z)\n	z.prec, z.mode = prec, mode","	prec := z.prec\n	b := x.MantExp(z)\n	z.prec = prec","T-UNARY","Sqrt(",quick=True,note="F7")
pos("revert-F8-setint-zero-prec","decimal.go","""		z.form = zero
		if z.prec == 0 {
			z.prec = DefaultDecimalPrec
		}
		return z""","""		z.form = zero
		z.prec = DefaultDecimalPrec
		return z""","T-UNARY","SetInt(",note="F8")

# --- T-ARITH
pos("add-yneg-dropped","decimal.go","		z.neg = x.neg\n		if x.neg == yneg {\n			// x + y == x + y","		z.neg = x.neg\n		_ = yneg\n		if x.neg == y.neg {\n			// x + y == x + y","T-ARITH-ALIAS","Add(",note="y.neg read after z.neg was written: wrong when z is y")
pos("add-usub-operands-swapped","decimal.go","			if x.ucmp(y) > 0 {\n				z.usub(x, y)\n			} else {\n				z.neg = !z.neg\n				z.usub(y, x)\n			}\n		}\n		if z.form == zero && z.mode == ToNegativeInf && z.acc == Exact {\n			z.neg = true\n		}\n		return z\n	}\n\n	if x.form == inf && y.form == inf && x.neg != y.neg {","			if x.ucmp(y) > 0 {\n				z.usub(x, y)\n			} else {\n				z.usub(y, x)\n			}\n		}\n		if z.form == zero && z.mode == ToNegativeInf && z.acc == Exact {\n			z.neg = true\n		}\n		return z\n	}\n\n	if x.form == inf && y.form == inf && x.neg != y.neg {","T-ARITH","Add(",note="sign not flipped when |y| > |x|")
pos("add-zero-fixup-removed","decimal.go","		if z.form == zero && z.mode == ToNegativeInf && z.acc == Exact {\n			z.neg = true\n		}\n		return z\n	}\n\n	if x.form == inf && y.form == inf && x.neg != y.neg {","		return z\n	}\n\n	if x.form == inf && y.form == inf && x.neg != y.neg {","T-ARITH","Add(")
pos("add-inf-inf-no-nan","decimal.go","	if x.form == inf && y.form == inf && x.neg != y.neg {\n		// +Inf + -Inf","	if x.form == inf && y.form == inf && x.neg != y.neg && z.prec == 0 {\n		// +Inf + -Inf","T-ARITH","Add(")
pos("add-prec-only-x","decimal.go","func (z *Decimal) Add(x, y *Decimal) *Decimal {\n	if debugDecimal {\n		x.validate()\n		y.validate()\n	}\n\n	if z.prec == 0 {\n		z.prec = umax32(x.prec, y.prec)","func (z *Decimal) Add(x, y *Decimal) *Decimal {\n	if debugDecimal {\n		x.validate()\n		y.validate()\n	}\n\n	if z.prec == 0 {\n		z.prec = x.prec","T-ARITH","Add(")
pos("usub-cancel-no-acc","decimal.go","	if len(z.mant) == 0 {\n		z.acc = Exact\n		z.form = zero\n		z.neg = false\n		return\n	}","	if len(z.mant) == 0 {\n		z.form = zero\n		z.neg = false\n		return\n	}","T-ARITH","")
pos("mul-special-no-acc","decimal.go","		z.umul(x, y)\n		return z\n	}\n\n	z.acc = Exact\n	if x.form == zero && y.form == inf || x.form == inf && y.form == zero {","		z.umul(x, y)\n		return z\n	}\n\n	if x.form == zero && y.form == inf || x.form == inf && y.form == zero {","T-ARITH","Mul(",quick=True)
pos("mul-sign-or","decimal.go","func (z *Decimal) Mul(x, y *Decimal) *Decimal {\n	if debugDecimal {\n		x.validate()\n		y.validate()\n	}\n\n	if z.prec == 0 {\n		z.prec = umax32(x.prec, y.prec)\n	}\n\n	z.neg = x.neg != y.neg","func (z *Decimal) Mul(x, y *Decimal) *Decimal {\n	if debugDecimal {\n		x.validate()\n		y.validate()\n	}\n\n	if z.prec == 0 {\n		z.prec = umax32(x.prec, y.prec)\n	}\n\n	z.neg = x.neg || y.neg","T-ARITH","Mul(")
pos("quo-zero-div-gives-zero","decimal.go","	// x / ±0\n	// ±Inf / y\n	z.form = inf","	// x / ±0\n	// ±Inf / y\n	z.form = zero","T-ARITH","Quo(")
pos("quo-operands-swapped","decimal.go","		z.uquo(x, y)","		z.uquo(y, x)","T-ARITH","Quo(")
pos("fma-product-sign-x-only","decimal.go","	z0.neg = x.neg != y.neg","	z0.neg = x.neg","T-ARITH","FMA(")
pos("fma-half-maxprec","decimal.go","		z0.prec = MaxPrec\n","		z0.prec = MaxPrec / 2\n","T-ARITH","FMA(")
pos("fma-prec-not-restored","decimal.go","		// restore precision without rounding\n		z0.prec = prec\n","		_ = prec\n","T-ARITH","FMA(")
pos("fma-prec-without-u","decimal.go","		z.prec = umax32(umax32(x.prec, y.prec), u.prec)","		z.prec = umax32(x.prec, y.prec)","T-ARITH","FMA(")
neg("neg-add-ucmp-ge","decimal.go","			if x.ucmp(y) > 0 {\n				z.usub(x, y)\n			} else {\n				z.neg = !z.neg\n				z.usub(y, x)\n			}\n		}\n		if z.form == zero && z.mode == ToNegativeInf && z.acc == Exact {\n			z.neg = true\n		}\n		return z\n	}\n\n	if x.form == inf && y.form == inf && x.neg != y.neg {","			if x.ucmp(y) >= 0 {\n				z.usub(x, y)\n			} else {\n				z.neg = !z.neg\n				z.usub(y, x)\n			}\n		}\n		if z.form == zero && z.mode == ToNegativeInf && z.acc == Exact {\n			z.neg = true\n		}\n		return z\n	}\n\n	if x.form == inf && y.form == inf && x.neg != y.neg {",["T-ARITH","T-ARITH-ALIAS"],quick=True,note="equal magnitudes cancel to an exact zero whose sign usub resets: behaviour-preserving")
neg("neg-fma-scratch-mode","decimal.go","		z0.mode = z.mode\n","",["T-ARITH","T-ARITH-ALIAS"],note="the scratch object's mode is never consulted (product computed at MaxPrec)")

# --- T-UNARY
pos("setinf-no-acc","decimal.go","func (z *Decimal) SetInf(signbit bool) *Decimal {\n	z.acc = Exact\n","func (z *Decimal) SetInf(signbit bool) *Decimal {\n","T-UNARY","SetInf(")
pos("set-no-acc","decimal.go","	z.acc = Exact\n	if z != x {\n		z.form = x.form","	if z != x {\n		z.form = x.form","T-UNARY","Set(")
pos("set-overwrites-larger-prec","decimal.go","		if z.prec == 0 {\n			z.prec = x.prec\n		} else if z.prec < x.prec {\n			z.round(0)\n		}","		if z.prec == 0 || z.prec > x.prec {\n			z.prec = x.prec\n		} else if z.prec < x.prec {\n			z.round(0)\n		}","T-UNARY","Set(")
pos("set-rounds-late","decimal.go","		} else if z.prec < x.prec {\n			z.round(0)\n		}\n	}\n	return z\n}\n\n// SetFloat sets","		} else if z.prec < x.prec-1 {\n			z.round(0)\n		}\n	}\n	return z\n}\n\n// SetFloat sets","T-UNARY","Set(",note="no rounding when the receiver has exactly one digit less")
pos("sqrt-neg-zero-panics","decimal_sqrt.go","	if x.Sign() == -1 {","	if x.neg {","T-UNARY","Sqrt(-0)")
pos("sqrt-prec-not-restored","decimal_sqrt.go","	z.prec, z.mode = prec, mode","	_, z.mode = prec, mode","T-UNARY","Sqrt(")
pos("minprec-inf","decimal.go","func (x *Decimal) MinPrec() uint {\n	if x.form != finite {","func (x *Decimal) MinPrec() uint {\n	if x.form == zero {","T-UNARY","MinPrec(")
pos("mantexp-stale-exp-for-inf","decimal.go","	if x.form == finite {\n		exp = int(x.exp)\n	}\n	if mant != nil {","	if x.form != zero {\n		exp = int(x.exp)\n	}\n	if mant != nil {","T-UNARY","MantExp(")
pos("setmode-no-acc","decimal.go","	z.mode = mode\n	z.acc = Exact\n	return z","	z.mode = mode\n	return z","T-UNARY","SetMode(")
pos("setprec-zero-acc","decimal.go","			// truncate z to 0\n			z.acc = makeAcc(z.neg)","			// truncate z to 0\n			z.acc = makeAcc(!z.neg)","T-UNARY","SetPrec(0)")
pos("newdecimal-zero-negative","decimal.go","	z.acc = Exact\n	z.neg = neg\n	if x == 0 {\n		z.form = zero\n		return z","	z.acc = Exact\n	z.neg = !neg\n	if x == 0 {\n		z.form = zero\n		return z","T-UNARY","")
pos("setint64-abs-missing","decimal.go","	// the sign afterwards because the sign affects rounding.\n	return z.setBits64(x < 0, uint64(u), 0)","	// the sign afterwards because the sign affects rounding.\n	return z.setBits64(false, uint64(u), 0)","T-UNARY","SetInt64(")
neg("neg-neg-rewrite","decimal.go","func (z *Decimal) Neg(x *Decimal) *Decimal {\n	z.Set(x)\n	z.neg = !z.neg","func (z *Decimal) Neg(x *Decimal) *Decimal {\n	xneg := x.neg\n	z.Set(x)\n	z.neg = !xneg",["T-UNARY"],quick=True,note="behaviour-preserving rewrite of Neg")

# --- T-CMP
pos("cmp-ucmp-order-negative","decimal.go","	case -1:\n		return y.ucmp(x)","	case -1:\n		return x.ucmp(y)","T-CMP","Cmp(-F,-F)",quick=True)
pos("iszero-inverted","decimal.go","	return x.form == 0\n}","	return x.form != 0\n}","T-CMP","IsZero(")
pos("ord-inf-equals-finite","decimal.go","	case inf:\n		m = 2\n	}\n	if x.neg {","	case inf:\n		m = 1\n	}\n	if x.neg {","T-CMP","Cmp(")
pos("sign-of-negzero","decimal.go","	if x.form == zero {\n		return 0\n	}\n	if x.neg {\n		return -1\n	}\n	return 1","	if x.neg {\n		return -1\n	}\n	if x.form == zero {\n		return 0\n	}\n	return 1","T-CMP","Sign(-0)")

# --- T-CONV
pos("int64-inf-saturation-swapped","decimal.go","	case inf:\n		if x.neg {\n			return math.MinInt64, Above\n		}\n		return math.MaxInt64, Below\n	}","	case inf:\n		if !x.neg {\n			return math.MinInt64, Above\n		}\n		return math.MaxInt64, Below\n	}","T-CONV","Int64(",quick=True)
pos("uint64-negative-acc","decimal.go","		if x.neg {\n			return 0, Above\n		}\n		// 0 < x < +Inf","		if x.neg {\n			return 0, Below\n		}\n		// 0 < x < +Inf","T-CONV","Uint64(")
pos("int-inf-acc","decimal.go","	case inf:\n		return nil, makeAcc(x.neg)\n	}\n\n	panic(\"unreachable\")\n}\n\n// intMant","	case inf:\n		return nil, makeAcc(!x.neg)\n	}\n\n	panic(\"unreachable\")\n}\n\n// intMant","T-CONV","Int(")
pos("setfloat64-nan-check-removed","decimal.go","	if math.IsNaN(x) {\n		panic(ErrNaN{\"Decimal.SetFloat64(NaN)\"})\n	}\n","","T-CONV","SetFloat64(NaN)")
pos("setfloat64-sign-after","decimal.go","	z.acc = Exact\n	z.neg = math.Signbit(x) // handle -0, -Inf correctly\n	if x == 0 {","	z.acc = Exact\n	z.neg = x < 0\n	if x == 0 {","T-CONV","SetFloat64(",note="loses the sign of -0: x<0 is not a modelled query, so the sign becomes unknown")
json.dump(C,open("tables.json","w"),indent=1,ensure_ascii=False)
print(len(C),"controls")
