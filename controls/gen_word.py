#!/usr/bin/env python3
import json
C=[]
def pos(name, file, old, new, rule, construct="", quick=False, note="", config=""):
    d={"name":name,"kind":"positive","edits":[{"file":file,"old":old,"new":new}],"expect":[{"rule":rule,"construct":construct}] if construct else [{"rule":rule}]}
    if quick: d["quick"]=True
    if note: d["note"]=note
    if config: d["config"]=config
    C.append(d)
def neg(name, file, old, new, rules, quick=False, note=""):
    d={"name":name,"kind":"negative","edits":[{"file":file,"old":old,"new":new}],"rules":rules}
    if quick: d["quick"]=True
    if note: d["note"]=note
    C.append(d)
pos("revert-F1-divbasic-raw-add","dec.go","				add10VW(u[j+n:j+n+1], u[j+n:], c)","				u[j+n] += c","WORD","dec.divBasic",quick=True,note="F1: the add-back branch is reached with probability ~2/10^19 by random operands")
pos("add-top-word-raw","dec.go","	z[m] = c\n\n	return z.norm()","	z[m] = c + c\n\n	return z.norm()","WORD","dec.add")
pos("round-allnines-stores-base","decimal.go","				z.mant[n-1] = _DB / 10","				z.mant[n-1] = _DB","WORD","(*Decimal).round")
pos("setuint64-unguarded-setword","dec.go","	if w := Word(x); uint64(w) == x && w < _DB {","	if w := Word(x); uint64(w) == x {","WORD","dec.setWord")
pos("divbasic-qhat-raw","dec.go","		q[j] = qhat\n","		q[j] = qhat | 1\n","WORD","dec.divBasic")
pos("mulAdd-raw-carry-in","dec.go","	mulAdd10VWW(v, vIn, d, 0)\n","	mulAdd10VWW(v, vIn, d, d*d)\n","WORD","dec.divLarge")
pos("setbytes-new-consumer","decimal.go","// IsInf reports whether x is +Inf or -Inf.\nfunc (x *Decimal) IsInf() bool {","func (z *Decimal) setRaw(b []byte) { z.mant = z.mant.setBytes(b) }\n\n// IsInf reports whether x is +Inf or -Inf.\nfunc (x *Decimal) IsInf() bool {","WORD","dec.setBytes/consumers")
neg("neg-word-sub-rewrite","dec.go","		q[j] = qhat\n","		q[j] = qhat - 0\n",["WORD"],quick=True,note="no-op arithmetic that keeps the bound")
json.dump(C,open("word.json","w"),indent=1,ensure_ascii=False)
print(len(C),"controls")
