#!/usr/bin/env python3
# Controls from the one-line mutant survey (DESIGN §9f): every test-surviving, behaviour-changing
# one-line mutant that the table/automaton rules of round 7 report becomes a positive control
# expecting that rule. Input: seeded/mutants.tsv (file:line, function, kind, before ==> after,
# rules that report it), written from the survey; the line is located by its text.
import json, os, re, sys
REPO = '/repo'
NEWRULES = ['FMTSHAPE', 'SCANSHAPE', 'T-UNARY', 'T-CONV', 'OUTPARAM', 'QHAT', 'GOB', 'DECNORM', 'PRECWRAP']
C = []
seen = set()
for ln in open('/verif/seeded/mutants.tsv'):
    p = ln.rstrip('\n').split('\t')
    if len(p) < 5 or p[0].startswith('#'):
        continue
    loc, fn, kind, chg, rules = p[:5]
    file, line = loc.rsplit(':', 1)
    before, after = chg.split(' ==> ', 1)
    rule = next((r for r in NEWRULES if r in rules.split()), None)
    if rule is None:
        continue
    # the survey applied a mutation to the first line with that text; where that was another
    # function than the one named (the `if z.prec == 0 {` of Add), the rules listed are that one's
    if (fn, before.strip()) == ('SetFloat', 'if z.prec == 0 {'):
        rule = 'T-CONV'
    src = open(os.path.join(REPO, file)).read().split('\n')
    cands = [i for i, l in enumerate(src) if l.strip() == before.strip()]
    if not cands:
        continue
    # the line numbers of the survey are those of the tree it was run on; fix: commits since then
    # have moved lines, so the mutated line is looked for inside the function the survey names
    lo_f = hi_f = None
    pat = re.compile(r'^func (\([^)]*\) )?%s\(' % re.escape(fn.split('.')[-1]))
    for k, l in enumerate(src):
        if pat.match(l):
            lo_f = k
            hi_f = next((j for j in range(k + 1, len(src)) if src[j].startswith('}')), len(src) - 1)
            inside = [c for c in cands if lo_f <= c <= hi_f]
            if inside:
                cands = inside
                break
    i = min(cands, key=lambda k: abs(k - (int(line) - 1)))
    indent = src[i][:len(src[i]) - len(src[i].lstrip())]
    newline = (indent + after.strip()) if after.strip() else ''
    # grow the context upwards until the old text is unique in the file
    lo = i
    text = '\n'.join(src)
    while True:
        old = '\n'.join(src[lo:i + 1]) + '\n'
        if text.count(old) == 1 or lo == 0:
            break
        lo -= 1
    new = '\n'.join(src[lo:i] + [newline]) + '\n'
    name = 'mut-%s-%s-%d' % (fn, kind.replace(':', '').replace(' ', '').replace('+', 'p').replace('<', 'lt').replace('>', 'gt').replace('=', 'eq').replace('!', 'n').replace('&', 'and'), i + 1)
    if name in seen:
        continue
    seen.add(name)
    C.append({"name": name, "kind": "positive", "edits": [{"file": file, "old": old, "new": new}], "expect": [{"rule": rule}],
              "note": "one-line mutant that passes the repository's tests: %s" % chg.strip()})
seen_rule = set()
for c in C:  # one per rule is flagged quick (the quick tier runs one positive control per rule family)
    r = c['expect'][0]['rule']
    if r not in seen_rule:
        seen_rule.add(r)
        c['quick'] = True
json.dump(C, open('/verif/controls/mutants.json', 'w'), indent=1, ensure_ascii=False)
print(len(C), 'controls')
