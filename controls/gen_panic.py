#!/usr/bin/env python3
import json
C=[]
def pos(name, file, old, new, rule, construct="", quick=False, note=""):
    d={"name":name,"kind":"positive","edits":[{"file":file,"old":old,"new":new}],"expect":[{"rule":rule,"construct":construct}] if construct else [{"rule":rule}]}
    if quick: d["quick"]=True
    if note: d["note"]=note
    C.append(d)
def neg(name, file, old, new, rules, quick=False, note=""):
    d={"name":name,"kind":"negative","edits":[{"file":file,"old":old,"new":new}],"rules":rules}
    if quick: d["quick"]=True
    if note: d["note"]=note
    C.append(d)
X="decimal.go"
pos("panic-new-site-in-uadd",X,"	// len(z.mant) > 0\n\n	z.setExpAndRound(ex+int64(len(z.mant))*_DW-dnorm(z.mant), 0)\n}\n\n// z = x - y for |x| > |y|","	if len(z.mant) > 1<<20 {\n		panic(\"mantissa too long\")\n	}\n\n	z.setExpAndRound(ex+int64(len(z.mant))*_DW-dnorm(z.mant), 0)\n}\n\n// z = x - y for |x| > |y|","PANIC","uadd",quick=True)
pos("panic-errnan-in-set",X,"	z.acc = Exact\n	if z != x {\n		z.form = x.form","	if x.form == inf && z.prec == 1 {\n		panic(ErrNaN{\"cannot hold an infinity\"})\n	}\n	z.acc = Exact\n	if z != x {\n		z.form = x.form","PANIC","Set")
pos("panic-switch-no-longer-exhaustive",X,"	case zero:\n		return 0, Exact\n\n	case inf:\n		if x.neg {\n			return math.MinInt64, Above\n		}\n		return math.MaxInt64, Below\n	}","	case zero:\n		return 0, Exact\n	}","PANIC","Int64")
# (removed) panic-extra-underflow-site: one more panic with an already tabled message in the same function is no longer
# counted — the tabled argument covers the function/message pair, and a branch split in two repeats its panic (benign b2-R4-ref09)
neg("neg-panic-defensive-unreachable",X,"	case inf:\n		m = 2\n	}\n	if x.neg {","	case inf:\n		m = 2\n	default:\n		panic(\"unreachable\")\n	}\n	if x.neg {",["PANIC"],quick=True,note="a defensive panic behind an exhaustive switch satisfies the discharge rule without a table edit")
pos("enum-acc-out-of-range",X,"func (z *Decimal) SetInf(signbit bool) *Decimal {\n	z.acc = Exact\n","func (z *Decimal) SetInf(signbit bool) *Decimal {\n	z.acc = 2\n","ENUM","SetInf",quick=True)
pos("enum-mode-from-int",X,"func (z *Decimal) SetMode(mode RoundingMode) *Decimal {\n	z.mode = mode\n","func (z *Decimal) SetMode(mode RoundingMode) *Decimal {\n	z.mode = mode + 1\n","ENUM","SetMode")
pos("enum-gob-unchecked","decimal_marsh.go","	if mode > ToPositiveInf || acc > Above || frm > inf {","	if acc > Above || frm > inf {","ENUM","GobDecode/mode")
json.dump(C,open("panic.json","w"),indent=1,ensure_ascii=False)
print(len(C),"controls")
