#!/usr/bin/env python3
import json
C=[]
def pos(name, file, old, new, rule, construct="", quick=False, note="", config=""):
    d={"name":name,"kind":"positive","edits":[{"file":file,"old":old,"new":new}],"expect":[{"rule":rule,"construct":construct}] if construct else [{"rule":rule}]}
    if quick: d["quick"]=True
    if note: d["note"]=note
    if config: d["config"]=config
    C.append(d)
def neg(name, file, old, new, rules, quick=False, note=""):
    d={"name":name,"kind":"negative","edits":[{"file":file,"old":old,"new":new}],"rules":rules}
    if quick: d["quick"]=True
    if note: d["note"]=note
    C.append(d)

pos("set-shares-mantissa","decimal.go","			z.mant = z.mant.set(x.mant)\n		}\n		if z.prec == 0 {","			z.mant = x.mant\n		}\n		if z.prec == 0 {","FX-OWN","(*Decimal).Set",quick=True,note="two Decimals share one array; passes all tests")
pos("sqrt-mutates-onehalf","decimal_sqrt.go","		t.Mul(u, oneHalf) // t = ½t(3 - x.t²)","		oneHalf.Mul(u, oneHalf)\n		t.Set(oneHalf)","FX-GLOBAL","var oneHalf",quick=True)
pos("add-writes-operand-acc","decimal.go","		yneg := y.neg\n\n		z.neg = x.neg\n		if x.neg == yneg {\n			// x + y == x + y","		yneg := y.neg\n		y.acc = Exact\n\n		z.neg = x.neg\n		if x.neg == yneg {\n			// x + y == x + y","FX-IMMUT","(*Decimal).Add/y",quick=True)
pos("divlarge-normalises-divisor-in-place","dec.go","	mulAdd10VWW(v, vIn, d, 0)\n","	mulAdd10VWW(vIn, vIn, d, 0)\n	copy(v, vIn)\n","FX-IMMUT","(*Decimal).Quo/y",note="the divisor may be in use by another goroutine")
pos("sign-writes-acc","decimal.go","	if x.form == zero {\n		return 0\n	}\n	if x.neg {\n		return -1\n	}\n	return 1","	x.acc = Exact\n	if x.form == zero {\n		return 0\n	}\n	if x.neg {\n		return -1\n	}\n	return 1","FX-DEP","Sign",quick=True)
pos("ucmp-depends-on-prec","decimal.go","	switch {\n	case x.exp < y.exp:\n		return -1\n	case x.exp > y.exp:\n		return +1\n	}\n	// x.exp == y.exp","	switch {\n	case x.exp < y.exp || x.prec == 1 && y.prec == 2:\n		return -1\n	case x.exp > y.exp:\n		return +1\n	}\n	// x.exp == y.exp","FX-DEP","ucmp")
pos("exported-mantissa-getter","decimal.go","// IsInf reports whether x is +Inf or -Inf.\nfunc (x *Decimal) IsInf() bool {","// Mant returns the mantissa.\nfunc (x *Decimal) Mant() []Word { return x.mant }\n\n// IsInf reports whether x is +Inf or -Inf.\nfunc (x *Decimal) IsInf() bool {","FX-OWN","(*Decimal).Mant")
pos("threshold-written-at-runtime","dec.go","	// determine if z can be reused\n	if alias(z, x) || alias(z, y) {","	decKaratsubaThreshold = 40\n	// determine if z can be reused\n	if alias(z, x) || alias(z, y) {","FX-GLOBAL","var decKaratsubaThreshold")
pos("uadd-stores-operand-mantissa","decimal.go","	default:\n		// ex == ey, no shift needed\n		z.mant = z.mant.add(x.mant, y.mant)\n	case ex > ey:\n		if same(z.mant, y.mant) {\n			t := dec(nil).shl(x.mant, uint(ex-ey))\n			z.mant = z.mant.add(t, y.mant)","	default:\n		// ex == ey, no shift needed\n		z.mant = x.mant.add(x.mant, y.mant)\n	case ex > ey:\n		if same(z.mant, y.mant) {\n			t := dec(nil).shl(x.mant, uint(ex-ey))\n			z.mant = z.mant.add(t, y.mant)","FX-OWN","(*Decimal).uadd",note="x's buffer used as destination: x is overwritten and shared")
json.dump(C,open("fx.json","w"),indent=1,ensure_ascii=False)
print(len(C),"controls")
