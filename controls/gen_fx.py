#!/usr/bin/env python3
import json
C=[]
def pos(name, file, old, new, rule, construct="", quick=False, note="", config=""):
    d={"name":name,"kind":"positive","edits":[{"file":file,"old":old,"new":new}],"expect":[{"rule":rule,"construct":construct}] if construct else [{"rule":rule}]}
    if quick: d["quick"]=True
    if note: d["note"]=note
    if config: d["config"]=config
    C.append(d)
def neg(name, file, old, new, rules, quick=False, note=""):
    d={"name":name,"kind":"negative","edits":[{"file":file,"old":old,"new":new}],"rules":rules}
    if quick: d["quick"]=True
    if note: d["note"]=note
    C.append(d)

pos("set-shares-mantissa","decimal.go","			z.mant = z.mant.set(x.mant)\n		}\n		if z.prec == 0 {","			z.mant = x.mant\n		}\n		if z.prec == 0 {","FX-OWN","(*Decimal).Set",quick=True,note="two Decimals share one array; passes all tests")
pos("sqrt-mutates-onehalf","decimal_sqrt.go","		t.Mul(u, oneHalf) // t = ½t(3 - x.t²)","		oneHalf.Mul(u, oneHalf)\n		t.Set(oneHalf)","FX-GLOBAL","var oneHalf",quick=True)
pos("add-writes-operand-acc","decimal.go","		yneg := y.neg\n\n		z.neg = x.neg\n		if x.neg == yneg {\n			// x + y == x + y","		yneg := y.neg\n		y.acc = Exact\n\n		z.neg = x.neg\n		if x.neg == yneg {\n			// x + y == x + y","FX-IMMUT","(*Decimal).Add/y",quick=True)
pos("divlarge-normalises-divisor-in-place","dec.go","	mulAdd10VWW(v, vIn, d, 0)\n","	mulAdd10VWW(vIn, vIn, d, 0)\n	copy(v, vIn)\n","FX-IMMUT","(*Decimal).Quo/y",note="the divisor may be in use by another goroutine")
pos("sign-writes-acc","decimal.go","	if x.form == zero {\n		return 0\n	}\n	if x.neg {\n		return -1\n	}\n	return 1","	x.acc = Exact\n	if x.form == zero {\n		return 0\n	}\n	if x.neg {\n		return -1\n	}\n	return 1","FX-DEP","Sign",quick=True)
pos("ucmp-depends-on-prec","decimal.go","	switch {\n	case x.exp < y.exp:\n		return -1\n	case x.exp > y.exp:\n		return +1\n	}\n	// x.exp == y.exp","	switch {\n	case x.exp < y.exp || x.prec == 1 && y.prec == 2:\n		return -1\n	case x.exp > y.exp:\n		return +1\n	}\n	// x.exp == y.exp","FX-DEP","ucmp")
pos("exported-mantissa-getter","decimal.go","// IsInf reports whether x is +Inf or -Inf.\nfunc (x *Decimal) IsInf() bool {","// Mant returns the mantissa.\nfunc (x *Decimal) Mant() []Word { return x.mant }\n\n// IsInf reports whether x is +Inf or -Inf.\nfunc (x *Decimal) IsInf() bool {","FX-OWN","(*Decimal).Mant")
pos("threshold-written-at-runtime","dec.go","	// determine if z can be reused\n	if alias(z, x) || alias(z, y) {","	decKaratsubaThreshold = 40\n	// determine if z can be reused\n	if alias(z, x) || alias(z, y) {","FX-GLOBAL","var decKaratsubaThreshold")
pos("uadd-stores-operand-mantissa","decimal.go","	default:\n		// ex == ey, no shift needed\n		z.mant = z.mant.add(x.mant, y.mant)\n	case ex > ey:\n		if same(z.mant, y.mant) {\n			t := dec(nil).shl(x.mant, uint(ex-ey))\n			z.mant = z.mant.add(t, y.mant)","	default:\n		// ex == ey, no shift needed\n		z.mant = x.mant.add(x.mant, y.mant)\n	case ex > ey:\n		if same(z.mant, y.mant) {\n			t := dec(nil).shl(x.mant, uint(ex-ey))\n			z.mant = z.mant.add(t, y.mant)","FX-OWN","(*Decimal).uadd",note="x's buffer used as destination: x is overwritten and shared")

# --- FX-STICKY / PREC0
pos("revert-F7-sqrt-mode-sticky","decimal_sqrt.go","	prec, mode := z.prec, z.mode\n	b := x.MantExp(z)\n	z.prec, z.mode = prec, mode","	prec := z.prec\n	b := x.MantExp(z)\n	z.prec = prec","FX-STICKY","(*Decimal).Sqrt/z.mode",quick=True,note="F7")
pos("revert-F8-setint-sticky","decimal.go","		z.form = zero\n		if z.prec == 0 {\n			z.prec = DefaultDecimalPrec\n		}\n		return z","		z.form = zero\n		z.prec = DefaultDecimalPrec\n		return z","FX-STICKY","(*Decimal).SetInt/z.prec",note="F8")
pos("revert-F6-setbitsexp-prec0","decimal.go","	if z.prec == 0 {\n		// as for SetInt: enough precision for the whole mantissa\n		digits := uint64(len(z.mant)) * _DW\n		if digits > MaxPrec {\n			digits = MaxPrec\n		}\n		z.prec = umax32(uint32(digits), DefaultDecimalPrec)\n	}\n","","PREC0","(*Decimal).SetBitsExp",quick=True,note="F6")
pos("sqrt-prec-not-restored-sticky","decimal_sqrt.go","	z.prec, z.mode = prec, mode","	_, z.mode = prec, mode","FX-STICKY","(*Decimal).Sqrt/z.prec")
pos("fma-prec-not-restored-sticky","decimal.go","		// restore precision without rounding\n		z0.prec = prec\n","		_ = prec\n","FX-STICKY","(*Decimal).FMA/z.prec")
pos("setfloat-prec-not-restored","decimal.go","			z = z.Mul(z, t.pow2(uint64(exp2)))\n		}\n		z.prec = prec\n	}\n	z.round(0)\n	return z\n}\n\n// SetFloat64","			z = z.Mul(z, t.pow2(uint64(exp2)))\n		}\n		_ = prec\n	}\n	z.round(0)\n	return z\n}\n\n// SetFloat64","FX-STICKY","(*Decimal).SetFloat/z.prec")
pos("mul-without-prologue","decimal.go","	if z.prec == 0 {\n		z.prec = umax32(x.prec, y.prec)\n	}\n\n	z.neg = x.neg != y.neg\n\n	if x.form == finite && y.form == finite {\n		// x * y (common case)\n		z.umul(x, y)","	z.neg = x.neg != y.neg\n\n	if x.form == finite && y.form == finite {\n		// x * y (common case)\n		z.umul(x, y)","PREC0","(*Decimal).Mul")
pos("add-copies-operand-mode","decimal.go","		yneg := y.neg\n\n		z.neg = x.neg\n		if x.neg == yneg {\n			// x + y == x + y","		yneg := y.neg\n		z.mode = x.mode\n\n		z.neg = x.neg\n		if x.neg == yneg {\n			// x + y == x + y","FX-STICKY","(*Decimal).Add/z.mode")
pos("set-always-takes-operand-prec","decimal.go","		if z.prec == 0 {\n			z.prec = x.prec\n		} else if z.prec < x.prec {\n			z.round(0)\n		}","		if z.prec != x.prec {\n			z.prec = x.prec\n		}","FX-STICKY","(*Decimal).Set/z.prec")
pos("setbits64-zero-branch-before-prologue","decimal.go","func (z *Decimal) setBits64(neg bool, x uint64, exp int64) *Decimal {\n	if z.prec == 0 {\n		z.prec = DefaultDecimalPrec\n	}\n	z.acc = Exact\n	z.neg = neg\n	if x == 0 {\n		z.form = zero\n		return z\n	}","func (z *Decimal) setBits64(neg bool, x uint64, exp int64) *Decimal {\n	z.acc = Exact\n	z.neg = neg\n	if x == 0 {\n		z.form = zero\n		return z\n	}\n	if z.prec == 0 {\n		z.prec = DefaultDecimalPrec\n	}","FX-STICKY(d)","setBits64",note="a zero argument would leave precision 0")
neg("neg-sticky-neg-rewrite","decimal.go","func (z *Decimal) Neg(x *Decimal) *Decimal {\n	z.Set(x)\n	z.neg = !z.neg","func (z *Decimal) Neg(x *Decimal) *Decimal {\n	xneg := x.neg\n	z.Set(x)\n	z.neg = !xneg",["FX-STICKY","PREC0","FX-IMMUT","FX-OWN"],quick=True)
neg("neg-sticky-fma-scratch-mode","decimal.go","		z0.mode = z.mode\n","",["FX-STICKY","PREC0"],quick=True)

# --- FX-RBW / FX-ACC / FX-RAW
pos("revert-F5-setfloat-rbw","decimal.go","	z.neg = x.Signbit()\n	if x.IsInf() {","	z.neg = x.Signbit()\n	if z.IsInf() {","FX-RBW","(*Decimal).SetFloat",quick=True,note="F5")
pos("setinf-reads-old-sign","decimal.go","	z.acc = Exact\n	z.form = inf\n	z.neg = signbit\n	return z","	z.acc = Exact\n	z.form = inf\n	z.neg = signbit != z.neg\n	return z","FX-RBW","(*Decimal).SetInf")
pos("setbits64-reads-old-form","decimal.go","	if x == 0 {\n		z.form = zero\n		return z\n	}\n	// x != 0\n	z.form = finite\n	z.mant = z.mant.setUint64(x)","	if x == 0 && z.form != inf {\n		z.form = zero\n		return z\n	}\n	// x != 0\n	z.form = finite\n	z.mant = z.mant.setUint64(x)","FX-RBW","setBits64")
pos("uquo-reuses-old-mantissa-length","decimal.go","	n := int(z.prec/_DW) + 1\n","	n := int(z.prec/_DW) + 1 + len(z.mant)&1\n","FX-RBW","(*Decimal).Quo",note="result would depend on the length of the receiver's stale mantissa")
pos("revert-F3-fma-raw","decimal.go","if z == u || alias(z.mant, u.mant) {","if alias(z.mant, u.mant) {","FX-RAW","(*Decimal).FMA/(z,u)",quick=True,note="F3")
pos("add-yneg-dropped-raw","decimal.go","		z.neg = x.neg\n		if x.neg == yneg {\n			// x + y == x + y","		z.neg = x.neg\n		_ = yneg\n		if x.neg == y.neg {\n			// x + y == x + y","FX-RAW","(*Decimal).Add/(z,y)")
pos("uquo-d-after-division","decimal.go","	d := len(xadj) - len(y.mant)\n\n	// divide\n	var r dec\n	z.mant, r = z.mant.div(nil, xadj, y.mant)\n","	// divide\n	var r dec\n	z.mant, r = z.mant.div(nil, xadj, y.mant)\n	d := len(xadj) - len(y.mant)\n","FX-RAW","(*Decimal).uquo/(z,y)",note="the hazard the source comment warns about")
pos("umul-exp-after-product","decimal.go","	e := int64(x.exp) + int64(y.exp)\n	if x == y {\n		z.mant = z.mant.sqr(x.mant)\n	} else {\n		z.mant = z.mant.mul(x.mant, y.mant)\n	}\n	z.setExpAndRound(e-dnorm(z.mant), 0)","	if x == y {\n		z.mant = z.mant.sqr(x.mant)\n	} else {\n		z.mant = z.mant.mul(x.mant, y.mant)\n	}\n	z.form = finite\n	z.exp = 0\n	e := int64(x.exp) + int64(y.exp)\n	z.setExpAndRound(e-dnorm(z.mant), 0)","FX-RAW","(*Decimal).umul")
pos("set-no-acc-fxacc","decimal.go","	z.acc = Exact\n	if z != x {\n		z.form = x.form","	if z != x {\n		z.acc = Exact\n		z.form = x.form","FX-ACC","(*Decimal).Set",quick=True,note="z.Set(z) would keep a stale accuracy")
pos("usub-cancel-no-acc-fxacc","decimal.go","	if len(z.mant) == 0 {\n		z.acc = Exact\n		z.form = zero\n		z.neg = false\n		return\n	}","	if len(z.mant) == 0 {\n		z.form = zero\n		z.neg = false\n		return\n	}","FX-ACC","(*Decimal).Add")
pos("setexp-underflow-no-acc","decimal.go","		// underflow\n		z.acc = makeAcc(z.neg)\n		z.form = zero\n		return","		// underflow\n		z.form = zero\n		return","FX-ACC","(*Decimal).Mul")
neg("neg-raw-neg-rewrite","decimal.go","func (z *Decimal) Neg(x *Decimal) *Decimal {\n	z.Set(x)\n	z.neg = !z.neg","func (z *Decimal) Neg(x *Decimal) *Decimal {\n	z.Set(x)\n	z.neg = !x.neg",["FX-RAW","FX-RBW","FX-ACC"],quick=True,note="Set writes z.neg only when z != x, so reading x.neg afterwards is safe: behaviour-preserving")
json.dump(C,open("fx.json","w"),indent=1,ensure_ascii=False)
print(len(C),"controls")
