#!/usr/bin/env python3
# Turns the stored corpus into controls: every seeded change that some rule reports becomes a
# positive control (expecting exactly the rule/construct pairs that report it today), every
# behaviour-preserving refactoring a negative control over all rules. Needs a scratch worktree of
# /repo (argument 1); run after the checker has been rebuilt. Seeds that no rule reports are listed
# in seeded/MISSED.txt, refactorings that still alarm in benign/ALARMS.txt (neither becomes a control).
import json, os, re, subprocess, sys, glob, threading, queue
from concurrent.futures import ThreadPoolExecutor
# argument 1: a scratch worktree of /repo; five more are created next to it (<wt>-2..6) and
# removed again, so that six patches are evaluated at a time
wt = sys.argv[1]
WTS = [wt]
for k in (2, 3, 4, 5, 6):
    w = '%s-%d' % (wt, k)
    subprocess.run(['git', '-C', '/repo', 'worktree', 'remove', '--force', w], capture_output=True)
    subprocess.run(['rm', '-rf', w])
    subprocess.run(['git', '-C', '/repo', 'worktree', 'add', '-q', '--detach', w, 'HEAD'], check=True)
    WTS.append(w)
pool = queue.Queue()
for w in WTS:
    pool.put(w)
C = []
QUICK = {'seed-r4-C04A','seed-r4-C11C','seed-r4-C02C','benign-b3-R3-ref07','benign-b3-R1-ref02','benign-b3-R3-ref05','seed-r2-C17A','seed-r2-C17B','seed-r2-C08A','seed-r2-C14B','seed-r2-C05B','seed-r2-C12B','seed-r2-C12A','seed-r2-C20B','seed-r2-C13A','seed-r2-C19A','seed-r2-C19B','benign-R4-ref07','benign-R2-ref04','benign-R2-ref08','benign-R3-ref06','benign-R4-ref01','benign-R1-ref10'}
missed, alarms, offtarget = [], [], []
def run(patch):
    w = pool.get()
    try:
        out = subprocess.run(['/verif/seeded/eval_patch.sh', w, patch], capture_output=True, text=True).stdout
    finally:
        pool.put(w)
    fails = []
    for ln in out.splitlines():
        m = re.match(r'\s+\[(C\d\d)\] FAIL (\S+) (.*?) at \S+ \[\w+\]: ', ln)
        if m:
            fails.append((m.group(1), m.group(2), m.group(3)))
    err = 'ANALYSIS-ERROR in: none' not in out
    return fails, err, out
seed_patches = [d + 'patch.diff' for d in sorted(glob.glob('/verif/seeded/*/')) if os.path.exists(d + 'patch.diff')]
benign_patches = sorted(glob.glob('/verif/benign/*.diff'))
with ThreadPoolExecutor(max_workers=len(WTS)) as ex:
    RES = dict(zip(seed_patches + benign_patches, ex.map(run, seed_patches + benign_patches)))
for w in WTS[1:]:
    subprocess.run(['git', '-C', '/repo', 'worktree', 'remove', '--force', w], capture_output=True)
    subprocess.run(['rm', '-rf', w])
for patch in seed_patches:
    d = os.path.dirname(patch) + '/'
    name = os.path.basename(d.rstrip('/'))
    fails, err, out = RES[patch]
    if not fails:
        missed.append(name)
        continue
    tm = re.search(r'(C\d\d)', name)
    target = tm.group(1) if tm else ''
    props = sorted(set(f[0] for f in fails))
    if target and target not in props:
        offtarget.append('%s: reported under %s, not under %s (%s)' % (name, ' '.join(props), target, '; '.join(sorted(set(f[1] for f in fails)))[:120]))
    exp, seen = [], set()
    for _, rule, cons in fails:
        base = re.sub(r'\(.*\)$', '', rule)
        if (rule, cons) in seen or len([e for e in exp if e['rule'] == rule]) >= 2:
            continue
        seen.add((rule, cons))
        exp.append({'rule': rule, 'construct': cons})
    C.append({'name': 'seed-' + name, 'kind': 'positive', 'patch': 'seeded/%s/patch.diff' % name, 'expect': exp[:8],
              'note': 'seeded change written by an independent sub-agent (breaks %s); see seeded/%s/SEED.md' % (name.replace('r2-', '')[:3], name)})
for p in benign_patches:
    name = os.path.basename(p)[:-5]
    fails, err, out = RES[p]
    if fails or err:
        alarms.append(name + ': ' + '; '.join(sorted(set(r + ' ' + c for _, r, c in fails)))[:300])
        continue
    C.append({'name': 'benign-' + name, 'kind': 'negative', 'patch': 'benign/%s.diff' % name, 'rules': [],
              'note': 'behaviour-preserving refactoring written by an independent sub-agent; every rule of every property must stay silent'})
for c in C:
    if c['name'] in QUICK:
        c['quick'] = True
json.dump(C, open('/verif/controls/corpus.json', 'w'), indent=1, ensure_ascii=False)
open('/verif/seeded/MISSED.txt', 'w').write('\n'.join(missed) + '\n')
open('/verif/benign/ALARMS.txt', 'w').write('\n'.join(alarms) + '\n')
open('/verif/seeded/OFFTARGET.txt', 'w').write('\n'.join(offtarget) + '\n')
print(len(C), 'controls;', len(missed), 'seeds missed;', len(offtarget), 'reported off target;', len(alarms), 'benign alarms')
