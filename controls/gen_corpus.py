#!/usr/bin/env python3
# Turns the stored corpus into controls: every seeded change that some rule reports becomes a
# positive control (expecting exactly the rule/construct pairs that report it today), every
# behaviour-preserving refactoring a negative control over all rules. Needs a scratch worktree of
# /repo (argument 1); run after the checker has been rebuilt. Seeds that no rule reports are listed
# in seeded/MISSED.txt, refactorings that still alarm in benign/ALARMS.txt (neither becomes a control).
import json, os, re, subprocess, sys, glob
wt = sys.argv[1]
C = []
QUICK = {'seed-r2-C17A','seed-r2-C17B','seed-r2-C08A','seed-r2-C14B','seed-r2-C05B','seed-r2-C12B','seed-r2-C12A','seed-r2-C20B','seed-r2-C13A','seed-r2-C19A','seed-r2-C19B','benign-R4-ref07','benign-R2-ref04','benign-R2-ref08','benign-R3-ref06','benign-R4-ref01','benign-R1-ref10'}
missed, alarms = [], []
def run(patch):
    out = subprocess.run(['/verif/seeded/eval_patch.sh', wt, patch], capture_output=True, text=True).stdout
    fails = []
    for ln in out.splitlines():
        m = re.match(r'\s+\[(C\d\d)\] FAIL (\S+) (.*?) at \S+ \[\w+\]: ', ln)
        if m:
            fails.append((m.group(1), m.group(2), m.group(3)))
    err = 'ANALYSIS-ERROR in: none' not in out
    return fails, err, out
for d in sorted(glob.glob('/verif/seeded/*/')):
    name = os.path.basename(d.rstrip('/'))
    patch = d + 'patch.diff'
    if not os.path.exists(patch):
        continue
    fails, err, out = run(patch)
    if not fails:
        missed.append(name)
        continue
    exp, seen = [], set()
    for _, rule, cons in fails:
        base = re.sub(r'\(.*\)$', '', rule)
        if (rule, cons) in seen or len([e for e in exp if e['rule'] == rule]) >= 2:
            continue
        seen.add((rule, cons))
        exp.append({'rule': rule, 'construct': cons})
    C.append({'name': 'seed-' + name, 'kind': 'positive', 'patch': 'seeded/%s/patch.diff' % name, 'expect': exp[:8],
              'note': 'seeded change written by an independent sub-agent (breaks %s); see seeded/%s/SEED.md' % (name.replace('r2-', '')[:3], name)})
for p in sorted(glob.glob('/verif/benign/*.diff')):
    name = os.path.basename(p)[:-5]
    fails, err, out = run(p)
    if fails or err:
        alarms.append(name + ': ' + '; '.join(sorted(set(r + ' ' + c for _, r, c in fails)))[:300])
        continue
    C.append({'name': 'benign-' + name, 'kind': 'negative', 'patch': 'benign/%s.diff' % name, 'rules': [],
              'note': 'behaviour-preserving refactoring written by an independent sub-agent; every rule of every property must stay silent'})
for c in C:
    if c['name'] in QUICK:
        c['quick'] = True
json.dump(C, open('/verif/controls/corpus.json', 'w'), indent=1, ensure_ascii=False)
open('/verif/seeded/MISSED.txt', 'w').write('\n'.join(missed) + '\n')
open('/verif/benign/ALARMS.txt', 'w').write('\n'.join(alarms) + '\n')
print(len(C), 'controls;', len(missed), 'seeds missed;', len(alarms), 'benign alarms')
