#!/usr/bin/env python3
import json
C=[]
def pos(name, file, old, new, rule, construct="", quick=False, note=""):
    d={"name":name,"kind":"positive","edits":[{"file":file,"old":old,"new":new}],"expect":[{"rule":rule,"construct":construct}] if construct else [{"rule":rule}]}
    if quick: d["quick"]=True
    if note: d["note"]=note
    C.append(d)
def neg(name, file, old, new, rules, quick=False, note=""):
    d={"name":name,"kind":"negative","edits":[{"file":file,"old":old,"new":new}],"rules":rules}
    if quick: d["quick"]=True
    if note: d["note"]=note
    C.append(d)
F="decimal_marsh.go"
pos("gob-header-length-check-too-small",F,"	if len(buf) < 6 {","	if len(buf) < 2 {","GOB","G1:Uint32(buf[2:])",quick=True,note="F9")
pos("gob-finite-length-check-removed",F,"""		if len(buf) < 10 {
			return errors.New("Decimal.GobDecode: buffer too small for finite form decimal")
		}
""","","GOB","G1:Uint32(buf[6:])")
pos("gob-enum-check-removed",F,"""	if mode > ToPositiveInf || acc > Above || frm > inf {
		return errors.New("Decimal.GobDecode: invalid mode, accuracy or form")
	}
""","","GOB","G2:mode",quick=True,note="F10")
pos("gob-enum-check-mode-only",F,"	if mode > ToPositiveInf || acc > Above || frm > inf {","	if mode > ToPositiveInf || acc > Above {","GOB","G2:form")
pos("gob-word-loop-removed",F,"""		for _, w := range m {
			if w >= _DB {
				return errors.New("Decimal.GobDecode: invalid mantissa word")
			}
		}
""","","GOB","G2:mant/words<base")
pos("gob-word-loop-off-by-one",F,"			if w >= _DB {","			if w > _DB {","GOB","G2:mant/words<base")
pos("gob-normalised-check-removed",F,"		if len(m) == 0 || m[len(m)-1] < _DB/10 {","		if len(m) == 0 {","GOB","G2:mant/normalised")
pos("gob-digits-check-removed",F,"""		if uint(len(m))*_DW-m.trailingZeroDigits() > uint(prec) {
			return errors.New("Decimal.GobDecode: mantissa does not fit precision")
		}
""","","GOB","G2:mant/digits<=prec")
pos("gob-encoder-mode-shift",F,"	b := byte(x.mode&7)<<5 | byte((x.acc+1)&3)<<3 | byte(x.form&3)<<1","	b := byte(x.mode&7)<<4 | byte((x.acc+1)&3)<<2 | byte(x.form&3)<<1","GOB","G3:header")
pos("gob-decoder-acc-bias",F,"	acc := Accuracy((b>>3)&3) - 1","	acc := Accuracy((b >> 3) & 3)","GOB","G3:header.acc")
pos("gob-decoder-exp-offset",F,"		z.exp = int32(binary.BigEndian.Uint32(buf[6:]))","		z.exp = int32(binary.BigEndian.Uint32(buf[5:]))","GOB","G3:offset.exp")
pos("gob-mode-not-restored",F,"	if oldPrec != 0 {\n		z.mode = oldMode\n","	if oldPrec != 0 {\n		_ = oldMode\n","GOB","G4:restore")
pos("gob-version-check-removed",F,"""	if buf[0] != decimalGobVersion {
		return fmt.Errorf("Decimal.GobDecode: encoding version %d not supported", buf[0])
	}
""","","GOB","G5:version")
pos("gob-decodes-into-shared-buffer",F,"		m := dec(nil).setBytes(buf[10:])","		m := oneHalf.mant.setBytes(buf[10:])","GOB","G2:mant/buffer")
neg("neg-gob-length-check-ge",F,"	if len(buf) < 6 {","	if !(len(buf) >= 6) {",["GOB"],quick=True,note="same test written differently")
json.dump(C,open("gob.json","w"),indent=1,ensure_ascii=False)
print(len(C),"controls")
