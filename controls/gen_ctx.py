#!/usr/bin/env python3
import json
C=[]
def pos(name, file, old, new, rule, construct="", quick=False, note="", config=""):
    d={"name":name,"kind":"positive","edits":[{"file":file,"old":old,"new":new}],"expect":[{"rule":rule,"construct":construct}] if construct else [{"rule":rule}]}
    if quick: d["quick"]=True
    if note: d["note"]=note
    C.append(d)
def neg(name, file, old, new, rules, quick=False, note=""):
    d={"name":name,"kind":"negative","edits":[{"file":file,"old":old,"new":new}],"rules":rules}
    if quick: d["quick"]=True
    if note: d["note"]=note
    C.append(d)
F="context/context.go"
H="""				nan, ok := err.(decimal.ErrNaN)
				if !ok {
					panic(err)
				}
				c.err = nan
				r = z
			}
		}()
	}
	return c.apply(z).%s("""
pos("revert-F11-errors-as",F,'import (\n	"math/big"',  'import (\n	"errors"\n	"math/big"',"CTX","Quo",note="only adds the import; see the paired edit")
C.pop()
d={"name":"revert-F11-errors-as","kind":"positive","quick":True,"edits":[{"file":F,"old":'import (\n	"math/big"',"new":'import (\n	"errors"\n	"math/big"'},{"file":F,"old":H%"Quo","new":"""				if !errors.As(err.(error), &c.err) {
					panic(err)
				}
				r = z
			}
		}()
	}
	return c.apply(z).Quo("""}],"expect":[{"rule":"CTX(T3)","construct":"Quo"}],"note":"F11: errors.As into *error latches every error-valued panic"}
C.append(d)
pos("ctx-mul-no-latch-test",F,"func (c *Context) Mul(z, x, y *decimal.Decimal) (r *decimal.Decimal) {\n	if handleNaNs {\n		if c.err != nil {\n			return z\n		}\n","func (c *Context) Mul(z, x, y *decimal.Decimal) (r *decimal.Decimal) {\n	if handleNaNs {\n","CTX(T1)","Mul",quick=True)
pos("ctx-neg-no-latch-test",F,"func (c *Context) Neg(z, x *decimal.Decimal) *decimal.Decimal {\n	if handleNaNs {\n		if c.err != nil {\n			return z\n		}\n	}\n","func (c *Context) Neg(z, x *decimal.Decimal) *decimal.Decimal {\n","CTX(T1)","Neg")
pos("ctx-latched-returns-nil",F,"func (c *Context) Abs(z, x *decimal.Decimal) *decimal.Decimal {\n	if handleNaNs {\n		if c.err != nil {\n			return z\n","func (c *Context) Abs(z, x *decimal.Decimal) *decimal.Decimal {\n	if handleNaNs {\n		if c.err != nil {\n			return x\n","CTX(T1)","Abs")
pos("ctx-mul-no-apply",F,"	return c.apply(z).Mul(x, y)","	return z.Mul(x, y)","CTX(T2)","Mul")
pos("ctx-apply-no-setmode",F,"	z.SetMode(c.mode)\n	if z.Prec() != uint(c.prec) {","	if z.Prec() != uint(c.prec) {","CTX(T2)","apply",quick=True)
pos("ctx-apply-prec-only-when-zero",F,"	if z.Prec() != uint(c.prec) {\n		z.SetPrec(uint(c.prec))\n	}","	if z.Prec() == 0 {\n		z.SetPrec(uint(c.prec))\n	}","CTX(T2)","apply")
pos("ctx-set-via-set",F,"	return c.apply(z.Copy(x))","	return c.apply(z.Set(x))","CTX(T2)","Set",note="Set rounds to z's old precision first: double rounding")
pos("ctx-sqrt-no-recover",F,"""		defer func() {
			if err := recover(); err != nil {
				nan, ok := err.(decimal.ErrNaN)
				if !ok {
					panic(err)
				}
				c.err = nan
				r = z
			}
		}()
	}
	return c.apply(z).Sqrt(x)""","""	}
	return c.apply(z).Sqrt(x)""","CTX(T3)","Sqrt")
pos("ctx-handler-swallows-everything",F,H%"Sub","""				nan, ok := err.(decimal.ErrNaN)
				if ok {
					c.err = nan
				}
				r = z
			}
		}()
	}
	return c.apply(z).Sub(""","CTX(T3)","Sub")
pos("ctx-handler-result-not-set",F,H%"Add","""				nan, ok := err.(decimal.ErrNaN)
				if !ok {
					panic(err)
				}
				c.err = nan
			}
		}()
	}
	return c.apply(z).Add(""","CTX(T3)","Add")
pos("ctx-err-not-cleared",F,"	err = c.err\n	c.err = nil\n	return","	err = c.err\n	return","CTX(T5)","Err")
pos("ctx-setprec-not-stored",F,"func (c *Context) SetPrec(prec uint) *Context {\n	c.prec = setPrec(prec)","func (c *Context) SetPrec(prec uint) *Context {\n	_ = setPrec(prec)","CTX(T7)","SetPrec")
pos("ctx-newint64-bypasses-new",F,"	return c.New().SetInt64(x)","	return new(decimal.Decimal).SetInt64(x)","CTX(T6)","NewInt64")
pos("ctx-new-forgets-mode",F,"	return new(decimal.Decimal).SetMode(c.mode).SetPrec(uint(c.prec))","	return new(decimal.Decimal).SetPrec(uint(c.prec))","CTX(T6)","New")
neg("neg-ctx-apply-unconditional-setprec",F,"	if z.Prec() != uint(c.prec) {\n		z.SetPrec(uint(c.prec))\n	}","	z.SetPrec(uint(c.prec))",["CTX"],quick=True,note="SetPrec to the same precision is a no-op")
json.dump(C,open("ctx.json","w"),indent=1,ensure_ascii=False)
print(len(C),"controls")
