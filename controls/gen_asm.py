#!/usr/bin/env python3
import json
C=[]
def pos(name, file, old, new, rule, construct="", quick=False, note="", config=""):
    d={"name":name,"kind":"positive","edits":[{"file":file,"old":old,"new":new}],"expect":[{"rule":rule,"construct":construct}] if construct else [{"rule":rule}]}
    if quick: d["quick"]=True
    if note: d["note"]=note
    if config: d["config"]=config
    C.append(d)
def neg(name, file, old, new, rules, quick=False, note="", config=""):
    d={"name":name,"kind":"negative","edits":[{"file":file,"old":old,"new":new}],"rules":rules}
    if quick: d["quick"]=True
    if note: d["note"]=note
    if config: d["config"]=config
    C.append(d)
S="dec_arith_amd64.s"
pos("asm-add10vv-lane2-offset",S,"	ADCQ 16(R9)(SI*8), R13\n	SBBQ CX, CX\n	CMPQ DX, R13","	ADCQ 8(R9)(SI*8), R13\n	SBBQ CX, CX\n	CMPQ DX, R13","ASM","lanes/·add10VV",quick=True,note="copy-paste slip in one lane of the unrolled body")
pos("asm-add10vv-lane1-register",S,"	SUBQ AX, R12\n	ADDQ CX, CX			// restore CF\n	ADCQ 16(R9)(SI*8), R13","	SUBQ AX, R11\n	ADDQ CX, CX			// restore CF\n	ADCQ 16(R9)(SI*8), R13","ASM","lanes/·add10VV")
pos("asm-sub10vw-lane-missing-neg",S,"	MOVQ BX, 16(R10)(SI*8)\n	NEGQ CX\n	MOVQ 24(R8)(SI*8), BX","	MOVQ BX, 16(R10)(SI*8)\n	MOVQ 24(R8)(SI*8), BX","ASM","lanes/·sub10VW")
pos("asm-deccpy-lane-store-offset",S,"	MOVQ CX, 16(R10)(SI*8)\n	MOVQ DX, 24(R10)(SI*8)\n	ADDQ $4, SI		// i += 4\n	SUBQ $4, DI		// n -= 4\n	JGE CU","	MOVQ CX, 24(R10)(SI*8)\n	MOVQ DX, 16(R10)(SI*8)\n	ADDQ $4, SI		// i += 4\n	SUBQ $4, DI		// n -= 4\n	JGE CU","ASM","lanes/decCpy")
pos("asm-inlined-div10w-register",S,"	ADCQ R13, DX		// q1 + n1 + carry\n	MOVQ DX, BX\n	NOTQ BX				// t\n	MOVQ BX, AX\n	MULQ CX				// DX:AX = t * d\n	ADDQ R14, AX\n	ADCQ R13, DX\n	SUBQ CX, DX			// DX:AX = dr\n	ANDQ DX, CX\n	ADDQ CX, AX			// r\n","	ADCQ R14, DX		// q1 + n1 + carry\n	MOVQ DX, BX\n	NOTQ BX				// t\n	MOVQ BX, AX\n	MULQ CX				// DX:AX = t * d\n	ADDQ R14, AX\n	ADCQ R13, DX\n	SUBQ CX, DX			// DX:AX = dr\n	ANDQ DX, CX\n	ADDQ CX, AX			// r\n","ASM","inline/·mulAdd10VWW")
pos("asm-mp-immediate",S,"	// m'        = 0xd83c94fb6d2ac34a\n	// n2, n10   = n1, n0\n	MOVQ n1+0(FP), R8\n	MOVQ n0+8(FP), R9\n	MOVQ R9, BX\n	SARQ $63, BX		// _n1\n	MOVQ R8, AX\n	SUBQ BX, AX			// AX == n1-_n1\n	MOVQ $0xd83c94fb6d2ac34a, CX","	// m'        = 0xd83c94fb6d2ac34a\n	// n2, n10   = n1, n0\n	MOVQ n1+0(FP), R8\n	MOVQ n0+8(FP), R9\n	MOVQ R9, BX\n	SARQ $63, BX		// _n1\n	MOVQ R8, AX\n	SUBQ BX, AX			// AX == n1-_n1\n	MOVQ $0xd83c94fb6d2ac34b, CX","ASM","immediate/mP")
pos("asm-define-dmax",S,"#define _DMax 9999999999999999999","#define _DMax 9999999999999999998","ASM","define/_DMax")
pos("asm-frame-offset",S,"	MOVQ y+48(FP), CX	// c = y\n	MOVQ z+0(FP), R10\n\n	MOVQ $0, SI			// i = 0","	MOVQ y+40(FP), CX	// c = y\n	MOVQ z+0(FP), R10\n\n	MOVQ $0, SI			// i = 0","ASM","frame/·add10VW",quick=True)
pos("asm-carry-first-element-compare-moved",S,"	LEAQ -1(DX), AX\n	SBBQ BX, BX\n	CMPQ AX, CX\n	SBBQ AX, AX\n	ORQ AX, BX","	LEAQ -1(DX), AX\n	CMPQ AX, CX\n	SBBQ BX, BX\n	SBBQ AX, AX\n	ORQ AX, BX","ASM","carry/·add10VW",quick=True,note="seed r2-C07B: the hardware carry of x[0]+y is overwritten, and the decimal carry is materialised twice")
pos("asm-carry-first-element-compare-deleted",S,"	LEAQ -1(DX), AX\n	SBBQ BX, BX\n	CMPQ AX, CX\n	SBBQ AX, AX\n	ORQ AX, BX","	LEAQ -1(DX), AX\n	SBBQ BX, BX\n	SBBQ AX, AX\n	ORQ AX, BX","ASM","carry/·add10VW",note="clause (a): the second materialisation reads the carry the first one left")
neg("asm-carry-first-element-registers-renamed",S,"	LEAQ -1(DX), AX\n	SBBQ BX, BX\n	CMPQ AX, CX\n	SBBQ AX, AX\n	ORQ AX, BX\n	MOVQ DX, AX\n	ANDQ BX, AX\n	SUBQ AX, CX\n	NEGQ BX			// convert to C = 0/1\n	MOVQ CX, 0(R10)(SI*8)\n	MOVQ BX, CX		// save c","	LEAQ -1(DX), AX\n	SBBQ R11, R11\n	CMPQ AX, CX\n	SBBQ AX, AX\n	ORQ AX, R11\n	MOVQ DX, AX\n	ANDQ R11, AX\n	SUBQ AX, CX\n	NEGQ R11			// convert to C = 0/1\n	MOVQ CX, 0(R10)(SI*8)\n	MOVQ R11, CX		// save c",["ASM"])
pos("asm-sym-sub10vw-tail-rewritten-neg-lost",S,"	MOVQ 0(R8)(SI*8), R11\n	SUBQ CX, R11\n	SBBQ CX, CX\n	MOVQ DX, AX\n	ANDQ CX, AX\n	ADDQ AX, R11\n	NEGQ CX\n	MOVQ R11, 0(R10)(SI*8)\n","	MOVQ 0(R8)(SI*8), BX\n	SUBQ CX, BX\n	SBBQ CX, CX\n	MOVQ DX, AX\n	ANDQ CX, AX\n	ADDQ AX, BX\n	MOVQ BX, 0(R10)(SI*8)\n","ASM","lanes/·sub10VW",quick=True,note="the tail loop rewritten (register renamed) with the conversion of the borrow mask to 0/1 lost: not alignable with the unrolled body, told apart by the symbolic evaluation")
neg("asm-sym-sub10vw-tail-rewritten",S,"	MOVQ 0(R8)(SI*8), R11\n	SUBQ CX, R11\n	SBBQ CX, CX\n	MOVQ DX, AX\n	ANDQ CX, AX\n	ADDQ AX, R11\n	NEGQ CX\n	MOVQ R11, 0(R10)(SI*8)\n","	MOVQ 0(R8)(SI*8), BX\n	SUBQ CX, BX\n	SBBQ CX, CX\n	MOVQ DX, AX\n	ANDQ CX, AX\n	NEGQ CX\n	ADDQ AX, BX\n	MOVQ BX, 0(R10)(SI*8)\n",["ASM"],quick=True,note="same rewrite, complete: instruction sequences differ, symbolic evaluation shows the same stores and loop-carried registers")
pos("asm-store-through-source",S,"CLoop:\n	MOVQ 0(R8)(SI*8), AX\n	MOVQ AX, 0(R10)(SI*8)\n	ADDQ $1, SI","CLoop:\n	MOVQ 0(R8)(SI*8), AX\n	MOVQ AX, 0(R8)(SI*8)\n	ADDQ $1, SI","ASM","stores/decCpy")
pos("asm-kernel-writes-source",S,"	MOVQ R9, 0(R10)(SI*8)\n	ADDQ $1, SI\n	CMPQ SI, DI\n	JL L9","	MOVQ R9, 0(R8)(SI*8)\n	ADDQ $1, SI\n	CMPQ SI, DI\n	JL L9","ASM","stores/·shr10VU")
pos("asm-result-not-stored",S,"E2:	NEGQ CX\n	MOVQ CX, c+72(FP)	// return c\n	RET","E2:	NEGQ CX\n	RET","ASM","result/·sub10VV")
pos("asm-text-without-decl",S,"TEXT ·div10VWW(SB),NOSPLIT,$0","TEXT ·div10VWWx(SB),NOSPLIT,$0","ASM","div10VWW")
pos("magic-pre-post-swapped","dec_arith.go","	pre  byte   // pre-shift\n	post byte   // post-shift","	post byte   // post-shift\n	pre  byte   // pre-shift","CONST","",note="assembly hard-codes pre@16 post@17")
pos("pure-sub10vv-args-swapped","dec_arith_decl_pure.go","	return sub10VV_g(z, x, y)","	return sub10VV_g(z, y, x)","ASM-PURE","wrapper/sub10VV",quick=True,config="purego",note="passes all tests in the default build")
pos("pure-add10vw-calls-sub","dec_arith_decl_pure.go","	return add10VW_g(z, x, y)","	return sub10VW_g(z, x, y)","ASM-PURE","wrapper/add10VW",config="purego")
pos("pure-constraint-drops-non-amd64","dec_arith_decl_pure.go","// +build decimal_pure_go !amd64","// +build decimal_pure_go","BUILDTAGS","dec_arith_decl",quick=True)
pos("asm-constraint-differs",S,"// +build !decimal_pure_go","// +build !math_big_pure_go","BUILDTAGS","dec_arith_amd64.s")
json.dump(C,open("asm.json","w"),indent=1,ensure_ascii=False)
print(len(C),"controls")
