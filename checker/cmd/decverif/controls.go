package main

import (
	"decverif/internal/props"
)

// controlReport summarises the control corpus run (see controls/*.json).
type controlReport struct {
	Run        int      `json:"run"`
	Fired      int      `json:"fired"`
	Skipped    int      `json:"skipped"`
	Blind      int      `json:"blind"`
	FalseAlarm int      `json:"false_alarm"`
	BlindNames []string `json:"blind_names,omitempty"`
	FalseNames []string `json:"false_alarm_names,omitempty"`
	Names      []string `json:"names,omitempty"`
}

func runControls(p *props.Prop, tier string) controlReport {
	return controlReport{}
}
