package main

import (
	"encoding/json"
	"fmt"
	"os"
	"path/filepath"
	"sort"
	"strings"

	"decverif/internal/model"
	"decverif/internal/ob"
	"decverif/internal/props"
)

// A control is a small source edit applied through packages.Config.Overlay
// (no copy of the repository is made). Positive controls break one rule
// instance and must make the named rule report a new violation; negative
// controls are behaviour-preserving edits on which every rule must stay silent.
type edit struct {
	File string `json:"file"`
	Old  string `json:"old"`
	New  string `json:"new"`
}
type expect struct {
	Rule      string `json:"rule"`
	Construct string `json:"construct,omitempty"` // substring of the construct
}
type control struct {
	Name   string   `json:"name"`
	Kind   string   `json:"kind"` // positive | negative
	Edits  []edit   `json:"edits"`
	Expect []expect `json:"expect,omitempty"`
	Rules  []string `json:"rules,omitempty"` // negative: rules that must stay silent
	Quick  bool     `json:"quick,omitempty"`
	Config string   `json:"config,omitempty"`
	Note   string   `json:"note,omitempty"`
}

type controlReport struct {
	Run        int      `json:"run"`
	Fired      int      `json:"fired"`
	Silent     int      `json:"negative_silent"`
	Skipped    int      `json:"skipped"`
	Blind      int      `json:"blind"`
	FalseAlarm int      `json:"false_alarm"`
	BlindNames []string `json:"blind_names,omitempty"`
	FalseNames []string `json:"false_alarm_names,omitempty"`
	Names      []string `json:"names,omitempty"`
	SkipNames  []string `json:"skipped_names,omitempty"`
}

func loadControls() []control {
	files, _ := filepath.Glob(filepath.Join(*flagVerif, "controls", "*.json"))
	sort.Strings(files)
	var out []control
	for _, f := range files {
		b, err := os.ReadFile(f)
		if err != nil {
			model.Fatal("controls: %v", err)
		}
		var cs []control
		if err := json.Unmarshal(b, &cs); err != nil {
			model.Fatal("controls: %s: %v", f, err)
		}
		out = append(out, cs...)
	}
	return out
}

func (c control) rulesFor(p *props.Prop) []string {
	in := func(r string) bool {
		for _, x := range p.Rules {
			if ob.RuleMatches(r, x) || ob.RuleMatches(x, r) {
				return true
			}
		}
		return false
	}
	var out []string
	seen := map[string]bool{}
	add := func(r string) {
		base := r
		if i := strings.IndexAny(base, "(:/"); i > 0 {
			base = base[:i]
		}
		if in(base) && !seen[base] {
			seen[base] = true
			out = append(out, base)
		}
	}
	if c.Kind == "negative" {
		if len(c.Rules) == 0 {
			for _, r := range p.Rules {
				add(r)
			}
		}
		for _, r := range c.Rules {
			add(r)
		}
		return out
	}
	for _, e := range c.Expect {
		add(e.Rule)
	}
	return out
}

func (c control) overlay() (map[string][]byte, string) {
	ov := map[string][]byte{}
	for _, e := range c.Edits {
		path := filepath.Join(*flagRepo, e.File)
		src, ok := ov[path]
		if !ok {
			b, err := os.ReadFile(path)
			if err != nil {
				return nil, "file missing: " + e.File
			}
			src = b
		}
		if n := strings.Count(string(src), e.Old); n != 1 {
			return nil, fmt.Sprintf("old text occurs %d times in %s", n, e.File)
		}
		ov[path] = []byte(strings.Replace(string(src), e.Old, e.New, 1))
	}
	return ov, ""
}

func violationKeys(list []ob.Obligation) map[string]bool {
	k := map[string]bool{}
	for _, o := range list {
		if o.Verdict == ob.Violation || o.Verdict == ob.Known {
			k[o.Key()] = true
		}
	}
	return k
}

// runOneControl returns (new violations, skipReason).
func runOneControl(c control, rules []string, base map[string]map[string]bool) (fresh []ob.Obligation, skip string) {
	ov, why := c.overlay()
	if ov == nil {
		return nil, why
	}
	cfg := c.Config
	if cfg == "" {
		cfg = "amd64"
	}
	bk := strings.Join(rules, ",") + "@" + cfg
	if base[bk] == nil {
		l, _ := runRules(rules, cfg, nil)
		base[bk] = violationKeys(l)
	}
	var list []ob.Obligation
	func() {
		defer func() {
			if r := recover(); r != nil {
				if ae, ok := r.(model.AnalysisError); ok {
					// An edit that makes an anchor vanish or the analysis undecidable is a
					// detected change as well (exit 2 in a real run); an edit that does not
					// type-check is a broken control.
					if strings.Contains(ae.Msg, "type-check") || strings.Contains(ae.Msg, "ill-typed") {
						skip = "control does not compile: " + ae.Msg
						return
					}
					list = []ob.Obligation{{Rule: "ANALYSIS-ERROR", Construct: ae.Msg, Verdict: ob.Violation}}
					return
				}
				panic(r)
			}
		}()
		list, _ = runRules(rules, cfg, ov)
	}()
	if skip != "" {
		return nil, skip
	}
	for _, o := range list {
		if o.Verdict == ob.Violation && !base[bk][o.Key()] {
			fresh = append(fresh, o)
		}
	}
	return fresh, ""
}

func (c control) firedBy(fresh []ob.Obligation) bool {
	for _, o := range fresh {
		if o.Rule == "ANALYSIS-ERROR" {
			return true
		}
		for _, e := range c.Expect {
			if ob.RuleMatches(o.Rule, e.Rule) && (e.Construct == "" || strings.Contains(o.Construct, e.Construct)) {
				return true
			}
		}
	}
	return false
}

func runControls(p *props.Prop, tier string) controlReport {
	rep := controlReport{}
	base := map[string]map[string]bool{}
	quickSeen := map[string]bool{}
	for _, c := range loadControls() {
		rules := c.rulesFor(p)
		if len(rules) == 0 {
			continue
		}
		if tier != "thorough" {
			if !c.Quick {
				continue
			}
			k := c.Kind + ":" + strings.Join(rules, ",")
			if quickSeen[k] {
				continue
			}
			quickSeen[k] = true
		}
		fresh, skip := runOneControl(c, rules, base)
		if skip != "" {
			rep.Skipped++
			rep.SkipNames = append(rep.SkipNames, c.Name+": "+skip)
			continue
		}
		rep.Run++
		rep.Names = append(rep.Names, c.Name)
		if c.Kind == "negative" {
			if len(fresh) > 0 {
				rep.FalseAlarm++
				rep.FalseNames = append(rep.FalseNames, c.Name+": "+fresh[0].String())
			} else {
				rep.Silent++
			}
			continue
		}
		if c.firedBy(fresh) {
			rep.Fired++
		} else {
			rep.Blind++
			rep.BlindNames = append(rep.BlindNames, c.Name)
		}
	}
	return rep
}

// debugControl runs one control against every rule it names and prints what it changed.
func debugControl(name string) int {
	for _, c := range loadControls() {
		if c.Name != name {
			continue
		}
		var rules []string
		all := &props.Prop{}
		for _, e := range c.Expect {
			all.Rules = append(all.Rules, e.Rule)
		}
		all.Rules = append(all.Rules, c.Rules...)
		if *flagRule != "" {
			all.Rules = strings.Split(*flagRule, ",")
		}
		rules = c.rulesFor(all)
		fresh, skip := runOneControl(c, rules, map[string]map[string]bool{})
		if skip != "" {
			fmt.Println("SKIPPED:", skip)
			return 2
		}
		for _, o := range fresh {
			fmt.Println(o)
		}
		fmt.Printf("control %s (%s): %d new violations over rules %v; fired=%v\n", c.Name, c.Kind, len(fresh), rules, c.firedBy(fresh))
		return 0
	}
	fmt.Println("no such control")
	return 2
}
