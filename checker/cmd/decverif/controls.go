package main

import (
	"encoding/json"
	"fmt"
	"os"
	"path/filepath"
	"sort"
	"strings"
	"sync"

	"decverif/internal/model"
	"decverif/internal/ob"
	"decverif/internal/props"
)

// A control is a small source edit applied through packages.Config.Overlay
// (no copy of the repository is made). Positive controls break one rule
// instance and must make the named rule report a new violation; negative
// controls are behaviour-preserving edits on which every rule must stay silent.
type edit struct {
	File string `json:"file"`
	Old  string `json:"old"`
	New  string `json:"new"`
}
type expect struct {
	Rule      string `json:"rule"`
	Construct string `json:"construct,omitempty"` // substring of the construct
}
type control struct {
	Name   string   `json:"name"`
	Kind   string   `json:"kind"` // positive | negative
	Edits  []edit   `json:"edits,omitempty"`
	Patch  string   `json:"patch,omitempty"` // unified diff (path relative to /verif) applied instead of edits
	Expect []expect `json:"expect,omitempty"`
	Rules  []string `json:"rules,omitempty"` // negative: rules that must stay silent
	Quick  bool     `json:"quick,omitempty"`
	Config string   `json:"config,omitempty"`
	Note   string   `json:"note,omitempty"`
}

type controlReport struct {
	Run        int      `json:"run"`
	Fired      int      `json:"fired"`
	Silent     int      `json:"negative_silent"`
	Skipped    int      `json:"skipped"`
	Blind      int      `json:"blind"`
	FalseAlarm int      `json:"false_alarm"`
	BlindNames []string `json:"blind_names,omitempty"`
	FalseNames []string `json:"false_alarm_names,omitempty"`
	Names      []string `json:"names,omitempty"`
	SkipNames  []string `json:"skipped_names,omitempty"`
}

func loadControls() []control {
	files, _ := filepath.Glob(filepath.Join(*flagVerif, "controls", "*.json"))
	sort.Strings(files)
	var out []control
	for _, f := range files {
		b, err := os.ReadFile(f)
		if err != nil {
			model.Fatal("controls: %v", err)
		}
		var cs []control
		if err := json.Unmarshal(b, &cs); err != nil {
			model.Fatal("controls: %s: %v", f, err)
		}
		out = append(out, cs...)
	}
	return out
}

// rulesFor returns the property's rule selectors that this control exercises.
func (c control) rulesFor(p *props.Prop) []string {
	var want []string
	if c.Kind == "negative" {
		want = c.Rules
	} else {
		for _, e := range c.Expect {
			want = append(want, e.Rule)
		}
	}
	var out []string
	for _, sel := range p.Rules {
		n, _ := splitSel(sel)
		hit := c.Kind == "negative" && len(want) == 0
		for _, w := range want {
			if ob.RuleMatches(w, n) || ob.RuleMatches(n, w) {
				hit = true
			}
		}
		if hit {
			out = append(out, sel)
		}
	}
	return out
}

func (c control) overlay() (map[string][]byte, string) {
	ov := map[string][]byte{}
	if c.Patch != "" {
		b, err := os.ReadFile(filepath.Join(*flagVerif, c.Patch))
		if err != nil {
			return nil, "patch missing: " + c.Patch
		}
		if why := applyUnifiedDiff(string(b), *flagRepo, ov); why != "" {
			return nil, "patch does not apply: " + why
		}
		if len(ov) == 0 {
			return nil, "patch changes nothing"
		}
	}
	for _, e := range c.Edits {
		path := filepath.Join(*flagRepo, e.File)
		src, ok := ov[path]
		if !ok {
			b, err := os.ReadFile(path)
			if err != nil {
				return nil, "file missing: " + e.File
			}
			src = b
		}
		if n := strings.Count(string(src), e.Old); n != 1 {
			return nil, fmt.Sprintf("old text occurs %d times in %s", n, e.File)
		}
		ov[path] = []byte(strings.Replace(string(src), e.Old, e.New, 1))
	}
	return ov, ""
}

func violationKeys(list []ob.Obligation) map[string]bool {
	k := map[string]bool{}
	for _, o := range list {
		if o.Verdict == ob.Violation || o.Verdict == ob.Known {
			k[o.Key()] = true
		}
	}
	return k
}

// runOneControl returns (new violations, skipReason).
func runOneControl(c control, rules []string, base map[string]map[string]bool) (fresh []ob.Obligation, skip string) {
	ov, why := c.overlay()
	if ov == nil {
		return nil, why
	}
	cfg := c.Config
	if cfg == "" {
		cfg = "amd64"
	}
	// violations already present on the unchanged tree (precomputed by the caller when running
	// in parallel; computed here for the single-control debugging entry point)
	bk := "@" + cfg
	if base[bk] == nil {
		base[bk] = map[string]bool{}
		for _, r := range rules {
			l, _ := runRules([]string{r}, cfg, nil)
			for k := range violationKeys(l) {
				base[bk][k] = true
			}
		}
	}
	var list []ob.Obligation
	func() {
		defer func() {
			if r := recover(); r != nil {
				if ae, ok := r.(model.AnalysisError); ok {
					// An edit that makes an anchor vanish or the analysis undecidable is a
					// detected change as well (exit 2 in a real run); an edit that does not
					// type-check is a broken control.
					if strings.Contains(ae.Msg, "type-check") || strings.Contains(ae.Msg, "ill-typed") {
						skip = "control does not compile: " + ae.Msg
						return
					}
					list = []ob.Obligation{{Rule: "ANALYSIS-ERROR", Construct: ae.Msg, Verdict: ob.Violation}}
					return
				}
				panic(r)
			}
		}()
		list, _ = runRules(rules, cfg, ov)
	}()
	if skip != "" {
		return nil, skip
	}
	for _, o := range list {
		if o.Verdict == ob.Violation && !base[bk][o.Key()] {
			fresh = append(fresh, o)
		}
	}
	return fresh, ""
}

func (c control) firedBy(fresh []ob.Obligation) bool {
	for _, o := range fresh {
		if o.Rule == "ANALYSIS-ERROR" {
			return true
		}
		for _, e := range c.Expect {
			if ob.RuleMatches(o.Rule, e.Rule) && (e.Construct == "" || strings.Contains(o.Construct, e.Construct)) {
				return true
			}
		}
	}
	return false
}

func runControls(p *props.Prop, tier string) controlReport {
	rep := controlReport{}
	base := map[string]map[string]bool{}
	quickSeen := map[string]bool{}
	type job struct {
		c     control
		sels  []string
		names []string
		fresh []ob.Obligation
		skip  string
		err   interface{}
	}
	var jobs []*job
	for _, c := range loadControls() {
		sels := c.rulesFor(p)
		if len(sels) == 0 {
			continue
		}
		// run the rules unfiltered, then look at what the property's selectors keep
		var names []string
		seen := map[string]bool{}
		for _, sel := range sels {
			n, _ := splitSel(sel)
			if !seen[n] {
				seen[n] = true
				names = append(names, n)
			}
		}
		if tier != "thorough" && !c.Quick {
			continue
		}
		jobs = append(jobs, &job{c: c, sels: sels, names: names})
	}
	// base violations first (sequential, cached), then the controls in parallel
	for _, j := range jobs {
		cfg := j.c.Config
		if cfg == "" {
			cfg = "amd64"
		}
		bk := "@" + cfg
		if base[bk] == nil {
			base[bk] = map[string]bool{}
		}
		for _, r := range j.names {
			if base["done:"+r+bk] == nil {
				l, _ := runRules([]string{r}, cfg, nil)
				for k := range violationKeys(l) {
					base[bk][k] = true
				}
				base["done:"+r+bk] = map[string]bool{}
			}
		}
	}
	sem := make(chan struct{}, 8)
	var wg sync.WaitGroup
	for _, j := range jobs {
		wg.Add(1)
		go func(j *job) {
			defer wg.Done()
			sem <- struct{}{}
			defer func() { <-sem }()
			defer func() {
				if r := recover(); r != nil {
					j.err = r
				}
			}()
			j.fresh, j.skip = runOneControl(j.c, j.names, base)
		}(j)
	}
	wg.Wait()
	for _, j := range jobs {
		c, sels, names := j.c, j.sels, j.names
		if j.err != nil {
			panic(j.err)
		}
		if j.skip != "" {
			rep.Skipped++
			rep.SkipNames = append(rep.SkipNames, c.Name+": "+j.skip)
			continue
		}
		var inProp []ob.Obligation
		for _, o := range j.fresh {
			if o.Rule == "ANALYSIS-ERROR" {
				inProp = append(inProp, o)
				continue
			}
			for _, sel := range sels {
				n, f := splitSel(sel)
				if ob.RuleMatches(o.Rule, n) && selMatch(f, o.Construct) {
					inProp = append(inProp, o)
					break
				}
			}
		}
		if c.Kind == "negative" {
			rep.Run++
			rep.Names = append(rep.Names, c.Name)
			if len(inProp) > 0 {
				rep.FalseAlarm++
				rep.FalseNames = append(rep.FalseNames, c.Name+": "+inProp[0].String())
			} else {
				rep.Silent++
			}
			continue
		}
		k := c.Kind + ":" + strings.Join(names, ",")
		switch {
		case c.firedBy(inProp):
			if tier != "thorough" && quickSeen[k] {
				continue // one positive control per rule family is reported in the quick tier
			}
			quickSeen[k] = true
			rep.Run++
			rep.Fired++
			rep.Names = append(rep.Names, c.Name)
		case c.firedBy(j.fresh):
			// fires, but only on constructs this property does not select: says nothing here
		default:
			rep.Run++
			rep.Blind++
			rep.BlindNames = append(rep.BlindNames, c.Name)
		}
	}
	return rep
}

// debugControl runs one control against every rule it names and prints what it changed.
func debugControl(name string) int {
	for _, c := range loadControls() {
		if c.Name != name {
			continue
		}
		var rules []string
		for _, e := range c.Expect {
			base := e.Rule
			if i := strings.IndexAny(base, "(:/"); i > 0 {
				base = base[:i]
			}
			rules = append(rules, base)
		}
		rules = append(rules, c.Rules...)
		if *flagRule != "" {
			rules = strings.Split(*flagRule, ",")
		}
		fresh, skip := runOneControl(c, rules, map[string]map[string]bool{})
		if skip != "" {
			fmt.Println("SKIPPED:", skip)
			return 2
		}
		for _, o := range fresh {
			fmt.Println(o)
		}
		fmt.Printf("control %s (%s): %d new violations over rules %v; fired=%v\n", c.Name, c.Kind, len(fresh), rules, c.firedBy(fresh))
		return 0
	}
	fmt.Println("no such control")
	return 2
}

// applyUnifiedDiff applies a `git diff` to the files under root and puts the results into ov.
// Hunks are applied by position and every context/removed line is verified, so a patch written
// against another revision of a file is reported instead of being applied somewhere else.
func applyUnifiedDiff(diff, root string, ov map[string][]byte) string {
	lines := strings.Split(diff, "\n")
	var cur string
	var src, out []string
	pos := 0
	flush := func() {
		if cur == "" {
			return
		}
		out = append(out, src[pos:]...)
		ov[filepath.Join(root, cur)] = []byte(strings.Join(out, "\n"))
		cur, src, out, pos = "", nil, nil, 0
	}
	for i := 0; i < len(lines); i++ {
		ln := lines[i]
		switch {
		case strings.HasPrefix(ln, "diff --git "):
			flush()
		case strings.HasPrefix(ln, "+++ "):
			flush()
			name := strings.TrimSpace(strings.TrimPrefix(ln, "+++ "))
			if name == "/dev/null" {
				return "file deletion is not supported"
			}
			name = strings.TrimPrefix(name, "b/")
			cur = name
			if i > 0 && strings.HasPrefix(lines[i-1], "--- /dev/null") {
				src = nil
			} else {
				b, err := os.ReadFile(filepath.Join(root, name))
				if err != nil {
					return "file missing: " + name
				}
				src = strings.Split(string(b), "\n")
			}
			out, pos = nil, 0
		case strings.HasPrefix(ln, "@@ ") && cur != "":
			var ol, oc, nl, nc int
			oc, nc = 1, 1
			hdr := strings.Fields(ln)
			if len(hdr) < 3 {
				return "bad hunk header"
			}
			parse := func(s string, l, c *int) {
				s = s[1:]
				if j := strings.Index(s, ","); j >= 0 {
					fmt.Sscanf(s[:j], "%d", l)
					fmt.Sscanf(s[j+1:], "%d", c)
				} else {
					fmt.Sscanf(s, "%d", l)
				}
			}
			parse(hdr[1], &ol, &oc)
			parse(hdr[2], &nl, &nc)
			start := ol - 1
			if oc == 0 {
				start = ol
			}
			_ = nl
			// collect the hunk
			var oldBlk, newBlk []string
			seenOld, seenNew := 0, 0
			for (seenOld < oc || seenNew < nc) && i+1 < len(lines) {
				i++
				h := lines[i]
				switch {
				case strings.HasPrefix(h, "\\"):
					// "\ No newline at end of file"
				case strings.HasPrefix(h, "+"):
					newBlk = append(newBlk, h[1:])
					seenNew++
				case strings.HasPrefix(h, "-"):
					oldBlk = append(oldBlk, h[1:])
					seenOld++
				case strings.HasPrefix(h, " "), h == "":
					body := ""
					if len(h) > 0 {
						body = h[1:]
					}
					oldBlk = append(oldBlk, body)
					newBlk = append(newBlk, body)
					seenOld++
					seenNew++
				default:
					return "unexpected line in hunk: " + h
				}
			}
			// locate it: at the stated position, or at the nearest position (the file may have
			// gained or lost lines since the patch was written) where the old block matches
			matchAt := func(at int) bool {
				if at < pos || at+len(oldBlk) > len(src) {
					return false
				}
				for k, l := range oldBlk {
					if src[at+k] != l {
						return false
					}
				}
				return true
			}
			at := -1
			for d := 0; d <= len(src) && at < 0; d++ {
				if matchAt(start + d) {
					at = start + d
				} else if d > 0 && matchAt(start-d) {
					at = start - d
				}
			}
			if at < 0 {
				return fmt.Sprintf("hunk @@ -%d,%d of %s matches nowhere", ol, oc, cur)
			}
			out = append(out, src[pos:at]...)
			out = append(out, newBlk...)
			pos = at + len(oldBlk)
		}
	}
	flush()
	return ""
}
