package main

import (
	"encoding/json"
	"fmt"
	"os"
	"sort"
	"strings"

	"decverif/internal/props"
)

// writeManifest prints MANIFEST.json for the properties currently claimed.
func writeManifest() {
	type level struct {
		Category  string `json:"category"`
		Text      string `json:"text"`
		DesignRef string `json:"design_ref"`
	}
	type check struct {
		PropertyID string `json:"property_id"`
		Quick      string `json:"quick_cmd"`
		Thorough   string `json:"thorough_cmd"`
		Evidence   string `json:"evidence_file"`
		Replay     string `json:"replay_cmd_template"`
		Engine     string `json:"engine"`
		Level      level  `json:"level_claimed"`
		Note       string `json:"level_note"`
		Technique  string `json:"technique"`
	}
	type na struct {
		PropertyID string `json:"property_id"`
		Reason     string `json:"reason"`
	}
	var ids []string
	for id := range props.All {
		ids = append(ids, id)
	}
	sort.Strings(ids)
	var checks []check
	for _, id := range ids {
		p := props.All[id]
		checks = append(checks, check{
			PropertyID: id,
			Quick:      "/verif/bin/decverif -prop " + id + " -tier quick",
			Thorough:   "/verif/bin/decverif -prop " + id + " -tier thorough",
			Evidence:   "/verif/evidence/" + id + ".json",
			Replay:     "/verif/bin/decverif -replay {path}",
			Engine:     "decverif",
			Level: level{Category: "other",
				Text:      "Static analysis of /repo's current source decides structural clauses that are necessary for the property, for every path/call site/operand class rather than for sampled inputs. Decided: " + p.Decided + p.InheritedNote() + " Not decided: " + p.NotDecided,
				DesignRef: "DESIGN.md §4 " + id},
			Note:      strings.Join(p.Assume, "; "),
			Technique: "static analysis: " + p.Technique,
		})
	}
	nas := []na{}
	for i := 1; i <= 20; i++ {
		id := fmt.Sprintf("C%02d", i)
		if props.All[id] == nil {
			r := props.Pending[id]
			if r == "" {
				r = "no sound structural rule implemented for this property yet; not backed by running the library"
			}
			nas = append(nas, na{id, r})
		}
	}
	man := map[string]interface{}{
		"version":   1,
		"setup_cmd": "cd /verif/checker && export GOFLAGS=-mod=mod GOPROXY=off GOSUMDB=off GOTOOLCHAIN=local && GO126=$(command -v go1.26.8 || echo /opt/veriftools/go1.26.8/bin/go) && $GO126 build -o /verif/bin/decverif ./cmd/decverif && cd /repo && go build ./... ",
		"hooks": map[string]interface{}{
			"guard":            "verif",
			"enable":           "none needed: static analysis reads the source; no instrumentation of /repo exists",
			"baseline_off_cmd": "cd /repo && go test -vet=off -count=1 ./...",
			"source_commits":   []string{},
			"add_only":         true,
		},
		"engines": []map[string]interface{}{{
			"name": "decverif", "path": "/verif/checker", "serves_properties": ids,
			"kind_free_text": "custom static analyser over go/types + go/ssa (x/tools v0.50.0, built with go1.26.8), constants, assembly text and build constraints of /repo; see DESIGN.md §3",
		}},
		"checks":         checks,
		"not_applicable": nas,
		"notes":          "Exit codes: 0 all obligations discharged (KNOWN-FINDING lines possible), 1 VIOLATION, 2 ANALYSIS-ERROR (the analysis itself cannot be trusted: type-check failure, missing anchor, rule below its instance floor, blind control).",
	}
	b, _ := json.MarshalIndent(man, "", " ")
	os.Stdout.Write(append(b, '\n'))
}
