// decverif decides structural clauses of properties C01–C20 of db47h/decimal
// by static analysis of /repo's current source. See /verif/DESIGN.md.
package main

import (
	"encoding/json"
	"flag"
	"fmt"
	"os"
	"path/filepath"
	"runtime/debug"
	"sort"
	"strconv"
	"strings"
	"sync"
	"time"

	"decverif/internal/model"
	"decverif/internal/ob"
	"decverif/internal/props"
	"decverif/internal/rules"
)

var (
	flagProp    = flag.String("prop", "", "property id (C01..C20)")
	flagTier    = flag.String("tier", "quick", "quick | thorough")
	flagRepo    = flag.String("repo", "/repo", "repository to analyse")
	flagVerif   = flag.String("verif", "/verif", "verification directory (evidence, known findings, controls)")
	flagReplay  = flag.String("replay", "", "replay file written by an earlier run")
	flagRule    = flag.String("rule", "", "run a single rule and print all its obligations (debugging)")
	flagConfig  = flag.String("config", "amd64", "configuration for -rule")
	flagVerbose = flag.Bool("v", false, "print every obligation")
	flagNoCtl   = flag.Bool("nocontrols", false, "skip the control corpus")
	flagCtl     = flag.String("control", "", "run one control of the corpus and print the new violations (debugging)")
	flagDry     = flag.Bool("dry", false, "do not write evidence or replay files (used when checking scratch variants)")
	flagMan     = flag.Bool("manifest", false, "print MANIFEST.json for the claimed properties")
	flagEvalAll = flag.Bool("evalall", false, "run every rule once (quick configurations) and print, per property, the violations its selectors keep; used to evaluate scratch variants quickly (writes nothing)")
	flagPropTab = flag.Bool("proptable", false, "print the property -> rule selector table (markdown) that DESIGN.md carries")
	flagFP      = flag.Bool("fingerprints", false, "print internal/model/pinned_fp.go for the current tree")
	flagStrict  = flag.Bool("strict", false, "treat `fewer instances than on the unchanged tree` (floors, selectors that match nothing) as an ANALYSIS-ERROR; used when validating the checker itself")
)

func main() {
	flag.Parse()
	model.Strict = *flagStrict || os.Getenv("DECVERIF_STRICT") == "1"
	if t := os.Getenv("VERIF_TIER"); t != "" && !isFlagSet("tier") {
		*flagTier = t
	}
	code := 2
	func() {
		defer func() {
			if r := recover(); r != nil {
				if ae, ok := r.(model.AnalysisError); ok {
					fmt.Printf("ANALYSIS-ERROR: %s\n", ae.Msg)
					code = 2
					return
				}
				fmt.Printf("ANALYSIS-ERROR: internal panic in the checker: %v\n%s\n", r, debug.Stack())
				code = 2
			}
		}()
		switch {
		case *flagMan:
			writeManifest()
			code = 0
		case *flagPropTab:
			printPropTable()
			code = 0
		case *flagFP:
			printFingerprints()
			code = 0
		case *flagEvalAll:
			code = evalAll()
		case *flagCtl != "":
			code = debugControl(*flagCtl)
		case *flagReplay != "":
			code = replay(*flagReplay)
		case *flagRule != "":
			code = runRule(*flagRule, *flagConfig)
		case *flagProp != "":
			code = runProp(*flagProp, *flagTier)
		default:
			fmt.Println("usage: decverif -prop Cxx [-tier quick|thorough] | -replay file | -rule NAME [-config amd64|purego|386]")
		}
	}()
	os.Exit(code)
}

func isFlagSet(name string) bool {
	set := false
	flag.Visit(func(f *flag.Flag) {
		if f.Name == name {
			set = true
		}
	})
	return set
}

func configsFor(tier string) []string {
	if tier == "thorough" {
		return []string{"amd64", "purego", "386"}
	}
	return []string{"amd64"}
}

// splitSel splits a rule selector "RULE@sub1|sub2" into the rule name and the
// construct substrings it is restricted to (none = all constructs).
func splitSel(sel string) (string, []string) {
	if i := strings.Index(sel, "@"); i >= 0 {
		return sel[:i], strings.Split(sel[i+1:], "|")
	}
	return sel, nil
}

func selMatch(filters []string, construct string) bool {
	if len(filters) == 0 {
		return true
	}
	for _, f := range filters {
		if strings.Contains(construct, f) {
			return true
		}
	}
	return false
}

// runRules runs the selected rules on one configuration (optionally with an overlay).
func runRules(sels []string, cfg string, overlay map[string][]byte) (list []ob.Obligation, counts map[string]int) {
	m := model.Load(model.Config{Name: cfg, RepoDir: *flagRepo, Overlay: overlay})
	counts = map[string]int{}
	// several selectors may name the same rule: run it once
	type job struct {
		name    string
		filters [][]string
		all     bool
	}
	var jobs []*job
	byName := map[string]*job{}
	for _, sel := range sels {
		n, f := splitSel(sel)
		j := byName[n]
		if j == nil {
			j = &job{name: n}
			byName[n] = j
			jobs = append(jobs, j)
		}
		if len(f) == 0 {
			j.all = true
		} else {
			j.filters = append(j.filters, f)
		}
	}
	for _, j := range jobs {
		r := rules.Get(j.name)
		if r == nil {
			model.Fatal("rule %q is not registered", j.name)
		}
		if !r.AppliesTo(cfg) {
			continue
		}
		s := &ob.Set{Config: cfg}
		func() {
			// a rule that trips over a shape of code it was not written for (an index into a
			// parameter list that changed, a nil anchor) has nothing to say about that construct:
			// fatal when validating the checker on the unchanged tree, a shape note otherwise
			defer func() {
				if rec := recover(); rec != nil {
					if model.Strict && overlay == nil {
						panic(rec)
					}
					if ae, ok := rec.(model.AnalysisError); ok {
						// an anchor the rule is written around is not there (a type or a
						// function removed or renamed beyond recognition): nothing to check for
						// this rule on this tree — a shape note, like a floor that is not met
						m.Blind("rule %s: %s; what it had established up to that point is kept", j.name, ae.Msg)
						return
					}
					m.Blind("rule %s could not analyse part of this tree (%v); what it had established up to that point is kept", j.name, rec)
				}
			}()
			r.Run(m, s)
		}()
		total := 0
		for _, o := range s.List {
			if o.Verdict != ob.Info {
				total++
			}
		}
		if overlay == nil && cfg == "amd64" && total < r.Floor {
			m.Blind("rule %s matched %d constructs in configuration %s, below its floor %d", j.name, total, cfg, r.Floor)
		}
		c := 0
		for _, o := range s.List {
			keep := j.all
			for _, f := range j.filters {
				if selMatch(f, o.Construct) {
					keep = true
				}
			}
			if !keep {
				continue
			}
			if o.Verdict != ob.Info {
				c++
			}
			list = append(list, o)
		}
		counts[j.name] = c
		if overlay == nil && !j.all && c == 0 {
			m.Blind("selector %s@%v matched no construct of rule %s", j.name, j.filters, j.name)
		}
	}
	return
}

func runRule(name, cfg string) int {
	list, _ := runRules([]string{name}, cfg, nil)
	ob.SortObligations(list)
	bad := 0
	for _, o := range list {
		if o.Verdict == ob.Violation {
			bad++
		}
		if *flagVerbose || o.Verdict == ob.Violation {
			fmt.Println(o)
			if o.Verdict == ob.Violation {
				for _, p := range o.Path {
					fmt.Println("      " + p)
				}
			}
		}
	}
	fmt.Printf("rule %s config %s: %d obligations, %d violations\n", name, cfg, len(list), bad)
	if bad > 0 {
		return 1
	}
	return 0
}

func runProp(id, tier string) int {
	start := time.Now()
	p := props.All[id]
	if p == nil {
		model.Fatal("property %s is not claimed (see MANIFEST.json not_applicable)", id)
	}
	seed := int64(0)
	if v := os.Getenv("VERIF_SEED"); v != "" {
		seed, _ = strconv.ParseInt(v, 10, 64)
	}
	findings, err := ob.LoadFindings(filepath.Join(*flagVerif, "known_findings.json"))
	if err != nil {
		model.Fatal("known_findings.json: %v", err)
	}
	var all []ob.Obligation
	perCfg := map[string]map[string]int{}
	cfgs := configsFor(tier)
	if tier != "thorough" && len(p.QuickCfgs) > 0 {
		cfgs = p.QuickCfgs
	}
	for _, cfg := range cfgs {
		l, counts := runRules(p.AllRules(), cfg, nil)
		all = append(all, l...)
		perCfg[cfg] = counts
	}
	// shape notes of the analysed tree itself (the controls below analyse variants of it and may
	// add notes of their own, which do not belong in the evidence of this tree)
	shapeNotes := model.BlindNotes()
	for _, n := range shapeNotes {
		fmt.Println("NOTE (nothing to check, not an error): " + n)
	}
	ctl := controlReport{}
	if !*flagNoCtl {
		ctl = runControls(p, tier)
	}
	ob.SortObligations(all)

	// verdicts
	nViol, nKnown, nOK, nInfo := 0, 0, 0, 0
	var lines []string
	seenViolation := map[string]bool{}
	replayDir := filepath.Join(*flagVerif, "evidence", "replay")
	for i := range all {
		o := &all[i]
		switch o.Verdict {
		case ob.OK:
			nOK++
		case ob.Info:
			nInfo++
		case ob.Violation:
			if f := ob.MatchKnown(findings, id, *o); f != nil {
				o.Verdict = ob.Known
				nKnown++
				k := "K" + o.Key()
				if !seenViolation[k] {
					seenViolation[k] = true
					lines = append(lines, fmt.Sprintf("KNOWN-FINDING: property=%s %s %s — %s", id, o.Rule, o.Construct, f.What))
				}
				continue
			}
			nViol++
			if seenViolation[o.Key()] {
				continue
			}
			seenViolation[o.Key()] = true
			rp := filepath.Join(replayDir, fmt.Sprintf("%s-%s.json", id, sanitize(o.Key())))
			if !*flagDry {
				os.MkdirAll(replayDir, 0o755)
			}
			writeReplay(rp, map[string]interface{}{"property": id, "rule": o.Rule, "construct": o.Construct, "config": o.Config, "pos": o.Pos, "detail": o.Detail, "path": o.Path})
			fmt.Printf("FAIL %s %s at %s [%s]: %s\n", o.Rule, o.Construct, o.Pos, o.Config, o.Detail)
			for _, s := range o.Path {
				fmt.Printf("      %s\n", s)
			}
			lines = append(lines, fmt.Sprintf("VIOLATION property=%s replay=%s", id, rp))
		}
	}
	if *flagVerbose {
		for _, o := range all {
			fmt.Println(o)
		}
	}

	obligations := nOK + nViol + nKnown
	expl := "Static analysis (level other). Decided: " + p.Decided + p.InheritedNote() + " NOT decided: " + p.NotDecided
	var cfgNames []string
	for c := range perCfg {
		cfgNames = append(cfgNames, c)
	}
	sort.Strings(cfgNames)
	ev := ob.Evidence{
		PropertyID: id, Tier: tier, Seed: seed, Level: "other",
		Coverage: map[string]interface{}{
			"explanation":         expl,
			"shape_notes":         shapeNotes,
			"obligations":         obligations,
			"discharged":          nOK,
			"known_findings":      nKnown,
			"evaluations":         obligations,
			"distinct_nontrivial": ob.Distinct(all),
			"rule":                "one obligation per rule instance (rule + construct found in /repo's source as loaded by this run); distinct = distinct rule+construct keys; info records (unconstrained cells, observations) are not counted",
			"samples":             ob.Samples(all, 24),
			"rules":               p.Rules,
			"inherited_rules":     p.Uses,
			"per_rule":            ob.Summarize(all),
			"per_config_counts":   perCfg,
			"configurations":      cfgNames,
			"controls":            ctl,
			"info_records":        nInfo,
			"exhaustive":          false,
			"checker_cmd":         strings.Join(os.Args, " "),
		},
		Assumptions: p.Assume,
		WallS:       time.Since(start).Seconds(),
		Violations:  nViol,
	}
	if !*flagDry {
		os.MkdirAll(filepath.Join(*flagVerif, "evidence"), 0o755)
		if err := ob.WriteJSON(filepath.Join(*flagVerif, "evidence", id+".json"), ev); err != nil {
			model.Fatal("writing evidence: %v", err)
		}
	}
	for _, l := range lines {
		fmt.Println(l)
	}
	fmt.Printf("%s tier=%s: %d obligations over %v, %d discharged, %d known findings, %d violations; controls: %d run, %d fired, %d negative silent, %d skipped; %.1fs\n",
		id, tier, obligations, cfgNames, nOK, nKnown, nViol, ctl.Run, ctl.Fired, ctl.Silent, ctl.Skipped, time.Since(start).Seconds())
	// a violation is the verdict, whatever the controls say
	if nViol > 0 {
		return 1
	}
	// The controls validate the checker on the tree it was confirmed on. Under -strict (how the
	// checker is validated before a commit) a positive control that does not fire or a negative one
	// that alarms is fatal. Run without -strict — on whatever tree /repo holds now — the same
	// outcome says that this tree has another shape than the one the control was written for; it
	// is recorded in the evidence (controls.blind_names / false_names) and shown, and the verdict
	// of the rules stands.
	if ctl.Blind > 0 {
		if model.Strict {
			model.Fatal("%d control(s) applied but did not fire: %v", ctl.Blind, ctl.BlindNames)
		}
		fmt.Printf("NOTE (controls): %d control(s) applied but did not fire on this tree: %v\n", ctl.Blind, ctl.BlindNames)
	}
	if ctl.FalseAlarm > 0 {
		if model.Strict {
			model.Fatal("%d negative control(s) raised an alarm: %v", ctl.FalseAlarm, ctl.FalseNames)
		}
		fmt.Printf("NOTE (controls): %d negative control(s) raised an alarm on this tree: %v\n", ctl.FalseAlarm, ctl.FalseNames)
	}
	return 0
}

func writeReplay(path string, v interface{}) {
	if *flagDry {
		return
	}
	ob.WriteJSON(path, v)
}

func sanitize(s string) string {
	var b strings.Builder
	for _, r := range s {
		switch {
		case r >= 'a' && r <= 'z', r >= 'A' && r <= 'Z', r >= '0' && r <= '9', r == '-', r == '_', r == '.':
			b.WriteRune(r)
		default:
			b.WriteByte('_')
		}
	}
	out := b.String()
	if len(out) > 120 {
		out = out[:120]
	}
	return out
}

func replay(path string) int {
	b, err := os.ReadFile(path)
	if err != nil {
		model.Fatal("replay: %v", err)
	}
	var r struct {
		Property, Rule, Construct, Config string
	}
	if err := json.Unmarshal(b, &r); err != nil {
		model.Fatal("replay: %v", err)
	}
	base := r.Rule
	if i := strings.IndexAny(base, "(:/"); i > 0 {
		base = base[:i]
	}
	if r.Config == "" {
		r.Config = "amd64"
	}
	list, _ := runRules([]string{base}, r.Config, nil)
	code := 0
	found := false
	for _, o := range list {
		if o.Rule == r.Rule && o.Construct == r.Construct {
			found = true
			fmt.Println(o)
			for _, s := range o.Path {
				fmt.Printf("      %s\n", s)
			}
			if o.Verdict == ob.Violation {
				code = 1
			}
		}
	}
	if rr := rules.Get(base); rr != nil {
		fmt.Printf("rule %s: %s\n", base, rr.Doc)
	}
	if !found {
		fmt.Printf("obligation %s/%s no longer exists on the current tree\n", r.Rule, r.Construct)
	}
	if code == 1 {
		fmt.Printf("VIOLATION property=%s replay=%s\n", r.Property, path)
	}
	return code
}

// evalAll: one pass over all rules per configuration, violations attributed to the properties whose
// selectors keep them. Output format is that of eval_patch.sh.
func evalAll() int {
	findings, _ := ob.LoadFindings(filepath.Join(*flagVerif, "known_findings.json"))
	var ids []string
	for id := range props.All {
		ids = append(ids, id)
	}
	sort.Strings(ids)
	cfgRules := map[string]map[string]bool{}
	cfgsOf := func(p *props.Prop) []string {
		if len(p.QuickCfgs) > 0 {
			return p.QuickCfgs
		}
		return []string{"amd64"}
	}
	for _, id := range ids {
		p := props.All[id]
		for _, c := range cfgsOf(p) {
			if cfgRules[c] == nil {
				cfgRules[c] = map[string]bool{}
			}
			for _, sel := range p.AllRules() {
				n, _ := splitSel(sel)
				cfgRules[c][n] = true
			}
		}
	}
	obs := map[string][]ob.Obligation{}
	errs := map[string]string{}
	var mu sync.Mutex
	var wg sync.WaitGroup
	sem := make(chan struct{}, 12)
	for c, rs := range cfgRules {
		for n := range rs {
			wg.Add(1)
			go func(c, n string) {
				defer wg.Done()
				sem <- struct{}{}
				defer func() { <-sem }()
				defer func() {
					if r := recover(); r != nil {
						mu.Lock()
						defer mu.Unlock()
						if ae, ok := r.(model.AnalysisError); ok {
							errs[c+"/"+n] = ae.Msg
							return
						}
						errs[c+"/"+n] = fmt.Sprint(r)
					}
				}()
				l, _ := runRules([]string{n}, c, nil)
				mu.Lock()
				obs[c] = append(obs[c], l...)
				mu.Unlock()
			}(c, n)
		}
	}
	wg.Wait()
	for c := range obs {
		ob.SortObligations(obs[c])
	}
	var fired, errd []string
	for _, id := range ids {
		p := props.All[id]
		hit, bad := false, false
		seen := map[string]bool{}
		for _, c := range cfgsOf(p) {
			for _, sel := range p.AllRules() {
				n, f := splitSel(sel)
				if e, ok := errs[c+"/"+n]; ok {
					if !seen["E"+e] {
						seen["E"+e] = true
						fmt.Printf("    [%s] ANALYSIS-ERROR: %s\n", id, e)
					}
					bad = true
				}
				for _, o := range obs[c] {
					if o.Verdict != ob.Violation || !ob.RuleMatches(o.Rule, n) || !selMatch(f, o.Construct) {
						continue
					}
					if ob.MatchKnown(findings, id, o) != nil {
						continue
					}
					k := o.Key() + c
					if seen[k] {
						continue
					}
					seen[k] = true
					hit = true
					fmt.Printf("    [%s] FAIL %s %s at %s [%s]: %s\n", id, o.Rule, o.Construct, o.Pos, c, o.Detail)
				}
			}
		}
		if hit {
			fired = append(fired, id)
		}
		if bad {
			errd = append(errd, id)
		}
	}
	none := func(l []string) string {
		if len(l) == 0 {
			return "none"
		}
		return strings.Join(l, " ")
	}
	fmt.Printf("VIOLATION in: %s  ANALYSIS-ERROR in: %s\n", none(fired), none(errd))
	return 0
}

func printPropTable() {
	esc := func(l []string) string {
		var out []string
		for _, r := range l {
			out = append(out, "`"+strings.ReplaceAll(r, "|", "\\|")+"`")
		}
		return strings.Join(out, " · ")
	}
	fmt.Println("| property | own rule selectors (`RULE@a|b` = the constructs of RULE containing a or b) | inherited from the layers it is built on |")
	fmt.Println("|---|---|---|")
	var ids []string
	for id := range props.All {
		ids = append(ids, id)
	}
	sort.Strings(ids)
	for _, id := range ids {
		p := props.All[id]
		inh := p.AllRules()[len(p.Rules):]
		fmt.Printf("| %s | %s | %s |\n", id, esc(p.Rules), esc(inh))
	}
}

func printFingerprints() {
	fmt.Println("package model")
	fmt.Println()
	fmt.Println("// pinnedFP: construct name -> body fingerprint, per configuration, of the tree the rule tables were")
	fmt.Println("// confirmed on. Generated by `decverif -fingerprints` (see fingerprint.go); regenerate after a")
	fmt.Println("// fix: commit in /repo.")
	fmt.Println("var pinnedFP = map[string]map[string]string{")
	for _, cfg := range []string{"amd64", "purego", "386"} {
		m := model.Load(model.Config{Name: cfg, RepoDir: *flagRepo})
		fmt.Printf("\t%q: {\n", cfg)
		type e struct{ n, fp string }
		var es []e
		for _, fn := range m.Funcs {
			if fn.Parent() != nil {
				continue
			}
			es = append(es, e{m.FuncName(fn), m.Fingerprint(fn)})
		}
		sort.Slice(es, func(i, j int) bool { return es[i].n < es[j].n })
		for _, x := range es {
			fmt.Printf("\t\t%q: %q,\n", x.n, x.fp)
		}
		fmt.Println("\t},")
	}
	fmt.Println("}")
	fmt.Println()
	fmt.Println("// pinnedFP2: the refined fingerprints (body + names of the in-package callees).")
	fmt.Println("var pinnedFP2 = map[string]map[string]string{")
	for _, cfg := range []string{"amd64", "purego", "386"} {
		m := model.Load(model.Config{Name: cfg, RepoDir: *flagRepo})
		fmt.Printf("\t%q: {\n", cfg)
		type e struct{ n, fp string }
		var es []e
		for _, fn := range m.Funcs {
			if fn.Parent() != nil {
				continue
			}
			es = append(es, e{m.FuncName(fn), m.Fingerprint2(fn)})
		}
		sort.Slice(es, func(i, j int) bool { return es[i].n < es[j].n })
		for _, x := range es {
			fmt.Printf("\t\t%q: %q,\n", x.n, x.fp)
		}
		fmt.Println("\t},")
	}
	fmt.Println("}")
}
