module decverif

go 1.26.0

require golang.org/x/tools v0.50.0

require (
	golang.org/x/mod v0.41.0 // indirect
	golang.org/x/sync v0.23.0 // indirect
)
