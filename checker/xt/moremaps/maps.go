// Copyright 2023 The Go Authors. All rights reserved.
// Use of this source code is governed by a BSD-style
// license that can be found in the LICENSE file.

// Package moremaps contains more functions for working with maps.
package moremaps

import (
	"cmp"
	"iter"
	"maps"
	"slices"
)

// Arbitrary returns an arbitrary (key, value) entry from the map and ok is true, if
// the map is not empty. Otherwise, it returns zero values for K and V, and false.
func Arbitrary[K comparable, V any](m map[K]V) (_ K, _ V, ok bool) {
	for k, v := range m {
		return k, v, true
	}
	return
}

// Group returns a new non-nil map containing the elements of s grouped by the
// keys returned from the key func.
func Group[K comparable, V any](s []V, key func(V) K) map[K][]V {
	m := make(map[K][]V)
	for _, v := range s {
		k := key(v)
		m[k] = append(m[k], v)
	}
	return m
}

// KeySlice returns the keys of the map M, like slices.Collect(maps.Keys(m)).
func KeySlice[M ~map[K]V, K comparable, V any](m M) []K {
	r := make([]K, 0, len(m))
	for k := range m {
		r = append(r, k)
	}
	return r
}

// ValueSlice returns the values of the map M, like slices.Collect(maps.Values(m)).
func ValueSlice[M ~map[K]V, K comparable, V any](m M) []V {
	r := make([]V, 0, len(m))
	for _, v := range m {
		r = append(r, v)
	}
	return r
}

// SameKeys reports whether x and y have equal sets of keys.
func SameKeys[K comparable, V1, V2 any](x map[K]V1, y map[K]V2) bool {
	ignoreValues := func(V1, V2) bool { return true }
	return maps.EqualFunc(x, y, ignoreValues)
}

// Sorted returns an iterator over the entries of m in key order.
func Sorted[M ~map[K]V, K cmp.Ordered, V any](m M) iter.Seq2[K, V] {
	// TODO(adonovan): use maps.Sorted if proposal #68598 is accepted.
	return func(yield func(K, V) bool) {
		keys := KeySlice(m)
		slices.Sort(keys)
		for _, k := range keys {
			if !yield(k, m[k]) {
				break
			}
		}
	}
}

// SortedFunc returns an iterator over the entries of m in the key order determined by cmp.
func SortedFunc[M ~map[K]V, K comparable, V any](m M, cmp func(x, y K) int) iter.Seq2[K, V] {
	// TODO(adonovan): use maps.SortedFunc if proposal #68598 is accepted.
	return func(yield func(K, V) bool) {
		keys := KeySlice(m)
		slices.SortFunc(keys, cmp)
		for _, k := range keys {
			if !yield(k, m[k]) {
				break
			}
		}
	}
}

// Delete is like delete(m, k) but reports whether deletion occurred.
func Delete[M ~map[K]V, K comparable, V any](m M, k K) bool {
	pre := len(m)
	delete(m, k)
	return pre != len(m)
}

// Entry is a key-value pair obtained from a map.
type Entry[K comparable, V any] struct {
	Key   K
	Value V
}

// Entries returns a new unordered array of the entries of a map.
func Entries[M ~map[K]V, K comparable, V any](m M) []Entry[K, V] {
	entries := make([]Entry[K, V], 0, len(m))
	for k, v := range m {
		entries = append(entries, Entry[K, V]{k, v})
	}
	return entries
}

// FromEntries returns a new map into which the entries have been inserted in order.
func FromEntries[K comparable, V any](entries []Entry[K, V]) map[K]V {
	m := make(map[K]V, len(entries))
	for _, e := range entries {
		m[e.Key] = e.Value
	}
	return m
}
