// Copyright 2025 The Go Authors. All rights reserved.
// Use of this source code is governed by a BSD-style
// license that can be found in the LICENSE file.

// Package refactor provides operators to compute common textual edits
// for refactoring tools.
//
// This package should not use features of the analysis API other than [Edit].
package refactor

import (
	"fmt"
	"go/token"
	"go/types"
)

// FreshName returns the name of an identifier that is undefined
// at the specified position, based on the preferred name.
//
// export/use freshName in go/analysis/passes/modernize/modernize.go if you want
// to generate a fresh name only when necessary (i.e., there is both an existing
// declaration and some free reference to the name within a narrower scope)
func FreshName(scope *types.Scope, pos token.Pos, preferred string) string {
	newName := preferred
	for i := 0; ; i++ {
		if _, obj := scope.LookupParent(newName, pos); obj == nil {
			break // fresh
		}
		newName = fmt.Sprintf("%s%d", preferred, i)
	}
	return newName
}
