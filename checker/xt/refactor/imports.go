// Copyright 2025 The Go Authors. All rights reserved.
// Use of this source code is governed by a BSD-style
// license that can be found in the LICENSE file.

package refactor

// This file defines operations for computing edits to imports.

import (
	"go/ast"
	"go/token"
	"go/types"
	pathpkg "path"
	"strconv"

	"decverif/xt/packagepath"
)

// AddImport returns the prefix (either "pkg." or "") that should be
// used to qualify references to the desired symbol (member) imported
// from the specified package, plus any necessary edits to the file's
// import declaration to add a new import.
//
// If the import already exists, and is accessible at pos, AddImport
// returns the existing name and no edits. (If the existing import is
// a dot import, the prefix is "".)
//
// Otherwise, it adds a new import, using a local name derived from
// the preferred name. To request a blank import, use a preferredName
// of "_", and discard the prefix result; member is ignored in this
// case.
//
// AddImport accepts the caller's implicit claim that the imported
// package declares member.
//
// AddImport does not mutate its arguments.
func AddImport(info *types.Info, file *ast.File, preferredName, pkgpath, member string, pos token.Pos) (prefix string, edits []Edit) {
	// Find innermost enclosing lexical block.
	scope := info.Scopes[file].Innermost(pos)
	if scope == nil {
		panic("no enclosing lexical block")
	}

	// Is there an existing import of this package?
	// If so, are we in its scope? (not shadowed)
	for _, spec := range file.Imports {
		pkgname := info.PkgNameOf(spec)
		if pkgname != nil && pkgname.Imported().Path() == pkgpath {
			name := pkgname.Name()
			if preferredName == "_" {
				// Request for blank import; any existing import will do.
				return "", nil
			}
			if name == "." {
				// The scope of ident must be the file scope.
				if s, _ := scope.LookupParent(member, pos); s == info.Scopes[file] {
					return "", nil
				}
			} else if _, obj := scope.LookupParent(name, pos); obj == pkgname {
				return name + ".", nil
			}
		}
	}

	// We must add a new import.

	// Ensure we have a fresh name.
	newName := preferredName
	if preferredName != "_" {
		newName = FreshName(scope, pos, preferredName)
		prefix = newName + "."
	}

	// Use a renaming import whenever the preferred name is not
	// available, or the chosen name does not match the last
	// segment of its path.
	if newName == preferredName && newName == pathpkg.Base(pkgpath) {
		newName = ""
	}

	return prefix, AddImportEdits(file, newName, pkgpath)
}

// AddImportEdits returns the edits to add an import of the specified
// package, without any analysis of whether this is necessary or safe.
// If name is nonempty, it is used as an explicit [ImportSpec.Name].
//
// A sequence of calls to AddImportEdits that each add the file's
// first import (or in a file that does not have a grouped import) may
// result in multiple import declarations, rather than a single one
// with multiple ImportSpecs. However, a subsequent run of
// x/tools/cmd/goimports ([imports.Process]) will combine them.
//
// AddImportEdits does not mutate the AST.
func AddImportEdits(file *ast.File, name, pkgpath string) []Edit {
	newText := strconv.Quote(pkgpath)
	if name != "" {
		newText = name + " " + newText
	}

	// Create a new import declaration either before the first existing
	// declaration (if it exists), including its comments; or at the end of the
	// file (if there are no decls); or inside the declaration, if it is an
	// import group.
	var (
		before token.Pos
		decl0  ast.Decl
	)
	if len(file.Decls) > 0 {
		decl0 = file.Decls[0]
		before = decl0.Pos()
		switch decl0 := decl0.(type) {
		case *ast.GenDecl:
			if decl0.Doc != nil {
				before = decl0.Doc.Pos()
			}
		case *ast.FuncDecl:
			if decl0.Doc != nil {
				before = decl0.Doc.Pos()
			}
		}
	} else {
		before = file.FileEnd
	}
	var pos token.Pos
	if gd, ok := decl0.(*ast.GenDecl); ok && gd.Tok == token.IMPORT && gd.Rparen.IsValid() {
		// Have existing grouped import ( ... ) decl.
		if packagepath.MaybeStdPackage(pkgpath) && len(gd.Specs) > 0 {
			// Add spec for a std package before
			// first existing spec, followed by
			// a blank line if the next one is non-std.
			first := gd.Specs[0].(*ast.ImportSpec)
			pos = first.Pos()
			if !packagepath.MaybeStdPackage(first.Path.Value) {
				newText += "\n"
			}
			newText += "\n\t"
		} else {
			// Add spec at end of group.
			pos = gd.Rparen
			newText = "\t" + newText + "\n"
		}
	} else {
		// No import decl, or non-grouped import.
		// Add a new import decl before first decl.
		// (gofmt will merge multiple import decls.)
		//
		// TODO(adonovan): do better here; plunder the
		// mergeImports logic from [imports.Process].
		pos = before
		newText = "import " + newText + "\n\n"
	}
	return []Edit{{
		Pos:     pos,
		End:     pos,
		NewText: []byte(newText),
	}}
}
