// Copyright 2025 The Go Authors. All rights reserved.
// Use of this source code is governed by a BSD-style
// license that can be found in the LICENSE file.p

package refactor

// This is the only file in this package that should import analysis.
//
// TODO(adonovan): consider unaliasing the type to break the
// dependency. (The ergonomics of slice append are unfortunate.)

import "golang.org/x/tools/go/analysis"

// An Edit describes a deletion and/or an insertion.
type Edit = analysis.TextEdit
