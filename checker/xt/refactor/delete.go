// Copyright 2025 The Go Authors. All rights reserved.
// Use of this source code is governed by a BSD-style
// license that can be found in the LICENSE file.

package refactor

// This file defines operations for computing deletion edits.

import (
	"fmt"
	"go/ast"
	"go/token"
	"go/types"
	"slices"

	"golang.org/x/tools/go/ast/edge"
	"golang.org/x/tools/go/ast/inspector"
	"decverif/xt/astutil"
	"decverif/xt/typesinternal"
	"decverif/xt/typesinternal/typeindex"
)

// DeleteVar returns edits to delete the declaration of a variable or
// constant whose defining identifier is curId.
//
// It handles variants including:
// - GenDecl > ValueSpec versus AssignStmt;
// - RHS expression has effects, or not;
// - entire statement/declaration may be eliminated;
// and removes associated comments.
//
// If it cannot make the necessary edits, such as for a function
// parameter or result, it returns nil.
func DeleteVar(tokFile *token.File, info *types.Info, curId inspector.Cursor) []Edit {
	switch curId.ParentEdgeKind() {
	case edge.ValueSpec_Names:
		return deleteVarFromValueSpec(tokFile, info, curId)

	case edge.AssignStmt_Lhs:
		return deleteVarFromAssignStmt(tokFile, info, curId)
	}

	// e.g. function receiver, parameter, or result,
	// or "switch v := expr.(T) {}" (which has no object).
	return nil
}

// deleteVarFromValueSpec returns edits to delete the declaration of a
// variable or constant within a ValueSpec.
//
// Precondition: curId is Ident beneath ValueSpec.Names beneath GenDecl.
//
// See also [deleteVarFromAssignStmt], which has parallel structure.
func deleteVarFromValueSpec(tokFile *token.File, info *types.Info, curIdent inspector.Cursor) []Edit {
	var (
		id      = curIdent.Node().(*ast.Ident)
		curSpec = curIdent.Parent()
		spec    = curSpec.Node().(*ast.ValueSpec)
	)

	declaresOtherNames := slices.ContainsFunc(spec.Names, func(name *ast.Ident) bool {
		return name != id && name.Name != "_"
	})
	noRHSEffects := !slices.ContainsFunc(spec.Values, func(rhs ast.Expr) bool {
		return !typesinternal.NoEffects(info, rhs)
	})
	if !declaresOtherNames && noRHSEffects {
		// The spec is no longer needed, either to declare
		// other variables, or for its side effects.
		return DeleteSpec(tokFile, curSpec)
	}

	// The spec is still needed, either for
	// at least one LHS, or for effects on RHS.
	// Blank out or delete just one LHS.

	index := curIdent.ParentEdgeIndex() // index of LHS within ValueSpec.Names

	// If there is no RHS, we can delete the LHS.
	if len(spec.Values) == 0 {
		var pos, end token.Pos
		if index == len(spec.Names)-1 {
			// Delete final name.
			//
			// var _, lhs1 T
			//      ------
			pos = spec.Names[index-1].End()
			end = spec.Names[index].End()
		} else {
			// Delete non-final name.
			//
			// var lhs0, _ T
			//     ------
			pos = spec.Names[index].Pos()
			end = spec.Names[index+1].Pos()
		}
		return []Edit{{
			Pos: pos,
			End: end,
		}}
	}

	// If the assignment is n:n and the RHS has no effects,
	// we can delete the LHS and its corresponding RHS.
	if len(spec.Names) == len(spec.Values) &&
		typesinternal.NoEffects(info, spec.Values[index]) {

		if index == len(spec.Names)-1 {
			// Delete final items.
			//
			// var _, lhs1 = rhs0, rhs1
			//      ------       ------
			return []Edit{
				{
					Pos: spec.Names[index-1].End(),
					End: spec.Names[index].End(),
				},
				{
					Pos: spec.Values[index-1].End(),
					End: spec.Values[index].End(),
				},
			}
		} else {
			// Delete non-final items.
			//
			// var lhs0, _ = rhs0, rhs1
			//     ------    ------
			return []Edit{
				{
					Pos: spec.Names[index].Pos(),
					End: spec.Names[index+1].Pos(),
				},
				{
					Pos: spec.Values[index].Pos(),
					End: spec.Values[index+1].Pos(),
				},
			}
		}
	}

	// We cannot delete the RHS.
	// Blank out the LHS.
	return []Edit{{
		Pos:     id.Pos(),
		End:     id.End(),
		NewText: []byte("_"),
	}}
}

// Precondition: curId is Ident beneath AssignStmt.Lhs.
//
// See also [deleteVarFromValueSpec], which has parallel structure.
func deleteVarFromAssignStmt(tokFile *token.File, info *types.Info, curIdent inspector.Cursor) []Edit {
	var (
		id      = curIdent.Node().(*ast.Ident)
		curStmt = curIdent.Parent()
		assign  = curStmt.Node().(*ast.AssignStmt)
	)

	declaresOtherNames := slices.ContainsFunc(assign.Lhs, func(lhs ast.Expr) bool {
		lhsId, ok := lhs.(*ast.Ident)
		return ok && lhsId != id && lhsId.Name != "_"
	})
	noRHSEffects := !slices.ContainsFunc(assign.Rhs, func(rhs ast.Expr) bool {
		return !typesinternal.NoEffects(info, rhs)
	})
	if !declaresOtherNames && noRHSEffects {
		// The assignment is no longer needed, either to
		// declare other variables, or for its side effects.
		if edits := DeleteStmt(tokFile, curStmt); edits != nil {
			return edits
		}
		// Statement could not not be deleted in this context.
		// Fall back to conservative deletion.
	}

	// The assign is still needed, either for
	// at least one LHS, or for effects on RHS,
	// or because it cannot deleted because of its context.
	// Blank out or delete just one LHS.

	// If the assignment is 1:1 and the RHS has no effects,
	// we can delete the LHS and its corresponding RHS.
	index := curIdent.ParentEdgeIndex()
	if len(assign.Lhs) > 1 &&
		len(assign.Lhs) == len(assign.Rhs) &&
		typesinternal.NoEffects(info, assign.Rhs[index]) {

		if index == len(assign.Lhs)-1 {
			// Delete final items.
			//
			// _, lhs1 := rhs0, rhs1
			//  ------        ------
			return []Edit{
				{
					Pos: assign.Lhs[index-1].End(),
					End: assign.Lhs[index].End(),
				},
				{
					Pos: assign.Rhs[index-1].End(),
					End: assign.Rhs[index].End(),
				},
			}
		} else {
			// Delete non-final items.
			//
			// lhs0, _ := rhs0, rhs1
			// ------     ------
			return []Edit{
				{
					Pos: assign.Lhs[index].Pos(),
					End: assign.Lhs[index+1].Pos(),
				},
				{
					Pos: assign.Rhs[index].Pos(),
					End: assign.Rhs[index+1].Pos(),
				},
			}
		}
	}

	// We cannot delete the RHS.
	// Blank out the LHS.
	edits := []Edit{{
		Pos:     id.Pos(),
		End:     id.End(),
		NewText: []byte("_"),
	}}

	// If this eliminates the final variable declared by
	// an := statement, we need to turn it into an =
	// assignment to avoid a "no new variables on left
	// side of :=" error.
	if !declaresOtherNames {
		edits = append(edits, Edit{
			Pos:     assign.TokPos,
			End:     assign.TokPos + token.Pos(len(":=")),
			NewText: []byte("="),
		})
	}

	return edits
}

// DeleteSpec returns edits to delete the {Type,Value}Spec identified by curSpec.
//
// TODO(adonovan): add test suite. Test for consts as well.
func DeleteSpec(tokFile *token.File, curSpec inspector.Cursor) []Edit {
	var (
		spec    = curSpec.Node().(ast.Spec)
		curDecl = curSpec.Parent()
		decl    = curDecl.Node().(*ast.GenDecl)
	)

	// If it is the sole spec in the decl,
	// delete the entire decl.
	if len(decl.Specs) == 1 {
		return DeleteDecl(tokFile, curDecl)
	}

	// Delete the spec and its comments.
	index := curSpec.ParentEdgeIndex() // index of ValueSpec within GenDecl.Specs
	pos, end := spec.Pos(), spec.End()
	if doc := astutil.DocComment(spec); doc != nil {
		pos = doc.Pos() // leading comment
	}
	if index == len(decl.Specs)-1 {
		// Delete final spec.
		if c := eolComment(spec); c != nil {
			//  var (v int // comment \n)
			end = c.End()
		}
	} else {
		// Delete non-final spec.
		//   var ( a T; b T )
		//         -----
		end = decl.Specs[index+1].Pos()
	}
	return []Edit{{
		Pos: pos,
		End: end,
	}}
}

// DeleteDecl returns edits to delete the ast.Decl identified by curDecl.
//
// TODO(adonovan): add test suite.
func DeleteDecl(tokFile *token.File, curDecl inspector.Cursor) []Edit {
	decl := curDecl.Node().(ast.Decl)

	ek := curDecl.ParentEdgeKind()
	switch ek {
	case edge.DeclStmt_Decl:
		return DeleteStmt(tokFile, curDecl.Parent())

	case edge.File_Decls:
		pos, end := decl.Pos(), decl.End()
		if doc := astutil.DocComment(decl); doc != nil {
			pos = doc.Pos()
		}

		// Delete free-floating comments on same line as rparen.
		//    var (...) // comment
		var (
			file        = curDecl.Parent().Node().(*ast.File)
			lineOf      = tokFile.Line
			declEndLine = lineOf(decl.End())
		)
		for _, cg := range file.Comments {
			for _, c := range cg.List {
				if c.Pos() < end {
					continue // too early
				}
				commentEndLine := lineOf(c.End())
				if commentEndLine > declEndLine {
					break // too late
				} else if lineOf(c.Pos()) == declEndLine && commentEndLine == declEndLine {
					end = c.End()
				}
			}
		}

		return []Edit{{
			Pos: pos,
			End: end,
		}}

	default:
		panic(fmt.Sprintf("Decl parent is %v, want DeclStmt or File", ek))
	}
}

// find leftmost Pos bigger than start and rightmost less than end
func filterPos(nds []*ast.Comment, start, end token.Pos) (token.Pos, token.Pos, bool) {
	l, r := end, token.NoPos
	ok := false
	for _, n := range nds {
		if n.Pos() > start && n.Pos() < l {
			l = n.Pos()
			ok = true
		}
		if n.End() <= end && n.End() > r {
			r = n.End()
			ok = true
		}
	}
	return l, r, ok
}

// DeleteStmt returns the edits to remove the [ast.Stmt] identified by
// curStmt if it recognizes the context. It returns nil otherwise.
// TODO(pjw, adonovan): it should not return nil, it should return an error
//
// DeleteStmt is called with just the AST so it has trouble deciding if
// a comment is associated with the statement to be deleted. For instance,
//
//	for /*A*/ init()/*B*/;/*C/cond()/*D/;/*E*/post() /*F*/ { /*G*/}
//
// comment B and C are indistinguishable, as are D and E. That is, as the
// AST does not say where the semicolons are, B and C could go either
// with the init() or the cond(), so cannot be removed safely. The same
// is true for D, E, and the post(). (And there are other similar cases.)
// But the other comments can be removed as they are unambiguously
// associated with the statement being deleted. In particular,
// it removes whole lines like
//
//	stmt // comment
func DeleteStmt(file *token.File, curStmt inspector.Cursor) []Edit {
	// if the stmt is on a line by itself, or a range of lines, delete the whole thing
	// including comments. Except for the heads of switches, type
	// switches, and for-statements that's the usual case. Complexity occurs where
	// there are multiple statements on the same line, and adjacent comments.

	// In that case we remove some adjacent comments:
	// In me()/*A*/;b(), comment A cannot be removed, because the ast
	// is indistinguishable from me();/*A*/b()
	// and the same for cases like switch me()/*A*/; x.(type) {

	// this would be more precise with the file contents, or if the ast
	// contained the location of semicolons
	var (
		stmt          = curStmt.Node().(ast.Stmt)
		tokFile       = file
		lineOf        = tokFile.Line
		stmtStartLine = lineOf(stmt.Pos())
		stmtEndLine   = lineOf(stmt.End())

		leftSyntax, rightSyntax     token.Pos      // pieces of parent node on stmt{Start,End}Line
		leftComments, rightComments []*ast.Comment // comments before/after stmt on the same line
	)

	// remember the Pos that are on the same line as stmt
	use := func(left, right token.Pos) {
		if lineOf(left) == stmtStartLine {
			leftSyntax = left
		}
		if lineOf(right) == stmtEndLine {
			rightSyntax = right
		}
	}

	// find the comments, if any, on the same line
Big:
	for _, cg := range astutil.EnclosingFile(curStmt).Comments {
		for _, co := range cg.List {
			if lineOf(co.End()) < stmtStartLine {
				continue
			} else if lineOf(co.Pos()) > stmtEndLine {
				break Big // no more are possible
			}
			if lineOf(co.End()) == stmtStartLine && co.End() <= stmt.Pos() {
				// comment is before the statement
				leftComments = append(leftComments, co)
			} else if lineOf(co.Pos()) == stmtEndLine && co.Pos() >= stmt.End() {
				// comment is after the statement
				rightComments = append(rightComments, co)
			}
		}
	}

	// find any other syntax on the same line
	var (
		leftStmt, rightStmt token.Pos // end/start positions of sibling statements in a []Stmt list
		inStmtList          = false
		curParent           = curStmt.Parent()
	)
	switch parent := curParent.Node().(type) {
	case *ast.BlockStmt:
		use(parent.Lbrace, parent.Rbrace)
		inStmtList = true
	case *ast.CaseClause:
		use(parent.Colon, curStmt.Parent().Parent().Node().(*ast.BlockStmt).Rbrace)
		inStmtList = true
	case *ast.CommClause:
		if parent.Comm == stmt {
			return nil // maybe the user meant to remove the entire CommClause?
		}
		use(parent.Colon, curStmt.Parent().Parent().Node().(*ast.BlockStmt).Rbrace)
		inStmtList = true
	case *ast.ForStmt:
		use(parent.For, parent.Body.Lbrace)
		// special handling, as init;cond;post BlockStmt is not a statement list
		if parent.Init != nil && parent.Cond != nil && stmt == parent.Init && lineOf(parent.Cond.Pos()) == lineOf(stmt.End()) {
			rightStmt = parent.Cond.Pos()
		} else if parent.Post != nil && parent.Cond != nil && stmt == parent.Post && lineOf(parent.Cond.End()) == lineOf(stmt.Pos()) {
			leftStmt = parent.Cond.End()
		}
	case *ast.IfStmt:
		switch stmt {
		case parent.Init:
			use(parent.If, parent.Body.Lbrace)
		case parent.Else:
			// stmt is the {...} in "if cond {} else {...}" and removing
			// it would require removing the 'else' keyword, but the ast
			// does not contain its position.
			return nil
		}
	case *ast.SwitchStmt:
		use(parent.Switch, parent.Body.Lbrace)
	case *ast.TypeSwitchStmt:
		if stmt == parent.Assign {
			return nil // don't remove .(type)
		}
		use(parent.Switch, parent.Body.Lbrace)
	default:
		return nil // not one of ours
	}

	if inStmtList {
		// find the siblings, if any, on the same line
		if prev, found := curStmt.PrevSibling(); found && lineOf(prev.Node().End()) == stmtStartLine {
			if _, ok := prev.Node().(ast.Stmt); ok {
				leftStmt = prev.Node().End() // preceding statement ends on same line
			}
		}
		if next, found := curStmt.NextSibling(); found && lineOf(next.Node().Pos()) == stmtEndLine {
			rightStmt = next.Node().Pos() // following statement begins on same line
		}
	}

	// compute the left and right limits of the edit
	var leftEdit, rightEdit token.Pos
	if leftStmt.IsValid() {
		leftEdit = stmt.Pos() // can't remove preceding comments: a()/*A*/; me()
	} else if leftSyntax.IsValid() {
		// remove intervening leftComments
		if a, _, ok := filterPos(leftComments, leftSyntax, stmt.Pos()); ok {
			leftEdit = a
		} else {
			leftEdit = stmt.Pos()
		}
	} else { // remove whole line
		for leftEdit = stmt.Pos(); lineOf(leftEdit) == stmtStartLine; leftEdit-- {
		}
		if leftEdit < stmt.Pos() {
			leftEdit++ // beginning of line
		}
	}
	if rightStmt.IsValid() {
		rightEdit = stmt.End() // can't remove following comments
	} else if rightSyntax.IsValid() {
		// remove intervening rightComments
		if _, b, ok := filterPos(rightComments, stmt.End(), rightSyntax); ok {
			rightEdit = b
		} else {
			rightEdit = stmt.End()
		}
	} else { // remove whole line
		fend := token.Pos(file.Base()) + token.Pos(file.Size())
		for rightEdit = stmt.End(); fend >= rightEdit && lineOf(rightEdit) == stmtEndLine; rightEdit++ {
		}
		// don't remove \n if there was other stuff earlier
		if leftSyntax.IsValid() || leftStmt.IsValid() {
			rightEdit--
		}
	}

	return []Edit{{Pos: leftEdit, End: rightEdit}}
}

// DeleteUnusedVars computes the edits required to delete the
// declarations of any local variables whose last uses are in the
// curDelend subtree, which is about to be deleted.
func DeleteUnusedVars(index *typeindex.Index, info *types.Info, tokFile *token.File, curDelend inspector.Cursor) []Edit {
	// TODO(adonovan): we might want to generalize this by
	// splitting the two phases below, so that we can gather
	// across a whole sequence of deletions then finally compute the
	// set of variables that are no longer wanted.

	// Count number of deletions of each var.
	delcount := make(map[*types.Var]int)
	for curId := range curDelend.Preorder((*ast.Ident)(nil)) {
		id := curId.Node().(*ast.Ident)
		if v, ok := info.Uses[id].(*types.Var); ok &&
			typesinternal.GetVarKind(v) == typesinternal.LocalVar { // always false before go1.25
			delcount[v]++
		}
	}

	// Delete declaration of each var that became unused.
	var edits []Edit
	for v, count := range delcount {
		if len(slices.Collect(index.Uses(v))) == count {
			if curDefId, ok := index.Def(v); ok {
				edits = append(edits, DeleteVar(tokFile, info, curDefId)...)
			}
		}
	}
	return edits
}

func eolComment(n ast.Node) *ast.CommentGroup {
	// TODO(adonovan): support:
	//    func f() {...} // comment
	switch n := n.(type) {
	case *ast.GenDecl:
		if !n.TokPos.IsValid() && len(n.Specs) == 1 {
			return eolComment(n.Specs[0])
		}
	case *ast.ValueSpec:
		return n.Comment
	case *ast.TypeSpec:
		return n.Comment
	}
	return nil
}
