// Copyright 2023 The Go Authors. All rights reserved.
// Use of this source code is governed by a BSD-style
// license that can be found in the LICENSE file.

package inline

// This file defines various common helpers.

import (
	"go/ast"
	"go/constant"
	"go/token"
	"go/types"
	"reflect"
	"strings"

	"decverif/xt/typeparams"
)

func is[T any](x any) bool {
	_, ok := x.(T)
	return ok
}

func btoi(b bool) int {
	if b {
		return 1
	} else {
		return 0
	}
}

func offsetOf(fset *token.FileSet, pos token.Pos) int {
	return fset.PositionFor(pos, false).Offset
}

// objectKind returns an object's kind (e.g. var, func, const, typename).
func objectKind(obj types.Object) string {
	return strings.TrimPrefix(strings.ToLower(reflect.TypeOf(obj).String()), "*types.")
}

// within reports whether pos is within the half-open interval [n.Pos, n.End).
func within(pos token.Pos, n ast.Node) bool {
	return n.Pos() <= pos && pos < n.End()
}

// trivialConversion reports whether it is safe to omit the implicit
// value-to-variable conversion that occurs in argument passing or
// result return. The only case currently allowed is converting from
// untyped constant to its default type (e.g. 0 to int).
//
// The reason for this check is that converting from A to B to C may
// yield a different result than converting A directly to C: consider
// 0 to int32 to any.
//
// trivialConversion under-approximates trivial conversions, as unfortunately
// go/types does not record the type of an expression *before* it is implicitly
// converted, and therefore it cannot distinguish typed constant
// expressions from untyped constant expressions. For example, in the
// expression `c + 2`, where c is a uint32 constant, trivialConversion does not
// detect that the default type of this expression is actually uint32, not untyped
// int.
//
// We could, of course, do better here by reverse engineering some of go/types'
// constant handling. That may or may not be worthwhile.
//
// Example: in func f() int32 { return 0 },
// the type recorded for 0 is int32, not untyped int;
// although it is Identical to the result var,
// the conversion is non-trivial.
func trivialConversion(fromValue constant.Value, from, to types.Type) bool {
	if fromValue != nil {
		var defaultType types.Type
		switch fromValue.Kind() {
		case constant.Bool:
			defaultType = types.Typ[types.Bool]
		case constant.String:
			defaultType = types.Typ[types.String]
		case constant.Int:
			defaultType = types.Typ[types.Int]
		case constant.Float:
			defaultType = types.Typ[types.Float64]
		case constant.Complex:
			defaultType = types.Typ[types.Complex128]
		default:
			return false
		}
		return types.Identical(defaultType, to)
	}
	return types.Identical(from, to)
}

func checkInfoFields(info *types.Info) {
	assert(info.Defs != nil, "types.Info.Defs is nil")
	assert(info.Implicits != nil, "types.Info.Implicits is nil")
	assert(info.Scopes != nil, "types.Info.Scopes is nil")
	assert(info.Selections != nil, "types.Info.Selections is nil")
	assert(info.Types != nil, "types.Info.Types is nil")
	assert(info.Uses != nil, "types.Info.Uses is nil")
	assert(info.FileVersions != nil, "types.Info.FileVersions is nil")
}

// intersects reports whether the maps' key sets intersect.
func intersects[K comparable, T1, T2 any](x map[K]T1, y map[K]T2) bool {
	if len(x) > len(y) {
		return intersects(y, x)
	}
	for k := range x {
		if _, ok := y[k]; ok {
			return true
		}
	}
	return false
}

// convert returns syntax for the conversion T(x).
func convert(T, x ast.Expr) *ast.CallExpr {
	// The formatter generally adds parens as needed,
	// but before go1.22 it had a bug (#63362) for
	// channel types that requires this workaround.
	if ch, ok := T.(*ast.ChanType); ok && ch.Dir == ast.RECV {
		T = &ast.ParenExpr{X: T}
	}
	return &ast.CallExpr{
		Fun:  T,
		Args: []ast.Expr{x},
	}
}

// isPointer reports whether t's core type is a pointer.
func isPointer(t types.Type) bool {
	return is[*types.Pointer](typeparams.CoreType(t))
}

// indirectSelection is like seln.Indirect() without bug #8353.
func indirectSelection(seln *types.Selection) bool {
	// Work around bug #8353 in Selection.Indirect when Kind=MethodVal.
	if seln.Kind() == types.MethodVal {
		tArg, indirect := effectiveReceiver(seln)
		if indirect {
			return true
		}

		tParam := seln.Obj().Type().Underlying().(*types.Signature).Recv().Type()
		return isPointer(tArg) && !isPointer(tParam) // implicit *
	}

	return seln.Indirect()
}

// effectiveReceiver returns the effective type of the method
// receiver after all implicit field selections (but not implicit * or
// & operations) have been applied.
//
// The boolean indicates whether any implicit field selection was indirect.
func effectiveReceiver(seln *types.Selection) (types.Type, bool) {
	assert(seln.Kind() == types.MethodVal, "not MethodVal")
	t := seln.Recv()
	indices := seln.Index()
	indirect := false
	for _, index := range indices[:len(indices)-1] {
		if isPointer(t) {
			indirect = true
			t = typeparams.MustDeref(t)
		}
		t = typeparams.CoreType(t).(*types.Struct).Field(index).Type()
	}
	return t, indirect
}
