// Copyright 2023 The Go Authors. All rights reserved.
// Use of this source code is governed by a BSD-style
// license that can be found in the LICENSE file.

package inline

// This file defines the analysis of callee effects.

import (
	"go/ast"
	"go/token"
	"go/types"
	"slices"

	"decverif/xt/typesinternal"
)

const (
	rinf = -1 //  R∞: arbitrary read from memory
	winf = -2 //  W∞: arbitrary write to memory (or unknown control)
)

// calleefx returns a list of parameter indices indicating the order
// in which parameters are first referenced during evaluation of the
// callee, relative both to each other and to other effects of the
// callee (if any), such as arbitrary reads (rinf) and arbitrary
// effects (winf), including unknown control flow. Each parameter
// that is referenced appears once in the list.
//
// For example, the effects list of this function:
//
//	func f(x, y, z int) int {
//	    return y + x + g() + z
//	}
//
// is [1 0 -2 2], indicating reads of y and x, followed by the unknown
// effects of the g() call, and finally the read of parameter z. This
// information is used during inlining to ascertain when it is safe
// for parameter references to be replaced by their corresponding
// argument expressions. Such substitutions are permitted only when
// they do not cause "write" operations (those with effects) to
// commute with "read" operations (those that have no effect but are
// not pure). Impure operations may be reordered with other impure
// operations, and pure operations may be reordered arbitrarily.
//
// The analysis ignores the effects of runtime panics, on the
// assumption that well-behaved programs shouldn't encounter them.
func calleefx(info *types.Info, body *ast.BlockStmt, paramInfos map[*types.Var]*paramInfo) []int {
	// This traversal analyzes the callee's statements (in syntax
	// form, though one could do better with SSA) to compute the
	// sequence of events of the following kinds:
	//
	// 1  read of a parameter variable.
	// 2. reads from other memory.
	// 3. writes to memory

	var effects []int // indices of parameters, or rinf/winf (-ve)
	seen := make(map[int]bool)
	effect := func(i int) {
		if !seen[i] {
			seen[i] = true
			effects = append(effects, i)
		}
	}

	// unknown is called for statements of unknown effects (or control).
	unknown := func() {
		effect(winf)

		// Ensure that all remaining parameters are "seen"
		// after we go into the unknown (unless they are
		// unreferenced by the function body). This lets us
		// not bother implementing the complete traversal into
		// control structures.

		// Sort params by Index for determinism
		sortedParams := make([]*types.Var, 0, len(paramInfos))
		for obj, pinfo := range paramInfos {
			if !pinfo.IsResult && len(pinfo.Refs) > 0 {
				sortedParams = append(sortedParams, obj)
			}
		}
		slices.SortFunc(sortedParams, func(a, b *types.Var) int {
			return paramInfos[a].Index - paramInfos[b].Index
		})
		for _, obj := range sortedParams {
			effect(paramInfos[obj].Index)
		}
	}

	var visitExpr func(n ast.Expr)
	var visitStmt func(n ast.Stmt) bool
	visitExpr = func(n ast.Expr) {
		switch n := n.(type) {
		case *ast.Ident:
			if v, ok := info.Uses[n].(*types.Var); ok && !v.IsField() {
				// Use of global?
				if v.Parent() == v.Pkg().Scope() {
					effect(rinf) // read global var
				}

				// Use of parameter?
				if pinfo, ok := paramInfos[v]; ok && !pinfo.IsResult {
					effect(pinfo.Index) // read parameter var
				}

				// Use of local variables is ok.
			}

		case *ast.BasicLit:
			// no effect

		case *ast.FuncLit:
			// A func literal has no read or write effect
			// until called, and (most) function calls are
			// considered to have arbitrary effects.
			// So, no effect.

		case *ast.CompositeLit:
			for _, elt := range n.Elts {
				visitExpr(elt) // note: visits KeyValueExpr
			}

		case *ast.ParenExpr:
			visitExpr(n.X)

		case *ast.SelectorExpr:
			if seln, ok := info.Selections[n]; ok {
				visitExpr(n.X)

				// See types.SelectionKind for background.
				switch seln.Kind() {
				case types.MethodExpr:
					// A method expression T.f acts like a
					// reference to a func decl,
					// so it doesn't read x until called.

				case types.MethodVal, types.FieldVal:
					// A field or method value selection x.f
					// reads x if the selection indirects a pointer.

					if indirectSelection(seln) {
						effect(rinf)
					}
				}
			} else {
				// qualified identifier: treat like unqualified
				visitExpr(n.Sel)
			}

		case *ast.IndexExpr:
			if tv := info.Types[n.Index]; tv.IsType() {
				// no effect (G[T] instantiation)
			} else {
				visitExpr(n.X)
				visitExpr(n.Index)
				switch tv.Type.Underlying().(type) {
				case *types.Slice, *types.Pointer: // []T, *[n]T (not string, [n]T)
					effect(rinf) // indirect read of slice/array element
				}
			}

		case *ast.IndexListExpr:
			// no effect (M[K,V] instantiation)

		case *ast.SliceExpr:
			visitExpr(n.X)
			visitExpr(n.Low)
			visitExpr(n.High)
			visitExpr(n.Max)

		case *ast.TypeAssertExpr:
			visitExpr(n.X)

		case *ast.CallExpr:
			if info.Types[n.Fun].IsType() {
				// conversion T(x)
				visitExpr(n.Args[0])
			} else {
				// call f(args)
				visitExpr(n.Fun)
				for i, arg := range n.Args {
					if i == 0 && info.Types[arg].IsType() {
						continue // new(T), make(T, n)
					}
					visitExpr(arg)
				}

				// The pure built-ins have no effects beyond
				// those of their operands (not even memory reads).
				// All other calls have unknown effects.
				if !typesinternal.CallsPureBuiltin(info, n) {
					unknown() // arbitrary effects
				}
			}

		case *ast.StarExpr:
			visitExpr(n.X)
			effect(rinf) // *ptr load or store depends on state of heap

		case *ast.UnaryExpr: // + - ! ^ & ~ <-
			visitExpr(n.X)
			if n.Op == token.ARROW {
				unknown() // effect: channel receive
			}

		case *ast.BinaryExpr:
			visitExpr(n.X)
			visitExpr(n.Y)

		case *ast.KeyValueExpr:
			visitExpr(n.Key) // may be a struct field
			visitExpr(n.Value)

		case *ast.BadExpr:
			// no effect

		case nil:
			// optional subtree

		default:
			// type syntax: unreachable given traversal
			panic(n)
		}
	}

	// visitStmt's result indicates the continuation:
	// false for return, true for the next statement.
	//
	// We could treat return as an unknown, but this way
	// yields definite effects for simple sequences like
	// {S1; S2; return}, so unreferenced parameters are
	// not spuriously added to the effects list, and thus
	// not spuriously disqualified from elimination.
	visitStmt = func(n ast.Stmt) bool {
		switch n := n.(type) {
		case *ast.DeclStmt:
			decl := n.Decl.(*ast.GenDecl)
			for _, spec := range decl.Specs {
				switch spec := spec.(type) {
				case *ast.ValueSpec:
					for _, v := range spec.Values {
						visitExpr(v)
					}

				case *ast.TypeSpec:
					// no effect
				}
			}

		case *ast.LabeledStmt:
			return visitStmt(n.Stmt)

		case *ast.ExprStmt:
			visitExpr(n.X)

		case *ast.SendStmt:
			visitExpr(n.Chan)
			visitExpr(n.Value)
			unknown() // effect: channel send

		case *ast.IncDecStmt:
			visitExpr(n.X)
			unknown() // effect: variable increment

		case *ast.AssignStmt:
			for _, lhs := range n.Lhs {
				visitExpr(lhs)
			}
			for _, rhs := range n.Rhs {
				visitExpr(rhs)
			}
			for _, lhs := range n.Lhs {
				id, _ := lhs.(*ast.Ident)
				if id != nil && id.Name == "_" {
					continue // blank assign has no effect
				}
				if n.Tok == token.DEFINE && id != nil && info.Defs[id] != nil {
					continue // new var declared by := has no effect
				}
				unknown() // assignment to existing var
				break
			}

		case *ast.GoStmt:
			visitExpr(n.Call.Fun)
			for _, arg := range n.Call.Args {
				visitExpr(arg)
			}
			unknown() // effect: create goroutine

		case *ast.DeferStmt:
			visitExpr(n.Call.Fun)
			for _, arg := range n.Call.Args {
				visitExpr(arg)
			}
			unknown() // effect: push defer

		case *ast.ReturnStmt:
			for _, res := range n.Results {
				visitExpr(res)
			}
			return false

		case *ast.BlockStmt:
			for _, stmt := range n.List {
				if !visitStmt(stmt) {
					return false
				}
			}

		case *ast.BranchStmt:
			unknown() // control flow

		case *ast.IfStmt:
			visitStmt(n.Init)
			visitExpr(n.Cond)
			unknown() // control flow

		case *ast.SwitchStmt:
			visitStmt(n.Init)
			visitExpr(n.Tag)
			unknown() // control flow

		case *ast.TypeSwitchStmt:
			visitStmt(n.Init)
			visitStmt(n.Assign)
			unknown() // control flow

		case *ast.SelectStmt:
			unknown() // control flow

		case *ast.ForStmt:
			visitStmt(n.Init)
			visitExpr(n.Cond)
			unknown() // control flow

		case *ast.RangeStmt:
			visitExpr(n.X)
			unknown() // control flow

		case *ast.EmptyStmt, *ast.BadStmt:
			// no effect

		case nil:
			// optional subtree

		default:
			panic(n)
		}
		return true
	}
	visitStmt(body)

	return effects
}
