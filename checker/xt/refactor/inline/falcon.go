// Copyright 2023 The Go Authors. All rights reserved.
// Use of this source code is governed by a BSD-style
// license that can be found in the LICENSE file.

package inline

// This file defines the callee side of the "fallible constant" analysis.

import (
	"fmt"
	"go/ast"
	"go/constant"
	"go/format"
	"go/token"
	"go/types"
	"slices"
	"strconv"
	"strings"

	"golang.org/x/tools/go/types/typeutil"
	"decverif/xt/typeparams"
)

// falconResult is the result of the analysis of the callee.
type falconResult struct {
	Types       []falconType // types for falcon constraint environment
	Constraints []string     // constraints (Go expressions) on values of fallible constants
}

// A falconType specifies the name and underlying type of a synthetic
// defined type for use in falcon constraints.
//
// Unique types from callee code are bijectively mapped onto falcon
// types so that constraints are independent of callee type
// information but preserve type equivalence classes.
//
// Fresh names are deliberately obscure to avoid shadowing even if a
// callee parameter has a name like "int" or "any".
type falconType struct {
	Name string
	Kind types.BasicKind // string/number/bool
}

// falcon identifies "fallible constant" expressions, which are
// expressions that may fail to compile if one or more of their
// operands is changed from non-constant to constant.
//
// Consider:
//
//	func sub(s string, i, j int) string { return s[i:j] }
//
// If parameters are replaced by constants, the compiler is
// required to perform these additional checks:
//
//   - if i is constant, 0 <= i.
//   - if s and i are constant, i <= len(s).
//   - ditto for j.
//   - if i and j are constant, i <= j.
//
// s[i:j] is thus a "fallible constant" expression dependent on {s, i,
// j}. Each falcon creates a set of conditional constraints across one
// or more parameter variables.
//
//   - When inlining a call such as sub("abc", -1, 2), the parameter i
//     cannot be eliminated by substitution as its argument value is
//     negative.
//
//   - When inlining sub("", 2, 1), all three parameters cannot be
//     simultaneously eliminated by substitution without violating i
//     <= len(s) and j <= len(s), but the parameters i and j could be
//     safely eliminated without s.
//
// Parameters that cannot be eliminated must remain non-constant,
// either in the form of a binding declaration:
//
//	{ var i int = -1; return "abc"[i:2] }
//
// or a parameter of a literalization:
//
//	func (i int) string { return "abc"[i:2] }(-1)
//
// These example expressions are obviously doomed to fail at run
// time, but in realistic cases such expressions are dominated by
// appropriate conditions that make them reachable only when safe:
//
//	if 0 <= i && i <= j && j <= len(s) { _ = s[i:j] }
//
// (In principle a more sophisticated inliner could entirely eliminate
// such unreachable blocks based on the condition being always-false
// for the given parameter substitution, but this is tricky to do safely
// because the type-checker considers only a single configuration.
// Consider: if runtime.GOOS == "linux" { ... }.)
//
// We believe this is an exhaustive list of "fallible constant" operations:
//
//   - switch z { case x: case y } 	// duplicate case values
//   - s[i], s[i:j], s[i:j:k]		// index out of bounds (0 <= i <= j <= k <= len(s))
//   - T{x: 0}				// index out of bounds, duplicate index
//   - x/y, x%y, x/=y, x%=y		// integer division by zero; minint/-1 overflow
//   - x+y, x-y, x*y			// arithmetic overflow
//   - x<<y				// shift out of range
//   - -x				// negation of minint
//   - T(x)				// value out of range
//
// The fundamental reason for this elaborate algorithm is that the
// "separate analysis" of callee and caller, as required when running
// in an environment such as unitchecker, means that there is no way
// for us to simply invoke the type checker on the combination of
// caller and callee code, as by the time we analyze the caller, we no
// longer have access to type information for the callee (and, in
// particular, any of its direct dependencies that are not direct
// dependencies of the caller). So, in effect, we are forced to map
// the problem in a neutral (callee-type-independent) constraint
// system that can be verified later.
func falcon(logf func(string, ...any), fset *token.FileSet, params map[*types.Var]*paramInfo, info *types.Info, decl *ast.FuncDecl) falconResult {

	st := &falconState{
		logf:   logf,
		fset:   fset,
		params: params,
		info:   info,
		decl:   decl,
	}

	// type mapping
	st.int = st.typename(types.Typ[types.Int])
	st.any = "interface{}" // don't use "any" as it may be shadowed

	// Sort params by Index for determinism
	sortedParams := make([]*types.Var, 0, len(st.params))
	for obj := range st.params {
		if isBasic(obj.Type(), types.IsConstType) {
			sortedParams = append(sortedParams, obj)
		}
	}
	slices.SortFunc(sortedParams, func(a, b *types.Var) int {
		return st.params[a].Index - st.params[b].Index
	})
	for _, obj := range sortedParams {
		st.params[obj].FalconType = st.typename(obj.Type())
	}

	st.stmt(st.decl.Body)

	return st.result
}

type falconState struct {
	// inputs
	logf   func(string, ...any)
	fset   *token.FileSet
	params map[*types.Var]*paramInfo
	info   *types.Info
	decl   *ast.FuncDecl

	// working state
	int       string
	any       string
	typenames typeutil.Map

	result falconResult
}

// typename returns the name in the falcon constraint system
// of a given string/number/bool type t. Falcon types are
// specified directly in go/types data structures rather than
// by name, avoiding potential shadowing conflicts with
// confusing parameter names such as "int".
//
// Also, each distinct type (as determined by types.Identical)
// is mapped to a fresh type in the falcon system so that we
// can map the types in the callee code into a neutral form
// that does not depend on imports, allowing us to detect
// potential conflicts such as
//
//	map[any]{T1(1): 0, T2(1): 0}
//
// where T1=T2.
func (st *falconState) typename(t types.Type) string {
	name, ok := st.typenames.At(t).(string)
	if !ok {
		basic := t.Underlying().(*types.Basic)

		// That dot ۰ is an Arabic zero numeral U+06F0.
		// It is very unlikely to appear in a real program.
		// TODO(adonovan): use a non-heuristic solution.
		name = fmt.Sprintf("%s۰%d", basic, st.typenames.Len())
		st.typenames.Set(t, name)
		st.logf("falcon: emit type %s %s // %q", name, basic, t)
		st.result.Types = append(st.result.Types, falconType{
			Name: name,
			Kind: basic.Kind(),
		})
	}
	return name
}

// -- constraint emission --

// emit emits a Go expression that must have a legal type.
// In effect, we let the go/types constant folding algorithm
// do most of the heavy lifting (though it may be hard to
// believe from the complexity of this algorithm!).
func (st *falconState) emit(constraint ast.Expr) {
	var out strings.Builder
	if err := format.Node(&out, st.fset, constraint); err != nil {
		panic(err) // can't happen
	}
	syntax := out.String()
	st.logf("falcon: emit constraint %s", syntax)
	st.result.Constraints = append(st.result.Constraints, syntax)
}

// emitNonNegative emits an []T{}[index] constraint,
// which ensures index is non-negative if constant.
func (st *falconState) emitNonNegative(index ast.Expr) {
	st.emit(&ast.IndexExpr{
		X: &ast.CompositeLit{
			Type: &ast.ArrayType{
				Elt: makeIdent(st.int),
			},
		},
		Index: index,
	})
}

// emitMonotonic emits an []T{}[i:j] constraint,
// which ensures i <= j if both are constant.
func (st *falconState) emitMonotonic(i, j ast.Expr) {
	st.emit(&ast.SliceExpr{
		X: &ast.CompositeLit{
			Type: &ast.ArrayType{
				Elt: makeIdent(st.int),
			},
		},
		Low:  i,
		High: j,
	})
}

// emitUnique emits a T{elem1: 0, ... elemN: 0} constraint,
// which ensures that all constant elems are unique.
// T may be a map, slice, or array depending
// on the desired check semantics.
func (st *falconState) emitUnique(typ ast.Expr, elems []ast.Expr) {
	if len(elems) > 1 {
		var elts []ast.Expr
		for _, elem := range elems {
			elts = append(elts, &ast.KeyValueExpr{
				Key:   elem,
				Value: makeIntLit(0),
			})
		}
		st.emit(&ast.CompositeLit{
			Type: typ,
			Elts: elts,
		})
	}
}

// -- traversal --

// The traversal functions scan the callee body for expressions that
// are not constant but would become constant if the parameter vars
// were redeclared as constants, and emits for each one a constraint
// (a Go expression) with the property that it will not type-check
// (using types.CheckExpr) if the particular argument values are
// unsuitable.
//
// These constraints are checked by Inline with the actual
// constant argument values. Violations cause it to reject
// parameters as candidates for substitution.

func (st *falconState) stmt(s ast.Stmt) {
	ast.Inspect(s, func(n ast.Node) bool {
		switch n := n.(type) {
		case ast.Expr:
			_ = st.expr(n)
			return false // skip usual traversal

		case *ast.AssignStmt:
			switch n.Tok {
			case token.QUO_ASSIGN, token.REM_ASSIGN:
				// x /= y
				// Possible "integer division by zero"
				// Emit constraint: 1/y.
				_ = st.expr(n.Lhs[0])
				kY := st.expr(n.Rhs[0])
				if kY, ok := kY.(ast.Expr); ok {
					op := token.QUO
					if n.Tok == token.REM_ASSIGN {
						op = token.REM
					}
					st.emit(&ast.BinaryExpr{
						Op: op,
						X:  makeIntLit(1),
						Y:  kY,
					})
				}
				return false // skip usual traversal
			}

		case *ast.SwitchStmt:
			if n.Init != nil {
				st.stmt(n.Init)
			}
			tBool := types.Type(types.Typ[types.Bool])
			tagType := tBool // default: true
			if n.Tag != nil {
				st.expr(n.Tag)
				tagType = st.info.TypeOf(n.Tag)
			}

			// Possible "duplicate case value".
			// Emit constraint map[T]int{v1: 0, ..., vN:0}
			// to ensure all maybe-constant case values are unique
			// (unless switch tag is boolean, which is relaxed).
			var unique []ast.Expr
			for _, clause := range n.Body.List {
				clause := clause.(*ast.CaseClause)
				for _, caseval := range clause.List {
					if k := st.expr(caseval); k != nil {
						unique = append(unique, st.toExpr(k))
					}
				}
				for _, stmt := range clause.Body {
					st.stmt(stmt)
				}
			}
			if unique != nil && !types.Identical(tagType.Underlying(), tBool) {
				tname := st.any
				if !types.IsInterface(tagType) {
					tname = st.typename(tagType)
				}
				t := &ast.MapType{
					Key:   makeIdent(tname),
					Value: makeIdent(st.int),
				}
				st.emitUnique(t, unique)
			}
		}
		return true
	})
}

// fieldTypes visits the .Type of each field in the list.
func (st *falconState) fieldTypes(fields *ast.FieldList) {
	if fields != nil {
		for _, field := range fields.List {
			_ = st.expr(field.Type)
		}
	}
}

// expr visits the expression (or type) and returns a
// non-nil result if the expression is constant or would
// become constant if all suitable function parameters were
// redeclared as constants.
//
// If the expression is constant, st.expr returns its type
// and value (types.TypeAndValue). If the expression would
// become constant, st.expr returns an ast.Expr tree whose
// leaves are literals and parameter references, and whose
// interior nodes are operations that may become constant,
// such as -x, x+y, f(x), and T(x). We call these would-be
// constant expressions "fallible constants", since they may
// fail to type-check for some values of x, i, and j. (We
// refer to the non-nil cases collectively as "maybe
// constant", and the nil case as "definitely non-constant".)
//
// As a side effect, st.expr emits constraints for each
// fallible constant expression; this is its main purpose.
//
// Consequently, st.expr must visit the entire subtree so
// that all necessary constraints are emitted. It may not
// short-circuit the traversal when it encounters a constant
// subexpression as constants may contain arbitrary other
// syntax that may impose constraints. Consider (as always)
// this contrived but legal example of a type parameter (!)
// that contains statement syntax:
//
//	func f[T [unsafe.Sizeof(func() { stmts })]int]()
//
// There is no need to emit constraints for (e.g.) s[i] when s
// and i are already constants, because we know the expression
// is sound, but it is sometimes easier to emit these
// redundant constraints than to avoid them.
func (st *falconState) expr(e ast.Expr) (res any) { // = types.TypeAndValue | ast.Expr
	tv := st.info.Types[e]
	if tv.Value != nil {
		// A constant value overrides any other result.
		defer func() { res = tv }()
	}

	switch e := e.(type) {
	case *ast.Ident:
		if v, ok := st.info.Uses[e].(*types.Var); ok {
			if _, ok := st.params[v]; ok && isBasic(v.Type(), types.IsConstType) {
				return e // reference to constable parameter
			}
		}
		// (References to *types.Const are handled by the defer.)

	case *ast.BasicLit:
		// constant

	case *ast.ParenExpr:
		return st.expr(e.X)

	case *ast.FuncLit:
		_ = st.expr(e.Type)
		st.stmt(e.Body)
		// definitely non-constant

	case *ast.CompositeLit:
		// T{k: v, ...}, where T ∈ {array,*array,slice,map},
		// imposes a constraint that all constant k are
		// distinct and, for arrays [n]T, within range 0-n.
		//
		// Types matter, not just values. For example,
		// an interface-keyed map may contain keys
		// that are numerically equal so long as they
		// are of distinct types. For example:
		//
		//   type myint int
		//   map[any]bool{1: true, 1:        true} // error: duplicate key
		//   map[any]bool{1: true, int16(1): true} // ok
		//   map[any]bool{1: true, myint(1): true} // ok
		//
		// This can be asserted by emitting a
		// constraint of the form T{k1: 0, ..., kN: 0}.
		if e.Type != nil {
			_ = st.expr(e.Type)
		}
		t := types.Unalias(typeparams.Deref(tv.Type))
		ct := typeparams.CoreType(t)
		var mapKeys []ast.Expr // map key expressions; must be distinct if constant
		for _, elt := range e.Elts {
			if kv, ok := elt.(*ast.KeyValueExpr); ok {
				if is[*types.Map](ct) {
					if k := st.expr(kv.Key); k != nil {
						mapKeys = append(mapKeys, st.toExpr(k))
					}
				}
				_ = st.expr(kv.Value)
			} else {
				_ = st.expr(elt)
			}
		}
		if len(mapKeys) > 0 {
			// Inlining a map literal may replace variable key expressions by constants.
			// All such constants must have distinct values.
			// (Array and slice literals do not permit non-constant keys.)
			t := ct.(*types.Map)
			var typ ast.Expr
			if types.IsInterface(t.Key()) {
				typ = &ast.MapType{
					Key:   makeIdent(st.any),
					Value: makeIdent(st.int),
				}
			} else {
				typ = &ast.MapType{
					Key:   makeIdent(st.typename(t.Key())),
					Value: makeIdent(st.int),
				}
			}
			st.emitUnique(typ, mapKeys)
		}
		// definitely non-constant

	case *ast.SelectorExpr:
		_ = st.expr(e.X)
		_ = st.expr(e.Sel)
		// The defer is sufficient to handle
		// qualified identifiers (pkg.Const).
		// All other cases are definitely non-constant.

	case *ast.IndexExpr:
		if tv.IsType() {
			// type C[T]
			_ = st.expr(e.X)
			_ = st.expr(e.Index)
		} else {
			// term x[i]
			//
			// Constraints (if x is slice/string/array/*array, not map):
			// - i >= 0
			//     if i is a fallible constant
			// - i < len(x)
			//     if x is array/*array and
			//     i is a fallible constant;
			//  or if s is a string and both i,
			//     s are maybe-constants,
			//     but not both are constants.
			kX := st.expr(e.X)
			kI := st.expr(e.Index)
			if kI != nil && !is[*types.Map](st.info.TypeOf(e.X).Underlying()) {
				if kI, ok := kI.(ast.Expr); ok {
					st.emitNonNegative(kI)
				}
				// Emit constraint to check indices against known length.
				// TODO(adonovan): factor with SliceExpr logic.
				var x ast.Expr
				if kX != nil {
					// string
					x = st.toExpr(kX)
				} else if arr, ok := typeparams.CoreType(typeparams.Deref(st.info.TypeOf(e.X))).(*types.Array); ok {
					// array, *array
					x = &ast.CompositeLit{
						Type: &ast.ArrayType{
							Len: makeIntLit(arr.Len()),
							Elt: makeIdent(st.int),
						},
					}
				}
				if x != nil {
					st.emit(&ast.IndexExpr{
						X:     x,
						Index: st.toExpr(kI),
					})
				}
			}
		}
		// definitely non-constant

	case *ast.SliceExpr:
		// x[low:high:max]
		//
		// Emit non-negative constraints for each index,
		// plus low <= high <= max <= len(x)
		// for each pair that are maybe-constant
		// but not definitely constant.

		kX := st.expr(e.X)
		var kLow, kHigh, kMax any
		if e.Low != nil {
			kLow = st.expr(e.Low)
			if kLow != nil {
				if kLow, ok := kLow.(ast.Expr); ok {
					st.emitNonNegative(kLow)
				}
			}
		}
		if e.High != nil {
			kHigh = st.expr(e.High)
			if kHigh != nil {
				if kHigh, ok := kHigh.(ast.Expr); ok {
					st.emitNonNegative(kHigh)
				}
				if kLow != nil {
					st.emitMonotonic(st.toExpr(kLow), st.toExpr(kHigh))
				}
			}
		}
		if e.Max != nil {
			kMax = st.expr(e.Max)
			if kMax != nil {
				if kMax, ok := kMax.(ast.Expr); ok {
					st.emitNonNegative(kMax)
				}
				if kHigh != nil {
					st.emitMonotonic(st.toExpr(kHigh), st.toExpr(kMax))
				}
			}
		}

		// Emit constraint to check indices against known length.
		var x ast.Expr
		if kX != nil {
			// string
			x = st.toExpr(kX)
		} else if arr, ok := typeparams.CoreType(typeparams.Deref(st.info.TypeOf(e.X))).(*types.Array); ok {
			// array, *array
			x = &ast.CompositeLit{
				Type: &ast.ArrayType{
					Len: makeIntLit(arr.Len()),
					Elt: makeIdent(st.int),
				},
			}
		}
		if x != nil {
			// Avoid slice[::max] if kHigh is nonconstant (nil).
			high, max := st.toExpr(kHigh), st.toExpr(kMax)
			if high == nil {
				high = max // => slice[:max:max]
			}
			st.emit(&ast.SliceExpr{
				X:    x,
				Low:  st.toExpr(kLow),
				High: high,
				Max:  max,
			})
		}
		// definitely non-constant

	case *ast.TypeAssertExpr:
		_ = st.expr(e.X)
		if e.Type != nil {
			_ = st.expr(e.Type)
		}

	case *ast.CallExpr:
		_ = st.expr(e.Fun)
		if tv, ok := st.info.Types[e.Fun]; ok && tv.IsType() {
			// conversion T(x)
			//
			// Possible "value out of range".
			kX := st.expr(e.Args[0])
			if kX != nil && isBasic(tv.Type, types.IsConstType) {
				conv := convert(makeIdent(st.typename(tv.Type)), st.toExpr(kX))
				if is[ast.Expr](kX) {
					st.emit(conv)
				}
				return conv
			}
			return nil // definitely non-constant
		}

		// call f(x)

		all := true // all args are possibly-constant
		kArgs := make([]ast.Expr, len(e.Args))
		for i, arg := range e.Args {
			if kArg := st.expr(arg); kArg != nil {
				kArgs[i] = st.toExpr(kArg)
			} else {
				all = false
			}
		}

		// Calls to built-ins with fallibly constant arguments
		// may become constant. All other calls are either
		// constant or non-constant
		if id, ok := e.Fun.(*ast.Ident); ok && all && tv.Value == nil {
			if builtin, ok := st.info.Uses[id].(*types.Builtin); ok {
				switch builtin.Name() {
				case "len", "imag", "real", "complex", "min", "max":
					return &ast.CallExpr{
						Fun:      id,
						Args:     kArgs,
						Ellipsis: e.Ellipsis,
					}
				}
			}
		}

	case *ast.StarExpr: // *T, *ptr
		_ = st.expr(e.X)

	case *ast.UnaryExpr:
		// + - ! ^ & <- ~
		//
		// Possible "negation of minint".
		// Emit constraint: -x
		kX := st.expr(e.X)
		if kX != nil && !is[types.TypeAndValue](kX) {
			if e.Op == token.SUB {
				st.emit(&ast.UnaryExpr{
					Op: e.Op,
					X:  st.toExpr(kX),
				})
			}

			return &ast.UnaryExpr{
				Op: e.Op,
				X:  st.toExpr(kX),
			}
		}

	case *ast.BinaryExpr:
		kX := st.expr(e.X)
		kY := st.expr(e.Y)
		switch e.Op {
		case token.QUO, token.REM:
			// x/y, x%y
			//
			// Possible "integer division by zero" or
			// "minint / -1" overflow.
			// Emit constraint: x/y or 1/y
			if kY != nil {
				if kX == nil {
					kX = makeIntLit(1)
				}
				st.emit(&ast.BinaryExpr{
					Op: e.Op,
					X:  st.toExpr(kX),
					Y:  st.toExpr(kY),
				})
			}

		case token.ADD, token.SUB, token.MUL:
			// x+y, x-y, x*y
			//
			// Possible "arithmetic overflow".
			// Emit constraint: x+y
			if kX != nil && kY != nil {
				st.emit(&ast.BinaryExpr{
					Op: e.Op,
					X:  st.toExpr(kX),
					Y:  st.toExpr(kY),
				})
			}

		case token.SHL, token.SHR:
			// x << y, x >> y
			//
			// Possible "constant shift too large".
			// Either operand may be too large individually,
			// and they may be too large together.
			// Emit constraint:
			//    x << y (if both maybe-constant)
			//    x << 0 (if y is non-constant)
			//    1 << y (if x is non-constant)
			if kX != nil || kY != nil {
				x := st.toExpr(kX)
				if x == nil {
					x = makeIntLit(1)
				}
				y := st.toExpr(kY)
				if y == nil {
					y = makeIntLit(0)
				}
				st.emit(&ast.BinaryExpr{
					Op: e.Op,
					X:  x,
					Y:  y,
				})
			}

		case token.LSS, token.GTR, token.EQL, token.NEQ, token.LEQ, token.GEQ:
			// < > == != <= <=
			//
			// A "x cmp y" expression with constant operands x, y is
			// itself constant, but I can't see how a constant bool
			// could be fallible: the compiler doesn't reject duplicate
			// boolean cases in a switch, presumably because boolean
			// switches are less like n-way branches and more like
			// sequential if-else chains with possibly overlapping
			// conditions; and there is (sadly) no way to convert a
			// boolean constant to an int constant.
		}
		if kX != nil && kY != nil {
			return &ast.BinaryExpr{
				Op: e.Op,
				X:  st.toExpr(kX),
				Y:  st.toExpr(kY),
			}
		}

	// types
	//
	// We need to visit types (and even type parameters)
	// in order to reach all the places where things could go wrong:
	//
	// 	const (
	// 		s = ""
	// 		i = 0
	// 	)
	// 	type C[T [unsafe.Sizeof(func() { _ = s[i] })]int] bool

	case *ast.IndexListExpr:
		_ = st.expr(e.X)
		for _, expr := range e.Indices {
			_ = st.expr(expr)
		}

	case *ast.Ellipsis:
		if e.Elt != nil {
			_ = st.expr(e.Elt)
		}

	case *ast.ArrayType:
		if e.Len != nil {
			_ = st.expr(e.Len)
		}
		_ = st.expr(e.Elt)

	case *ast.StructType:
		st.fieldTypes(e.Fields)

	case *ast.FuncType:
		st.fieldTypes(e.TypeParams)
		st.fieldTypes(e.Params)
		st.fieldTypes(e.Results)

	case *ast.InterfaceType:
		st.fieldTypes(e.Methods)

	case *ast.MapType:
		_ = st.expr(e.Key)
		_ = st.expr(e.Value)

	case *ast.ChanType:
		_ = st.expr(e.Value)
	}
	return
}

// toExpr converts the result of visitExpr to a falcon expression.
// (We don't do this in visitExpr as we first need to discriminate
// constants from maybe-constants.)
func (st *falconState) toExpr(x any) ast.Expr {
	switch x := x.(type) {
	case nil:
		return nil

	case types.TypeAndValue:
		lit := makeLiteral(x.Value)
		if !isBasic(x.Type, types.IsUntyped) {
			// convert to "typed" type
			lit = &ast.CallExpr{
				Fun:  makeIdent(st.typename(x.Type)),
				Args: []ast.Expr{lit},
			}
		}
		return lit

	case ast.Expr:
		return x

	default:
		panic(x)
	}
}

func makeLiteral(v constant.Value) ast.Expr {
	switch v.Kind() {
	case constant.Bool:
		// Rather than refer to the true or false built-ins,
		// which could be shadowed by poorly chosen parameter
		// names, we use 0 == 0 for true and 0 != 0 for false.
		op := token.EQL
		if !constant.BoolVal(v) {
			op = token.NEQ
		}
		return &ast.BinaryExpr{
			Op: op,
			X:  makeIntLit(0),
			Y:  makeIntLit(0),
		}

	case constant.String:
		return &ast.BasicLit{
			Kind:  token.STRING,
			Value: v.ExactString(),
		}

	case constant.Int:
		return &ast.BasicLit{
			Kind:  token.INT,
			Value: v.ExactString(),
		}

	case constant.Float:
		return &ast.BasicLit{
			Kind:  token.FLOAT,
			Value: v.ExactString(),
		}

	case constant.Complex:
		// The components could be float or int.
		y := makeLiteral(constant.Imag(v))
		y.(*ast.BasicLit).Value += "i" // ugh
		if re := constant.Real(v); !consteq(re, kZeroInt) {
			// complex: x + yi
			y = &ast.BinaryExpr{
				Op: token.ADD,
				X:  makeLiteral(re),
				Y:  y,
			}
		}
		return y

	default:
		panic(v.Kind())
	}
}

func makeIntLit(x int64) *ast.BasicLit {
	return &ast.BasicLit{
		Kind:  token.INT,
		Value: strconv.FormatInt(x, 10),
	}
}

func isBasic(t types.Type, info types.BasicInfo) bool {
	basic, ok := t.Underlying().(*types.Basic)
	return ok && basic.Info()&info != 0
}
