// Copyright 2023 The Go Authors. All rights reserved.
// Use of this source code is governed by a BSD-style
// license that can be found in the LICENSE file.

package inline

// This file defines the analysis of the callee function.

import (
	"bytes"
	"cmp"
	"encoding/gob"
	"fmt"
	"go/ast"
	"go/parser"
	"go/token"
	"go/types"
	"slices"
	"strings"

	"golang.org/x/tools/go/types/typeutil"
	"decverif/xt/moremaps"
	"decverif/xt/typeparams"
	"decverif/xt/typesinternal"
)

// A Callee holds information about an inlinable function. Gob-serializable.
type Callee struct {
	impl gobCallee
}

func (callee *Callee) String() string { return callee.impl.Name }

type gobCallee struct {
	Content []byte // file content, compacted to a single func decl

	// results of type analysis (does not reach go/types data structures)
	PkgPath          string                 // package path of declaring package
	Name             string                 // user-friendly name for error messages
	GoVersion        string                 // version of Go effective in callee file
	Unexported       []string               // names of free objects that are unexported
	FreeRefs         []freeRef              // locations of references to free objects
	FreeObjs         []object               // descriptions of free objects
	ValidForCallStmt bool                   // function body is "return expr" where expr is f() or <-ch
	NumResults       int                    // number of results (according to type, not ast.FieldList)
	Params           []*paramInfo           // information about parameters (incl. receiver)
	TypeParams       []*paramInfo           // information about type parameters
	Results          []*paramInfo           // information about result variables
	Effects          []int                  // order in which parameters are evaluated (see calleefx)
	HasDefer         bool                   // uses defer
	HasBareReturn    bool                   // uses bare return in non-void function
	Returns          [][]returnOperandFlags // metadata about result expressions for each return
	Labels           []string               // names of all control labels
	Falcon           falconResult           // falcon constraint system
}

// returnOperandFlags records metadata about a single result expression in a return
// statement.
type returnOperandFlags int

const (
	nonTrivialResult returnOperandFlags = 1 << iota // return operand has non-trivial conversion to result type
	untypedNilResult                                // return operand is nil literal
)

// A freeRef records a reference to a free object. Gob-serializable.
// (This means free relative to the FuncDecl as a whole, i.e. excluding parameters.)
type freeRef struct {
	Offset int // byte offset of the reference relative to the FuncDecl
	Object int // index into Callee.freeObjs
}

// An object abstracts a free types.Object referenced by the callee. Gob-serializable.
type object struct {
	Name    string // Object.Name()
	Kind    string // one of {var,func,const,type,pkgname,nil,builtin}
	PkgPath string // path of object's package (or imported package if kind="pkgname")
	PkgName string // name of object's package (or imported package if kind="pkgname")
	// TODO(rfindley): should we also track LocalPkgName here? Do we want to
	// preserve the local package name?
	ValidPos bool      // Object.Pos().IsValid()
	Shadow   shadowMap // shadowing info for the object's refs
}

// AnalyzeCallee analyzes a function that is a candidate for inlining
// and returns a Callee that describes it. The Callee object, which is
// serializable, can be passed to one or more subsequent calls to
// Inline, each with a different Caller.
//
// This design allows separate analysis of callers and callees in the
// golang.org/x/tools/go/analysis framework: the inlining information
// about a callee can be recorded as a "fact".
//
// The content should be the actual input to the compiler, not the
// apparent source file according to any //line directives that
// may be present within it.
func AnalyzeCallee(logf func(string, ...any), fset *token.FileSet, pkg *types.Package, info *types.Info, decl *ast.FuncDecl, content []byte) (*Callee, error) {
	checkInfoFields(info)

	// The client is expected to have determined that the callee
	// is a function with a declaration (not a built-in or var).
	fn := info.Defs[decl.Name].(*types.Func)
	sig := fn.Type().(*types.Signature)

	logf("analyzeCallee %v @ %v", fn, fset.PositionFor(decl.Pos(), false))

	// Create user-friendly name ("pkg.Func" or "(pkg.T).Method")
	var name string
	if sig.Recv() == nil {
		name = fmt.Sprintf("%s.%s", fn.Pkg().Name(), fn.Name())
	} else {
		name = fmt.Sprintf("(%s).%s", types.TypeString(sig.Recv().Type(), (*types.Package).Name), fn.Name())
	}

	if decl.Body == nil {
		return nil, fmt.Errorf("cannot inline function %s as it has no body", name)
	}

	// Record the file's Go goVersion so that we don't
	// inline newer code into file using an older dialect.
	//
	// Using the file version is overly conservative.
	// A more precise solution would be for the type checker to
	// record which language features the callee actually needs;
	// see https://go.dev/issue/75726.
	//
	// We don't have the ast.File handy, so instead of a
	// lookup we must scan the entire FileVersions map.
	var goVersion string
	for file, v := range info.FileVersions {
		if file.Pos() < decl.Pos() && decl.Pos() < file.End() {
			goVersion = v
			break
		}
	}

	// Record the location of all free references in the FuncDecl.
	// (Parameters are not free by this definition.)
	var (
		fieldObjs    = fieldObjs(sig)
		freeObjIndex = make(map[types.Object]int)
		freeObjs     []object
		freeRefs     []freeRef // free refs that may need renaming
		unexported   []string  // free refs to unexported objects, for later error checks
	)
	var f func(n ast.Node, stack []ast.Node) bool
	var stack []ast.Node
	stack = append(stack, decl.Type) // for scope of function itself
	visit := func(n ast.Node, stack []ast.Node) { ast.PreorderStack(n, stack, f) }
	f = func(n ast.Node, stack []ast.Node) bool {
		switch n := n.(type) {
		case *ast.SelectorExpr:
			// Check selections of free fields/methods.
			if sel, ok := info.Selections[n]; ok &&
				!within(sel.Obj().Pos(), decl) &&
				!n.Sel.IsExported() {
				sym := fmt.Sprintf("(%s).%s", info.TypeOf(n.X), n.Sel.Name)
				unexported = append(unexported, sym)
			}

			// Don't recur into SelectorExpr.Sel.
			visit(n.X, stack)
			return false

		case *ast.CompositeLit:
			// Check for struct literals that refer to unexported fields,
			// whether keyed or unkeyed. (Logic assumes well-typedness.)
			litType := typeparams.Deref(info.TypeOf(n))
			if s, ok := typeparams.CoreType(litType).(*types.Struct); ok {
				if n.Type != nil {
					visit(n.Type, stack)
				}
				for i, elt := range n.Elts {
					var field *types.Var
					var value ast.Expr
					if kv, ok := elt.(*ast.KeyValueExpr); ok {
						field = info.Uses[kv.Key.(*ast.Ident)].(*types.Var)
						value = kv.Value
					} else {
						field = s.Field(i)
						value = elt
					}
					if !within(field.Pos(), decl) && !field.Exported() {
						sym := fmt.Sprintf("(%s).%s", litType, field.Name())
						unexported = append(unexported, sym)
					}

					// Don't recur into KeyValueExpr.Key.
					visit(value, stack)
				}
				return false
			}

		case *ast.Ident:
			if obj, ok := info.Uses[n]; ok {
				// Methods and fields are handled by SelectorExpr and CompositeLit.
				if isField(obj) || isMethod(obj) {
					panic(obj)
				}
				// Inv: id is a lexical reference.

				// A reference to an unexported package-level declaration
				// cannot be inlined into another package.
				if !n.IsExported() &&
					obj.Pkg() != nil && obj.Parent() == obj.Pkg().Scope() {
					unexported = append(unexported, n.Name)
				}

				// Record free reference (incl. self-reference).
				if obj == fn || !within(obj.Pos(), decl) {
					objidx, ok := freeObjIndex[obj]
					if !ok {
						objidx = len(freeObjIndex)
						var pkgPath, pkgName string
						if pn, ok := obj.(*types.PkgName); ok {
							pkgPath = pn.Imported().Path()
							pkgName = pn.Imported().Name()
						} else if obj.Pkg() != nil {
							pkgPath = obj.Pkg().Path()
							pkgName = obj.Pkg().Name()
						}
						freeObjs = append(freeObjs, object{
							Name:     obj.Name(),
							Kind:     objectKind(obj),
							PkgName:  pkgName,
							PkgPath:  pkgPath,
							ValidPos: obj.Pos().IsValid(),
						})
						freeObjIndex[obj] = objidx
					}

					freeObjs[objidx].Shadow = freeObjs[objidx].Shadow.add(info, fieldObjs, obj.Name(), stack)

					freeRefs = append(freeRefs, freeRef{
						Offset: int(n.Pos() - decl.Pos()),
						Object: objidx,
					})
				}
			}
		}
		return true
	}
	visit(decl, stack)

	// Analyze callee body for "return expr" form,
	// where expr is f() or <-ch. These forms are
	// safe to inline as a standalone statement.
	validForCallStmt := false
	if len(decl.Body.List) != 1 {
		// not just a return statement
	} else if ret, ok := decl.Body.List[0].(*ast.ReturnStmt); ok && len(ret.Results) == 1 {
		validForCallStmt = func() bool {
			switch expr := ast.Unparen(ret.Results[0]).(type) {
			case *ast.CallExpr: // f(x)
				callee := typeutil.Callee(info, expr)
				if callee == nil {
					return false // conversion T(x)
				}

				// The only non-void built-in functions that may be
				// called as a statement are copy and recover
				// (though arguably a call to recover should never
				// be inlined as that changes its behavior).
				if builtin, ok := callee.(*types.Builtin); ok {
					return builtin.Name() == "copy" ||
						builtin.Name() == "recover"
				}

				return true // ordinary call f()

			case *ast.UnaryExpr: // <-x
				return expr.Op == token.ARROW // channel receive <-ch
			}

			// No other expressions are valid statements.
			return false
		}()
	}

	// Record information about control flow in the callee
	// (but not any nested functions).
	var (
		hasDefer      = false
		hasBareReturn = false
		returnInfo    [][]returnOperandFlags
		labels        []string
	)
	ast.Inspect(decl.Body, func(n ast.Node) bool {
		switch n := n.(type) {
		case *ast.FuncLit:
			return false // prune traversal
		case *ast.DeferStmt:
			hasDefer = true
		case *ast.LabeledStmt:
			labels = append(labels, n.Label.Name)
		case *ast.ReturnStmt:

			// Are implicit assignment conversions
			// to result variables all trivial?
			var resultInfo []returnOperandFlags
			if len(n.Results) > 0 {
				argInfo := func(i int) (ast.Expr, types.Type) {
					expr := n.Results[i]
					return expr, info.TypeOf(expr)
				}
				if len(n.Results) == 1 && sig.Results().Len() > 1 {
					// Spread return: return f() where f.Results > 1.
					tuple := info.TypeOf(n.Results[0]).(*types.Tuple)
					argInfo = func(i int) (ast.Expr, types.Type) {
						return nil, tuple.At(i).Type()
					}
				}
				for i := range sig.Results().Len() {
					expr, typ := argInfo(i)
					var flags returnOperandFlags
					if typ == types.Typ[types.UntypedNil] { // untyped nil is preserved by go/types
						flags |= untypedNilResult
					}
					if !trivialConversion(info.Types[expr].Value, typ, sig.Results().At(i).Type()) {
						flags |= nonTrivialResult
					}
					resultInfo = append(resultInfo, flags)
				}
			} else if sig.Results().Len() > 0 {
				hasBareReturn = true
			}
			returnInfo = append(returnInfo, resultInfo)
		}
		return true
	})

	// Reject attempts to inline cgo-generated functions.
	for _, obj := range freeObjs {
		// There are others (iconst fconst sconst fpvar macro)
		// but this is probably sufficient.
		if strings.HasPrefix(obj.Name, "_Cfunc_") ||
			strings.HasPrefix(obj.Name, "_Ctype_") ||
			strings.HasPrefix(obj.Name, "_Cvar_") {
			return nil, fmt.Errorf("cannot inline cgo-generated functions")
		}
	}

	// Compact content to just the FuncDecl.
	//
	// As a space optimization, we don't retain the complete
	// callee file content; all we need is "package _; func f() { ... }".
	// This reduces the size of analysis facts.
	//
	// Offsets in the callee information are "relocatable"
	// since they are all relative to the FuncDecl.

	content = append([]byte("package _\n"),
		content[offsetOf(fset, decl.Pos()):offsetOf(fset, decl.End())]...)
	// Sanity check: re-parse the compacted content.
	if _, _, err := parseCompact(content); err != nil {
		return nil, err
	}

	params, results, effects, falcon := analyzeParams(logf, fset, info, decl)
	tparams := analyzeTypeParams(logf, fset, info, decl)
	return &Callee{gobCallee{
		Content:          content,
		PkgPath:          pkg.Path(),
		Name:             name,
		GoVersion:        goVersion,
		Unexported:       unexported,
		FreeObjs:         freeObjs,
		FreeRefs:         freeRefs,
		ValidForCallStmt: validForCallStmt,
		NumResults:       sig.Results().Len(),
		Params:           params,
		TypeParams:       tparams,
		Results:          results,
		Effects:          effects,
		HasDefer:         hasDefer,
		HasBareReturn:    hasBareReturn,
		Returns:          returnInfo,
		Labels:           labels,
		Falcon:           falcon,
	}}, nil
}

// parseCompact parses a Go source file of the form "package _\n func f() { ... }"
// and returns the sole function declaration.
func parseCompact(content []byte) (*token.FileSet, *ast.FuncDecl, error) {
	fset := token.NewFileSet()
	const mode = parser.ParseComments | parser.SkipObjectResolution | parser.AllErrors
	f, err := parser.ParseFile(fset, "callee.go", content, mode)
	if err != nil {
		return nil, nil, fmt.Errorf("internal error: cannot compact file: %v", err)
	}
	return fset, f.Decls[0].(*ast.FuncDecl), nil
}

// A paramInfo records information about a callee receiver, parameter, or result variable.
type paramInfo struct {
	Name        string    // parameter name (may be blank, or even "")
	Index       int       // index within signature
	IsResult    bool      // false for receiver or parameter, true for result variable
	IsInterface bool      // parameter has a (non-type parameter) interface type
	Assigned    bool      // parameter appears on left side of an assignment statement
	Escapes     bool      // parameter has its address taken
	Refs        []refInfo // information about references to parameter within body
	Shadow      shadowMap // shadowing info for the above refs; see [shadowMap]
	FalconType  string    // name of this parameter's type (if basic) in the falcon system
}

type refInfo struct {
	Offset           int  // FuncDecl-relative byte offset of parameter ref within body
	Assignable       bool // ref appears in context of assignment to known type
	IfaceAssignment  bool // ref is being assigned to an interface
	AffectsInference bool // ref type may affect type inference
	// IsSelectionOperand indicates whether the parameter reference is the
	// operand of a selection (param.f). If so, and param's argument is itself
	// a receiver parameter (a common case), we don't need to desugar (&v or *ptr)
	// the selection: if param.Method is a valid selection, then so is param.fieldOrMethod.
	IsSelectionOperand bool
}

// analyzeParams computes information about parameters of the function declared by decl,
// including a simple "address taken" escape analysis.
//
// It returns two new arrays, one of the receiver and parameters, and
// the other of the result variables of the function.
//
// The input must be well-typed.
func analyzeParams(logf func(string, ...any), fset *token.FileSet, info *types.Info, decl *ast.FuncDecl) (params, results []*paramInfo, effects []int, _ falconResult) {
	sig := signature(fset, info, decl)

	paramInfos := make(map[*types.Var]*paramInfo)
	{
		newParamInfo := func(param *types.Var, isResult bool) *paramInfo {
			info := &paramInfo{
				Name:        param.Name(),
				IsResult:    isResult,
				Index:       len(paramInfos),
				IsInterface: isNonTypeParamInterface(param.Type()),
			}
			paramInfos[param] = info
			return info
		}
		if sig.Recv() != nil {
			params = append(params, newParamInfo(sig.Recv(), false))
		}
		for v := range sig.Params().Variables() {
			params = append(params, newParamInfo(v, false))
		}
		for v := range sig.Results().Variables() {
			results = append(results, newParamInfo(v, true))
		}
	}

	// Search function body for operations &x, x.f(), and x = y
	// where x is a parameter, and record it.
	escape(info, decl, func(v *types.Var, escapes bool) {
		if info := paramInfos[v]; info != nil {
			if escapes {
				info.Escapes = true
			} else {
				info.Assigned = true
			}
		}
	})

	// Record locations of all references to parameters.
	// And record the set of intervening definitions for each parameter.
	//
	// TODO(adonovan): combine this traversal with the one that computes
	// FreeRefs. The tricky part is that calleefx needs this one first.
	fieldObjs := fieldObjs(sig)
	var stack []ast.Node
	stack = append(stack, decl.Type) // for scope of function itself
	ast.PreorderStack(decl.Body, stack, func(n ast.Node, stack []ast.Node) bool {
		if id, ok := n.(*ast.Ident); ok {
			if v, ok := info.Uses[id].(*types.Var); ok {
				if pinfo, ok := paramInfos[v]; ok {
					// Record ref information, and any intervening (shadowing) names.
					//
					// If the parameter v has an interface type, and the reference id
					// appears in a context where assignability rules apply, there may be
					// an implicit interface-to-interface widening. In that case it is
					// not necessary to insert an explicit conversion from the argument
					// to the parameter's type.
					//
					// Contrapositively, if param is not an interface type, then the
					// assignment may lose type information, for example in the case that
					// the substituted expression is an untyped constant or unnamed type.
					stack = append(stack, n) // (the two calls below want n)
					assignable, ifaceAssign, affectsInference := analyzeAssignment(info, stack)
					ref := refInfo{
						Offset:             int(n.Pos() - decl.Pos()),
						Assignable:         assignable,
						IfaceAssignment:    ifaceAssign,
						AffectsInference:   affectsInference,
						IsSelectionOperand: isSelectionOperand(stack),
					}
					pinfo.Refs = append(pinfo.Refs, ref)
					pinfo.Shadow = pinfo.Shadow.add(info, fieldObjs, pinfo.Name, stack)
				}
			}
		}
		return true
	})

	// Compute subset and order of parameters that are strictly evaluated.
	// (Depends on Refs computed above.)
	effects = calleefx(info, decl.Body, paramInfos)
	logf("effects list = %v", effects)

	falcon := falcon(logf, fset, paramInfos, info, decl)

	return params, results, effects, falcon
}

// analyzeTypeParams computes information about the type parameters of the function declared by decl.
func analyzeTypeParams(_ logger, fset *token.FileSet, info *types.Info, decl *ast.FuncDecl) []*paramInfo {
	sig := signature(fset, info, decl)
	paramInfos := make(map[*types.TypeName]*paramInfo)
	var params []*paramInfo
	collect := func(tpl *types.TypeParamList) {
		for tparam := range tpl.TypeParams() {
			typeName := tparam.Obj()
			info := &paramInfo{Name: typeName.Name()}
			params = append(params, info)
			paramInfos[typeName] = info
		}
	}
	collect(sig.RecvTypeParams())
	collect(sig.TypeParams())

	// Find references.
	// We don't care about most of the properties that matter for parameter references:
	// a type is immutable, cannot have its address taken, and does not undergo conversions.
	// TODO(jba): can we nevertheless combine this with the traversal in analyzeParams?
	visit := func(n ast.Node, stack []ast.Node) bool {
		if id, ok := n.(*ast.Ident); ok {
			if v, ok := info.Uses[id].(*types.TypeName); ok {
				if pinfo, ok := paramInfos[v]; ok {
					ref := refInfo{Offset: int(n.Pos() - decl.Pos())}
					pinfo.Refs = append(pinfo.Refs, ref)
					pinfo.Shadow = pinfo.Shadow.add(info, nil, pinfo.Name, stack)
				}
			}
		}
		return true
	}
	var stack []ast.Node
	stack = append(stack, decl.Type) // for scope of function itself
	if decl.Type.Params != nil {
		ast.PreorderStack(decl.Type.Params, stack, visit)
	}
	if decl.Type.Results != nil {
		ast.PreorderStack(decl.Type.Results, stack, visit)
	}
	ast.PreorderStack(decl.Body, stack, visit)
	return params
}

func signature(fset *token.FileSet, info *types.Info, decl *ast.FuncDecl) *types.Signature {
	fnobj, ok := info.Defs[decl.Name]
	if !ok {
		panic(fmt.Sprintf("%s: no func object for %q",
			fset.PositionFor(decl.Name.Pos(), false), decl.Name)) // ill-typed?
	}
	return fnobj.Type().(*types.Signature)
}

// -- callee helpers --

// analyzeAssignment looks at the given stack, and analyzes certain
// attributes of the innermost expression.
//
// In all cases we 'fail closed' when we cannot detect (or for simplicity
// choose not to detect) the condition in question, meaning we err on the side
// of the more restrictive rule. This is noted for each result below.
//
//   - assignable reports whether the expression is used in a position where
//     assignability rules apply, such as in an actual assignment, as call
//     argument, or in a send to a channel. Defaults to 'false'. If assignable
//     is false, the other two results are irrelevant.
//   - ifaceAssign reports whether that assignment is to an interface type.
//     This is important as we want to preserve the concrete type in that
//     assignment. Defaults to 'true'. Notably, if the assigned type is a type
//     parameter, we assume that it could have interface type.
//   - affectsInference is (somewhat vaguely) defined as whether or not the
//     type of the operand may affect the type of the surrounding syntax,
//     through type inference. It is infeasible to completely reverse engineer
//     type inference, so we over approximate: if the expression is an argument
//     to a call to a generic function (but not method!) that uses type
//     parameters, assume that unification of that argument may affect the
//     inferred types.
func analyzeAssignment(info *types.Info, stack []ast.Node) (assignable, ifaceAssign, affectsInference bool) {
	remaining, parent, expr := exprContext(stack)
	if parent == nil {
		return false, false, false
	}

	// TODO(golang/go#70638): simplify when types.Info records implicit conversions.

	// Types do not need to match for assignment to a variable.
	if assign, ok := parent.(*ast.AssignStmt); ok {
		for i, v := range assign.Rhs {
			if v == expr {
				if i >= len(assign.Lhs) {
					return false, false, false // ill typed
				}
				// Check to see if the assignment is to an interface type.
				if i < len(assign.Lhs) {
					// TODO: We could handle spread calls here, but in current usage expr
					// is an ident.
					if id, _ := assign.Lhs[i].(*ast.Ident); id != nil && info.Defs[id] != nil {
						// Types must match for a defining identifier in a short variable
						// declaration.
						return false, false, false
					}
					// In all other cases, types should be known.
					typ := info.TypeOf(assign.Lhs[i])
					return true, typ == nil || types.IsInterface(typ), false
				}
				// Default:
				return assign.Tok == token.ASSIGN, true, false
			}
		}
	}

	// Types do not need to match for an initializer with known type.
	if spec, ok := parent.(*ast.ValueSpec); ok && spec.Type != nil {
		if slices.Contains(spec.Values, expr) {
			typ := info.TypeOf(spec.Type)
			return true, typ == nil || types.IsInterface(typ), false
		}
	}

	// Types do not need to match for index expressions.
	if ix, ok := parent.(*ast.IndexExpr); ok {
		if ix.Index == expr {
			typ := info.TypeOf(ix.X)
			if typ == nil {
				return true, true, false
			}
			m, _ := typeparams.CoreType(typ).(*types.Map)
			return true, m == nil || types.IsInterface(m.Key()), false
		}
	}

	// Types do not need to match for composite literal keys, values, or
	// fields.
	if kv, ok := parent.(*ast.KeyValueExpr); ok {
		var under types.Type
		if len(remaining) > 0 {
			if complit, ok := remaining[len(remaining)-1].(*ast.CompositeLit); ok {
				if typ := info.TypeOf(complit); typ != nil {
					// Unpointer to allow for pointers to slices or arrays, which are
					// permitted as the types of nested composite literals without a type
					// name.
					under = typesinternal.Unpointer(typeparams.CoreType(typ))
				}
			}
		}
		if kv.Key == expr { // M{expr: ...}: assign to map key
			m, _ := under.(*types.Map)
			return true, m == nil || types.IsInterface(m.Key()), false
		}
		if kv.Value == expr {
			switch under := under.(type) {
			case interface{ Elem() types.Type }: // T{...: expr}: assign to map/array/slice element
				return true, types.IsInterface(under.Elem()), false
			case *types.Struct: // Struct{k: expr}
				if id, _ := kv.Key.(*ast.Ident); id != nil {
					for field := range under.Fields() {
						if info.Uses[id] == field {
							return true, types.IsInterface(field.Type()), false
						}
					}
				}
			default:
				return true, true, false
			}
		}
	}
	if lit, ok := parent.(*ast.CompositeLit); ok {
		for i, v := range lit.Elts {
			if v == expr {
				typ := info.TypeOf(lit)
				if typ == nil {
					return true, true, false
				}
				// As in the KeyValueExpr case above, unpointer to handle pointers to
				// array/slice literals.
				under := typesinternal.Unpointer(typeparams.CoreType(typ))
				switch under := under.(type) {
				case interface{ Elem() types.Type }: // T{expr}: assign to map/array/slice element
					return true, types.IsInterface(under.Elem()), false
				case *types.Struct: // Struct{expr}: assign to unkeyed struct field
					if i < under.NumFields() {
						return true, types.IsInterface(under.Field(i).Type()), false
					}
				}
				return true, true, false
			}
		}
	}

	// Types do not need to match for values sent to a channel.
	if send, ok := parent.(*ast.SendStmt); ok {
		if send.Value == expr {
			typ := info.TypeOf(send.Chan)
			if typ == nil {
				return true, true, false
			}
			ch, _ := typeparams.CoreType(typ).(*types.Chan)
			return true, ch == nil || types.IsInterface(ch.Elem()), false
		}
	}

	// Types do not need to match for an argument to a call, unless the
	// corresponding parameter has type parameters, as in that case the
	// argument type may affect inference.
	if call, ok := parent.(*ast.CallExpr); ok {
		if _, ok := isConversion(info, call); ok {
			return false, false, false // redundant conversions are handled at the call site
		}
		// Ordinary call. Could be a call of a func, builtin, or function value.
		for i, arg := range call.Args {
			if arg == expr {
				typ := info.TypeOf(call.Fun)
				if typ == nil {
					return true, true, false
				}
				sig, ok := typeparams.CoreType(typ).(*types.Signature)
				if ok {
					// Find the relevant parameter type, accounting for variadics.
					paramType := paramTypeAtIndex(sig, call, i)
					ifaceAssign := paramType == nil || types.IsInterface(paramType)
					affectsInference := false
					switch callee := typeutil.Callee(info, call).(type) {
					case *types.Builtin:
						// Consider this litmus test:
						//
						//   func f(x int64) any { return max(x) }
						//   func main() { fmt.Printf("%T", f(42)) }
						//
						// If we lose the implicit conversion from untyped int
						// to int64, the type inferred for the max(x) call changes,
						// resulting in a different dynamic behavior: it prints
						// int, not int64.
						//
						// Inferred result type affected:
						//    new
						//    complex, real, imag
						//    min, max
						//
						// Dynamic behavior change:
						//    append         -- dynamic type of append([]any(nil), x)[0]
						//    delete(m, x)   -- dynamic key type where m is map[any]unit
						//    panic          -- dynamic type of panic value
						//
						// Unaffected:
						//    recover
						//    make
						//    len, cap
						//    clear
						//    close
						//    copy
						//    print, println  -- only uses underlying types (?)
						//
						// The dynamic type cases are all covered by
						// the ifaceAssign logic.
						switch callee.Name() {
						case "new", "complex", "real", "imag", "min", "max":
							affectsInference = true
						}

					case *types.Func:
						// Only standalone (non-method) functions have type
						// parameters affected by the call arguments.
						if sig2 := callee.Signature(); sig2.Recv() == nil {
							originParamType := paramTypeAtIndex(sig2, call, i)
							affectsInference = originParamType == nil || new(typeparams.Free).Has(originParamType)
						}
					}
					return true, ifaceAssign, affectsInference
				}
			}
		}
	}

	return false, false, false
}

// paramTypeAtIndex returns the effective parameter type at the given argument
// index in call, if valid.
func paramTypeAtIndex(sig *types.Signature, call *ast.CallExpr, index int) types.Type {
	if plen := sig.Params().Len(); sig.Variadic() && index >= plen-1 && !call.Ellipsis.IsValid() {
		if s, ok := sig.Params().At(plen - 1).Type().(*types.Slice); ok {
			return s.Elem()
		}
	} else if index < plen {
		return sig.Params().At(index).Type()
	}
	return nil // ill typed
}

// exprContext returns the innermost parent->child expression nodes for the
// given outer-to-inner stack, after stripping parentheses, along with the
// remaining stack up to the parent node.
//
// If no such context exists, returns (nil, nil, nil).
func exprContext(stack []ast.Node) (remaining []ast.Node, parent ast.Node, expr ast.Expr) {
	expr, _ = stack[len(stack)-1].(ast.Expr)
	if expr == nil {
		return nil, nil, nil
	}
	i := len(stack) - 2
	for ; i >= 0; i-- {
		if pexpr, ok := stack[i].(*ast.ParenExpr); ok {
			expr = pexpr
		} else {
			parent = stack[i]
			break
		}
	}
	if parent == nil {
		return nil, nil, nil
	}
	// inv: i is the index of parent in the stack.
	return stack[:i], parent, expr
}

// isSelectionOperand reports whether the innermost node of stack is operand
// (x) of a selection x.f.
func isSelectionOperand(stack []ast.Node) bool {
	_, parent, expr := exprContext(stack)
	if parent == nil {
		return false
	}
	sel, ok := parent.(*ast.SelectorExpr)
	return ok && sel.X == expr
}

// A shadowMap records information about shadowing at any of the parameter's
// references within the callee decl.
//
// For each name shadowed at a reference to the parameter within the callee
// body, shadow map records the 1-based index of the callee decl parameter
// causing the shadowing, or -1, if the shadowing is not due to a callee decl.
// A value of zero (or missing) indicates no shadowing. By convention,
// self-shadowing is excluded from the map.
//
// For example, in the following callee
//
//	func f(a, b int) int {
//		c := 2 + b
//		return a + c
//	}
//
// the shadow map of a is {b: 2, c: -1}, because b is shadowed by the 2nd
// parameter. The shadow map of b is {a: 1}, because c is not shadowed at the
// use of b.
type shadowMap map[string]int

// add returns the [shadowMap] augmented by the set of names
// locally shadowed at the location of the reference in the callee
// (identified by the stack). The name of the reference itself is
// excluded.
//
// These shadowed names may not be used in a replacement expression
// for the reference.
func (s shadowMap) add(info *types.Info, paramIndexes map[types.Object]int, exclude string, stack []ast.Node) shadowMap {
	for _, n := range stack {
		if scope := scopeFor(info, n); scope != nil {
			for _, name := range scope.Names() {
				if name != exclude {
					if s == nil {
						s = make(shadowMap)
					}
					obj := scope.Lookup(name)
					if idx, ok := paramIndexes[obj]; ok {
						s[name] = idx + 1
					} else {
						s[name] = -1
					}
				}
			}
		}
	}
	return s
}

var (
	_ gob.GobEncoder = (*shadowMap)(nil)
	_ gob.GobDecoder = (*shadowMap)(nil)
)

// GobEncode implements gob.GobEncoder, encoding the map's entries in a
// deterministic order so that serialized facts are stable.
func (s *shadowMap) GobEncode() ([]byte, error) {
	entries := moremaps.Entries(*s)
	slices.SortFunc(entries, func(x, y moremaps.Entry[string, int]) int {
		return cmp.Compare(x.Key, y.Key)
	})
	var out bytes.Buffer
	if err := gob.NewEncoder(&out).Encode(entries); err != nil {
		return nil, err
	}
	return out.Bytes(), nil
}

func (s *shadowMap) GobDecode(data []byte) error {
	var entries []moremaps.Entry[string, int]
	if err := gob.NewDecoder(bytes.NewReader(data)).Decode(&entries); err != nil {
		return err
	}
	*s = moremaps.FromEntries(entries)
	return nil
}

// fieldObjs returns a map of each types.Object defined by the given signature
// to its index in the parameter list. Parameters with missing or blank name
// are skipped.
func fieldObjs(sig *types.Signature) map[types.Object]int {
	m := make(map[types.Object]int)
	for i := range sig.Params().Len() {
		if p := sig.Params().At(i); p.Name() != "" && p.Name() != "_" {
			m[p] = i
		}
	}
	return m
}

func isField(obj types.Object) bool {
	if v, ok := obj.(*types.Var); ok && v.IsField() {
		return true
	}
	return false
}

func isMethod(obj types.Object) bool {
	if f, ok := obj.(*types.Func); ok && f.Type().(*types.Signature).Recv() != nil {
		return true
	}
	return false
}

// -- serialization --

var (
	_ gob.GobEncoder = (*Callee)(nil)
	_ gob.GobDecoder = (*Callee)(nil)
)

func (callee *Callee) GobEncode() ([]byte, error) {
	var out bytes.Buffer
	if err := gob.NewEncoder(&out).Encode(callee.impl); err != nil {
		return nil, err
	}
	return out.Bytes(), nil
}

func (callee *Callee) GobDecode(data []byte) error {
	return gob.NewDecoder(bytes.NewReader(data)).Decode(&callee.impl)
}
