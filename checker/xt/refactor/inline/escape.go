// Copyright 2023 The Go Authors. All rights reserved.
// Use of this source code is governed by a BSD-style
// license that can be found in the LICENSE file.

package inline

import (
	"fmt"
	"go/ast"
	"go/token"
	"go/types"
)

// escape implements a simple "address-taken" escape analysis. It
// calls f for each local variable that appears on the left side of an
// assignment (escapes=false) or has its address taken (escapes=true).
// The initialization of a variable by its declaration does not count
// as an assignment.
func escape(info *types.Info, root ast.Node, f func(v *types.Var, escapes bool)) {

	// lvalue is called for each address-taken expression or LHS of assignment.
	// Supported forms are: x, (x), x[i], x.f, *x, T{}.
	var lvalue func(e ast.Expr, escapes bool)
	lvalue = func(e ast.Expr, escapes bool) {
		switch e := e.(type) {
		case *ast.Ident:
			if v, ok := info.Uses[e].(*types.Var); ok {
				if !isPkgLevel(v) {
					f(v, escapes)
				}
			}
		case *ast.ParenExpr:
			lvalue(e.X, escapes)
		case *ast.IndexExpr:
			// TODO(adonovan): support generics without assuming e.X has a core type.
			// Consider:
			//
			// func Index[T interface{ [3]int | []int }](t T, i int) *int {
			//     return &t[i]
			// }
			//
			// We must traverse the normal terms and check
			// whether any of them is an array.
			//
			// We assume TypeOf returns non-nil.
			if _, ok := info.TypeOf(e.X).Underlying().(*types.Array); ok {
				lvalue(e.X, escapes) // &a[i] on array
			}
		case *ast.SelectorExpr:
			// We assume TypeOf returns non-nil.
			if _, ok := info.TypeOf(e.X).Underlying().(*types.Struct); ok {
				lvalue(e.X, escapes) // &s.f on struct
			}
		case *ast.StarExpr:
			// *ptr indirects an existing pointer
		case *ast.CompositeLit:
			// &T{...} creates a new variable
		default:
			panic(fmt.Sprintf("&x on %T", e)) // unreachable in well-typed code
		}
	}

	// Search function body for operations &x, x.f(), x++, and x = y
	// where x is a parameter. Each of these treats x as an address.
	ast.Inspect(root, func(n ast.Node) bool {
		switch n := n.(type) {
		case *ast.UnaryExpr:
			if n.Op == token.AND {
				lvalue(n.X, true) // &x
			}

		case *ast.CallExpr:
			// implicit &x in method call x.f(),
			// where x has type T and method is (*T).f
			if sel, ok := n.Fun.(*ast.SelectorExpr); ok {
				if seln, ok := info.Selections[sel]; ok &&
					seln.Kind() == types.MethodVal &&
					isPointer(seln.Obj().Type().Underlying().(*types.Signature).Recv().Type()) {
					tArg, indirect := effectiveReceiver(seln)
					if !indirect && !isPointer(tArg) {
						lvalue(sel.X, true) // &x.f
					}
				}
			}

		case *ast.AssignStmt:
			for _, lhs := range n.Lhs {
				if id, ok := lhs.(*ast.Ident); ok &&
					info.Defs[id] != nil &&
					n.Tok == token.DEFINE {
					// declaration: doesn't count
				} else {
					lvalue(lhs, false)
				}
			}

		case *ast.IncDecStmt:
			lvalue(n.X, false)
		}
		return true
	})
}
