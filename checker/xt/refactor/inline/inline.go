// Copyright 2023 The Go Authors. All rights reserved.
// Use of this source code is governed by a BSD-style
// license that can be found in the LICENSE file.

package inline

import (
	"bytes"
	"fmt"
	"go/ast"
	"go/constant"
	"go/format"
	"go/parser"
	"go/token"
	"go/types"
	"maps"
	pathpkg "path"
	"reflect"
	"slices"
	"strings"

	"golang.org/x/tools/go/ast/astutil"
	"golang.org/x/tools/go/types/typeutil"
	internalastutil "decverif/xt/astutil"
	"decverif/xt/astutil/free"
	"decverif/xt/packagepath"
	"decverif/xt/refactor"
	"decverif/xt/typeparams"
	"decverif/xt/typesinternal"
	"decverif/xt/versions"
)

// A Caller describes the function call and its enclosing context.
//
// The client is responsible for populating this struct and passing it to Inline.
type Caller struct {
	Fset  *token.FileSet
	Types *types.Package
	Info  *types.Info
	File  *ast.File
	Call  *ast.CallExpr

	// CountUses is an optional optimized computation of
	// the number of times pkgname appears in Info.Uses.
	CountUses func(pkgname *types.PkgName) int

	path          []ast.Node    // path from call to root of file syntax tree
	enclosingFunc *ast.FuncDecl // top-level function/method enclosing the call, if any
}

type logger = func(string, ...any)

// Options specifies parameters affecting the inliner algorithm.
// All fields are optional.
type Options struct {
	Logf          logger // log output function, records decision-making process
	IgnoreEffects bool   // ignore potential side effects of arguments (unsound)
	Recover       bool   // catch panics from inliner and report as errors (for ill-typed ASTs)
}

// Result holds the result of code transformation.
type Result struct {
	Edits       []refactor.Edit // edits around CallExpr and imports
	Literalized bool            // chosen strategy replaced callee() with func(){...}()
	BindingDecl bool            // transformation added "var params = args" declaration
}

// Inline inlines the called function (callee) into the function call (caller)
// and returns the updated, formatted content of the caller source file.
//
// Inline does not mutate any public fields of Caller or Callee.
func Inline(caller *Caller, callee *Callee, opts *Options) (res *Result, err error) {
	if opts == nil {
		opts = new(Options)
	} else {
		opts = new(*opts)
	}
	// Set default options.
	if opts.Logf == nil {
		opts.Logf = func(string, ...any) {}
	}
	if opts.Recover {
		defer func() {
			if x := recover(); x != nil {
				err = fmt.Errorf("inlining failed (%q), likely because inputs were ill-typed", x)
			}
		}()
	}

	st := &state{
		caller: caller,
		callee: callee,
		opts:   opts,
	}
	return st.inline()
}

// state holds the working state of the inliner.
type state struct {
	caller *Caller
	callee *Callee
	opts   *Options
}

func (st *state) inline() (*Result, error) {
	logf, caller, callee := st.opts.Logf, st.caller, st.callee

	logf("inline %s @ %v",
		debugFormatNode(caller.Fset, caller.Call),
		caller.Fset.PositionFor(caller.Call.Lparen, false))

	if ast.IsGenerated(caller.File) {
		return nil, fmt.Errorf("cannot inline calls from generated files")
	}

	res, err := st.inlineCall()
	if err != nil {
		return nil, err
	}

	// Replace the call (or some node that encloses it) by new syntax.
	assert(res.old != nil, "old is nil")
	assert(res.new != nil, "new is nil")

	// A single return operand inlined to a unary
	// expression context may need parens. Otherwise:
	//    func two() int { return 1+1 }
	//    print(-two())  =>  print(-1+1) // oops!
	//
	// Usually it is not necessary to insert ParenExprs
	// as the formatter is smart enough to insert them as
	// needed by the context. But the res.{old,new}
	// substitution is done by formatting res.new in isolation
	// and then splicing its text over res.old, so the
	// formatter doesn't see the parent node and cannot do
	// the right thing. (One solution would be to always
	// format the enclosing node of old, but that requires
	// non-lossy comment handling, #20744.)
	//
	// So, we must analyze the call's context
	// to see whether ambiguity is possible.
	// For example, if the context is x[y:z], then
	// the x subtree is subject to precedence ambiguity
	// (replacing x by p+q would give p+q[y:z] which is wrong)
	// but the y and z subtrees are safe.
	if new, ok := res.new.(ast.Expr); ok {
		parent := caller.path[slices.Index(caller.path, res.old)+1]
		res.new = internalastutil.MaybeParenthesize(parent, res.old.(ast.Expr), new)
	}

	// Some reduction strategies return a new block holding the
	// callee's statements. The block's braces may be elided when
	// there is no conflict between names declared in the block
	// with those declared by the parent block, and no risk of
	// a caller's goto jumping forward across a declaration.
	//
	// This elision is only safe when the ExprStmt is beneath a
	// BlockStmt, CaseClause.Body, or CommClause.Body;
	// (see "statement theory").
	//
	// The inlining analysis may have already determined that eliding braces is
	// safe. Otherwise, we analyze its safety here.
	elideBraces := res.elideBraces
	if !elideBraces {
		if newBlock, ok := res.new.(*ast.BlockStmt); ok {
			i := slices.Index(caller.path, res.old)
			parent := caller.path[i+1]
			var body []ast.Stmt
			switch parent := parent.(type) {
			case *ast.BlockStmt:
				body = parent.List
			case *ast.CommClause:
				body = parent.Body
			case *ast.CaseClause:
				body = parent.Body
			}
			if body != nil {
				callerNames := declares(body)

				// If BlockStmt is a function body,
				// include its receiver, params, and results.
				addFieldNames := func(fields *ast.FieldList) {
					if fields != nil {
						for _, field := range fields.List {
							for _, id := range field.Names {
								callerNames[id.Name] = true
							}
						}
					}
				}
				switch f := caller.path[i+2].(type) {
				case *ast.FuncDecl:
					addFieldNames(f.Recv)
					addFieldNames(f.Type.Params)
					addFieldNames(f.Type.Results)
				case *ast.FuncLit:
					addFieldNames(f.Type.Params)
					addFieldNames(f.Type.Results)
				}

				if len(callerLabels(caller.path)) > 0 {
					// TODO(adonovan): be more precise and reject
					// only forward gotos across the inlined block.
					logf("keeping block braces: caller uses control labels")
				} else if intersects(declares(newBlock.List), callerNames) {
					logf("keeping block braces: avoids name conflict")
				} else {
					elideBraces = true
				}
			}
		}
	}

	var edits []refactor.Edit

	// Format the cloned callee.
	{
		// TODO(adonovan): might it make more sense to use
		// callee.Fset when formatting res.new?
		// The new tree is a mix of (cloned) caller nodes for
		// the argument expressions and callee nodes for the
		// function body. In essence the question is: which
		// is more likely to have comments?
		// Usually the callee body will be larger and more
		// statement-heavy than the arguments, but a
		// strategy may widen the scope of the replacement
		// (res.old) from CallExpr to, say, its enclosing
		// block, so the caller nodes dominate.
		// Precise comment handling would make this a
		// non-issue. Formatting wouldn't really need a
		// FileSet at all.

		var out bytes.Buffer
		if elideBraces {
			for i, stmt := range res.new.(*ast.BlockStmt).List {
				if i > 0 {
					out.WriteByte('\n')
				}
				if err := format.Node(&out, caller.Fset, stmt); err != nil {
					return nil, err
				}
			}
		} else {
			if err := format.Node(&out, caller.Fset, res.new); err != nil {
				return nil, err
			}
		}

		edits = append(edits, refactor.Edit{
			Pos:     res.old.Pos(),
			End:     res.old.End(),
			NewText: out.Bytes(),
		})
	}

	// Add new imports.
	//
	// It's possible that not all are needed (e.g. for type names
	// that melted away), but we'll let the client (such as an
	// analysis driver) clean it up since it must remove unused
	// imports anyway.
	for _, imp := range res.newImports {
		// Check that the new imports are accessible.
		if !packagepath.CanImport(caller.Types.Path(), imp.path) {
			return nil, fmt.Errorf("can't inline function %v as its body refers to inaccessible package %q", callee, imp.path)
		}

		// We've already validated the import, so we call
		// AddImportEdits directly to compute the edit.
		name := ""
		if imp.explicit {
			name = imp.name
		}
		edits = append(edits, refactor.AddImportEdits(caller.File, name, imp.path)...)
	}

	literalized := false
	if call, ok := res.new.(*ast.CallExpr); ok && is[*ast.FuncLit](call.Fun) {
		literalized = true
	}

	// Delete imports referenced only by caller.Call.Fun.
	//
	// It's ambiguous to let the client (e.g. analysis driver)
	// remove unneeded imports in this case because it is common
	// to inlining a call from "dir1/a".F to "dir2/a".F, which
	// leaves two imports of packages named 'a', both providing a.F.
	//
	// However, the only two import deletion tools at our disposal
	// are astutil.DeleteNamedImport, which mutates the AST, and
	// refactor.Delete{Spec,Decl}, which need a Cursor. So we need
	// to reinvent the wheel here.
	for _, oldImport := range res.oldImports {
		spec := oldImport.spec

		// Include adjacent comments.
		pos := spec.Pos()
		if doc := spec.Doc; doc != nil {
			pos = doc.Pos()
		}
		end := spec.End()
		if doc := spec.Comment; doc != nil {
			end = doc.End()
		}

		// Find the enclosing import decl.
		// If it's paren-less, we must delete it too.
		for _, decl := range caller.File.Decls {
			decl, ok := decl.(*ast.GenDecl)
			if !(ok && decl.Tok == token.IMPORT) {
				break // stop at first non-import decl
			}
			if internalastutil.NodeContainsPos(decl, spec.Pos()) && !decl.Rparen.IsValid() {
				// Include adjacent comments.
				pos = decl.Pos()
				if doc := decl.Doc; doc != nil {
					pos = doc.Pos()
				}
				end = decl.End()
				break
			}
		}

		edits = append(edits, refactor.Edit{
			Pos: pos,
			End: end,
		})
	}

	return &Result{
		Edits:       edits,
		Literalized: literalized,
		BindingDecl: res.bindingDecl,
	}, nil
}

// An oldImport is an import that will be deleted from the caller file.
type oldImport struct {
	pkgName *types.PkgName
	spec    *ast.ImportSpec
}

// A newImport is an import that will be added to the caller file.
type newImport struct {
	name     string
	path     string
	explicit bool // use name as ImportSpec.Name
}

// importState tracks information about imports.
type importState struct {
	logf       func(string, ...any)
	caller     *Caller
	importMap  map[string][]string // from package paths in the caller's file to local names
	newImports []newImport         // for references to free names in callee; to be added to the file
	oldImports []oldImport         // referenced only by caller.Call.Fun; to be removed from the file
}

// newImportState returns an importState with initial information about the caller's imports.
func newImportState(logf func(string, ...any), caller *Caller, callee *gobCallee) *importState {
	// For simplicity we ignore existing dot imports, so that a qualified
	// identifier (QI) in the callee is always represented by a QI in the caller,
	// allowing us to treat a QI like a selection on a package name.
	ist := &importState{
		logf:      logf,
		caller:    caller,
		importMap: make(map[string][]string),
	}

	// Provide an inefficient default implementation of CountUses.
	// (Ideally clients amortize this for the entire package.)
	countUses := caller.CountUses
	if countUses == nil {
		uses := make(map[*types.PkgName]int)
		for _, obj := range caller.Info.Uses {
			if pkgname, ok := obj.(*types.PkgName); ok {
				uses[pkgname]++
			}
		}
		countUses = func(pkgname *types.PkgName) int {
			return uses[pkgname]
		}
	}

	for _, imp := range caller.File.Imports {
		if pkgName, ok := importedPkgName(caller.Info, imp); ok &&
			pkgName.Name() != "." &&
			pkgName.Name() != "_" {

			// If the import's sole use is in caller.Call.Fun of the form p.F(...),
			// where p.F is a qualified identifier, the p import may not be
			// necessary.
			//
			// Only the qualified identifier case matters, as other references to
			// imported package names in the Call.Fun expression (e.g.
			// x.after(3*time.Second).f() or time.Second.String()) will remain after
			// inlining, as arguments.
			//
			// If that is the case, proactively check if any of the callee FreeObjs
			// need this import. Doing so eagerly simplifies the resulting logic.
			needed := true
			if sel, ok := ast.Unparen(caller.Call.Fun).(*ast.SelectorExpr); ok &&
				is[*ast.Ident](sel.X) &&
				caller.Info.Uses[sel.X.(*ast.Ident)] == pkgName &&
				countUses(pkgName) == 1 {
				needed = false // no longer needed by caller
				// Check to see if any of the inlined free objects need this package.
				for _, obj := range callee.FreeObjs {
					if obj.PkgPath == pkgName.Imported().Path() && obj.Shadow[pkgName.Name()] == 0 {
						needed = true // needed by callee
						break
					}
				}
			}

			// Exclude imports not needed by the caller or callee after inlining; the second
			// return value holds these.
			if needed {
				path := pkgName.Imported().Path()
				ist.importMap[path] = append(ist.importMap[path], pkgName.Name())
			} else {
				ist.oldImports = append(ist.oldImports, oldImport{pkgName: pkgName, spec: imp})
			}
		}
	}
	return ist
}

// importName finds an existing import name to use in a particular shadowing
// context. It is used to determine the set of new imports in
// localName, and is also used for writing out names in inlining
// strategies below.
func (i *importState) importName(pkgPath string, shadow shadowMap) string {
	for _, name := range i.importMap[pkgPath] {
		// Check that either the import preexisted, or that it was newly added
		// (no PkgName) but is not shadowed, either in the callee (shadows) or
		// caller (caller.lookup).
		if shadow[name] == 0 {
			found := i.caller.lookup(name)
			if is[*types.PkgName](found) || found == nil {
				return name
			}
		}
	}
	return ""
}

// findNewLocalName returns a new local package name to use in a particular shadowing context.
// It considers the existing local name used by the callee, or construct a new local name
// based on the package name.
func (i *importState) findNewLocalName(pkgName, calleePkgName string, shadow shadowMap) string {
	newlyAdded := func(name string) bool {
		return slices.ContainsFunc(i.newImports, func(n newImport) bool { return n.name == name })
	}

	// shadowedInCaller reports whether a candidate package name
	// already refers to a declaration in the caller.
	shadowedInCaller := func(name string) bool {
		obj := i.caller.lookup(name)
		if obj == nil {
			return false
		}
		// If obj will be removed, the name is available.
		return !slices.ContainsFunc(i.oldImports, func(o oldImport) bool { return o.pkgName == obj })
	}

	// import added by callee
	//
	// Try to preserve the local package name used by the callee first.
	//
	// If that is shadowed, choose a local package name based on last segment of
	// package path plus, if needed, a numeric suffix to ensure uniqueness.
	//
	// "init" is not a legal PkgName.
	if shadow[calleePkgName] == 0 && !shadowedInCaller(calleePkgName) && !newlyAdded(calleePkgName) && calleePkgName != "init" {
		return calleePkgName
	}

	base := pkgName
	name := base
	for n := 0; shadow[name] != 0 || shadowedInCaller(name) || newlyAdded(name) || name == "init"; n++ {
		name = fmt.Sprintf("%s%d", base, n)
	}

	return name
}

// localName returns the local name for a given imported package path,
// adding one if it doesn't exists.
func (i *importState) localName(pkgPath, pkgName, calleePkgName string, shadow shadowMap) string {
	// Does an import already exist that works in this shadowing context?
	if name := i.importName(pkgPath, shadow); name != "" {
		return name
	}

	name := i.findNewLocalName(pkgName, calleePkgName, shadow)
	i.logf("adding import %s %q", name, pkgPath)
	// Use explicit pkgname (out of necessity) when it differs from the declared name,
	// or (for good style) when it differs from base(pkgpath).
	i.newImports = append(i.newImports, newImport{
		name:     name,
		path:     pkgPath,
		explicit: name != pkgName || name != pathpkg.Base(pkgPath),
	})
	i.importMap[pkgPath] = append(i.importMap[pkgPath], name)
	return name
}

type inlineCallResult struct {
	newImports []newImport // to add
	oldImports []oldImport // to remove

	// If elideBraces is set, old is an ast.Stmt and new is an ast.BlockStmt to
	// be spliced in. This allows the inlining analysis to assert that inlining
	// the block is OK; if elideBraces is unset and old is an ast.Stmt and new is
	// an ast.BlockStmt, braces may still be elided if the post-processing
	// analysis determines that it is safe to do so.
	//
	// Ideally, it would not be necessary for the inlining analysis to "reach
	// through" to the post-processing pass in this way. Instead, inlining could
	// just set old to be an ast.BlockStmt and rewrite the entire BlockStmt, but
	// unfortunately in order to preserve comments, it is important that inlining
	// replace as little syntax as possible.
	elideBraces bool
	bindingDecl bool     // transformation inserted "var params = args" declaration
	old, new    ast.Node // e.g. replace call expr by callee function body expression
}

// inlineCall returns a pair of an old node (the call, or something
// enclosing it) and a new node (its replacement, which may be a
// combination of caller, callee, and new nodes), along with the set
// of new imports needed.
//
// TODO(adonovan): rethink the 'result' interface. The assumption of a
// one-to-one replacement seems fragile. One can easily imagine the
// transformation replacing the call and adding new variable
// declarations, for example, or replacing a call statement by zero or
// many statements.)
// NOTE(rfindley): we've sort-of done this, with the 'elideBraces' flag that
// allows inlining a statement list. However, due to loss of comments, more
// sophisticated rewrites are challenging.
//
// TODO(rfindley): see if we can reduce the amount of comment lossiness by
// using printer.CommentedNode, which has been useful elsewhere.
//
// TODO(rfindley): inlineCall is getting very long, and very stateful, making
// it very hard to read. The following refactoring may improve readability and
// maintainability:
//   - Rename 'state' to 'callsite', since that is what it encapsulates.
//   - Add results of pre-processing analysis into the callsite struct, such as
//     the effective importMap, new/old imports, arguments, etc. Essentially
//     anything that resulted from initial analysis of the call site, and which
//     may be useful to inlining strategies.
//   - Delegate this call site analysis to a constructor or initializer, such
//     as 'analyzeCallsite', so that it does not consume bandwidth in the
//     'inlineCall' logical flow.
//   - Once analyzeCallsite returns, the callsite is immutable, much in the
//     same way as the Callee and Caller are immutable.
//   - Decide on a standard interface for strategies (and substrategies), such
//     that they may be delegated to a separate method on callsite.
//
// In this way, the logical flow of inline call will clearly follow the
// following structure:
//  1. Analyze the call site.
//  2. Try strategies, in order, until one succeeds.
//  3. Process the results.
//
// If any expensive analysis may be avoided by earlier strategies, it can be
// encapsulated in its own type and passed to subsequent strategies.
func (st *state) inlineCall() (*inlineCallResult, error) {
	logf, caller, callee := st.opts.Logf, st.caller, &st.callee.impl

	checkInfoFields(caller.Info)

	// Inlining of dynamic calls is not currently supported,
	// even for local closure calls. (This would be a lot of work.)
	calleeSymbol := typeutil.StaticCallee(caller.Info, caller.Call)
	if calleeSymbol == nil {
		// e.g. interface method
		return nil, fmt.Errorf("cannot inline: not a static function call")
	}

	// Reject cross-package inlining if callee has
	// free references to unexported symbols.
	samePkg := caller.Types.Path() == callee.PkgPath
	if !samePkg && len(callee.Unexported) > 0 {
		return nil, fmt.Errorf("cannot inline call to %s because body refers to non-exported %s",
			callee.Name, callee.Unexported[0])
	}

	// Reject cross-file inlining if callee requires a newer dialect of Go (#75726).
	// (Versions default to types.Config.GoVersion, which is unset in many tests,
	// though should be populated by an analysis driver.)
	callerGoVersion := caller.Info.FileVersions[caller.File]
	if callerGoVersion != "" && callee.GoVersion != "" && versions.Before(callerGoVersion, callee.GoVersion) {
		return nil, fmt.Errorf("cannot inline call to %s (declared using %s) into a file using %s",
			callee.Name, callee.GoVersion, callerGoVersion)
	}

	// -- analyze callee's free references in caller context --

	// Compute syntax path enclosing Call, innermost first (Path[0]=Call),
	// and outermost enclosing function, if any.
	caller.path, _ = astutil.PathEnclosingInterval(caller.File, caller.Call.Pos(), caller.Call.End())
	for _, n := range caller.path {
		if decl, ok := n.(*ast.FuncDecl); ok {
			caller.enclosingFunc = decl
			break
		}
	}

	// If call is within a function, analyze all its
	// local vars for the "single assignment" property.
	// (Taking the address &v counts as a potential assignment.)
	var assign1 func(v *types.Var) bool // reports whether v a single-assignment local var
	{
		updatedLocals := make(map[*types.Var]bool)
		if caller.enclosingFunc != nil {
			escape(caller.Info, caller.enclosingFunc, func(v *types.Var, _ bool) {
				updatedLocals[v] = true
			})
			logf("multiple-assignment vars: %v", updatedLocals)
		}
		assign1 = func(v *types.Var) bool { return !updatedLocals[v] }
	}

	// Extract information about the caller's imports.
	istate := newImportState(logf, caller, callee)

	// Compute the renaming of the callee's free identifiers.
	objRenames, err := st.renameFreeObjs(istate)
	if err != nil {
		return nil, err
	}

	res := &inlineCallResult{
		newImports: istate.newImports,
		oldImports: istate.oldImports,
	}

	// Parse callee function declaration.
	calleeFset, calleeDecl, err := parseCompact(callee.Content)
	if err != nil {
		return nil, err // "can't happen"
	}

	// replaceCalleeID replaces an identifier in the callee. See [replacer] for
	// more detailed semantics.
	replaceCalleeID := func(offset int, repl ast.Expr, unpackVariadic bool) {
		path, id := findIdent(calleeDecl, calleeDecl.Pos()+token.Pos(offset))
		logf("- replace id %q @ #%d to %q", id.Name, offset, debugFormatNode(calleeFset, repl))
		// Replace f([]T{a, b, c}...) with f(a, b, c).
		if lit, ok := repl.(*ast.CompositeLit); ok && unpackVariadic && len(path) > 0 {
			if call, ok := last(path).(*ast.CallExpr); ok &&
				call.Ellipsis.IsValid() &&
				id == last(call.Args) {

				call.Args = append(call.Args[:len(call.Args)-1], lit.Elts...)
				call.Ellipsis = token.NoPos
				return
			}
		}
		if len(path) > 0 {
			repl = internalastutil.MaybeParenthesize(last(path), id, repl)
		}
		replaceNode(calleeDecl, id, repl)
	}

	// Generate replacements for each free identifier.
	// (The same tree may be spliced in multiple times, resulting in a DAG.)
	for _, ref := range callee.FreeRefs {
		if repl := objRenames[ref.Object]; repl != nil {
			replaceCalleeID(ref.Offset, repl, false)
		}
	}

	// Gather the effective call arguments, including the receiver.
	// Later, elements will be eliminated (=> nil) by parameter substitution.
	args, err := st.arguments(caller, calleeDecl, assign1)
	if err != nil {
		return nil, err // e.g. implicit field selection cannot be made explicit
	}

	// Gather effective parameter tuple, including the receiver if any.
	// Simplify variadic parameters to slices (in all cases but one).
	var params []*parameter // including receiver; nil => parameter substituted
	{
		sig := calleeSymbol.Type().(*types.Signature)
		if sig.Recv() != nil {
			params = append(params, &parameter{
				obj:       sig.Recv(),
				fieldType: calleeDecl.Recv.List[0].Type,
				info:      callee.Params[0],
			})
		}

		// Flatten the list of syntactic types.
		var types []ast.Expr
		for _, field := range calleeDecl.Type.Params.List {
			if field.Names == nil {
				types = append(types, field.Type)
			} else {
				for range field.Names {
					types = append(types, field.Type)
				}
			}
		}

		for i := 0; i < sig.Params().Len(); i++ {
			params = append(params, &parameter{
				obj:       sig.Params().At(i),
				fieldType: types[i],
				info:      callee.Params[len(params)],
			})
		}

		// Variadic function?
		//
		// There are three possible types of call:
		// - ordinary f(a1, ..., aN)
		// - ellipsis f(a1, ..., slice...)
		// - spread   f(recv?, g()) where g() is a tuple.
		// The first two are desugared to non-variadic calls
		// with an ordinary slice parameter;
		// the third is tricky and cannot be reduced, and (if
		// a receiver is present) cannot even be literalized.
		// Fortunately it is vanishingly rare.
		//
		// TODO(adonovan): extract this to a function.
		if sig.Variadic() {
			lastParam := last(params)
			if len(args) > 0 && last(args).spread {
				// spread call to variadic: tricky
				lastParam.variadic = true
			} else {
				// ordinary/ellipsis call to variadic

				// simplify decl: func(T...) -> func([]T)
				var lastParamFieldType ast.Expr
				if len(calleeDecl.Type.Params.List) > 0 {
					lastParamField := last(calleeDecl.Type.Params.List)
					if ellipsis, ok := lastParamField.Type.(*ast.Ellipsis); ok {
						lastParamField.Type = &ast.ArrayType{
							Elt: ellipsis.Elt,
						}
					}
					lastParamFieldType = lastParamField.Type
				}

				if caller.Call.Ellipsis.IsValid() {
					// ellipsis call: f(slice...) -> f(slice)
					// nop
				} else {
					// ordinary call: f(a1, ... aN) -> f([]T{a1, ..., aN})
					//
					// Substitution of []T{...} in the callee body may lead to
					// g([]T{a1, ..., aN}...), which we simplify to g(a1, ..., an)
					// later; see replaceCalleeID.
					n := len(params) - 1
					ordinary, extra := args[:n], args[n:]
					var elts []ast.Expr
					freevars := make(map[string]bool)
					pure, effects := true, false
					for _, arg := range extra {
						elts = append(elts, arg.expr)
						pure = pure && arg.pure
						effects = effects || arg.effects
						maps.Copy(freevars, arg.freevars)
					}
					args = append(ordinary, &argument{
						expr: &ast.CompositeLit{
							Type: lastParamFieldType,
							Elts: elts,
						},
						typ:        lastParam.obj.Type(),
						constant:   nil,
						pure:       pure,
						effects:    effects,
						duplicable: false,
						freevars:   freevars,
						variadic:   true,
					})
				}
			}
		}
	}

	// Substitute type parameters in calleeDecl AST with type arguments from the
	// call, and synchronize the parameter metadata.
	{
		typeArgs := st.typeArguments(caller.Call)
		if len(typeArgs) != len(callee.TypeParams) {
			return nil, fmt.Errorf("cannot inline: type parameter inference is not yet supported")
		}
		if err := substituteTypeParams(logf, callee.TypeParams, typeArgs, replaceCalleeID); err != nil {
			return nil, err
		}
		// Synchronize the parameters' type pointers with the mutated calleeDecl.
		syncParamFieldTypes(calleeDecl, params)
	}

	// Log effective arguments.
	for i, arg := range args {
		logf("arg #%d: %s pure=%t effects=%t duplicable=%t free=%v type=%v",
			i, debugFormatNode(caller.Fset, arg.expr),
			arg.pure, arg.effects, arg.duplicable, arg.freevars, arg.typ)
	}

	// Note: computation below should be expressed in terms of
	// the args and params slices, not the raw material.

	// Perform parameter substitution.
	// May eliminate some elements of params/args.
	substitute(logf, caller, params, args, callee.Effects, callee.Falcon, replaceCalleeID)

	// Update the callee's signature syntax.
	updateCalleeParams(calleeDecl, params)

	// Create a var (param = arg; ...) decl for use by some strategies.
	bindingDecl := createBindingDecl(logf, caller, args, calleeDecl, callee.Results)

	var remainingArgs []ast.Expr
	for _, arg := range args {
		if arg != nil {
			remainingArgs = append(remainingArgs, arg.expr)
		}
	}

	// -- let the inlining strategies begin --
	//
	// When we commit to a strategy, we log a message of the form:
	//
	//   "strategy: reduce expr-context call to { return expr }"
	//
	// This is a terse way of saying:
	//
	//    we plan to reduce a call
	//    that appears in expression context
	//    to a function whose body is of the form { return expr }

	// TODO(adonovan): split this huge function into a sequence of
	// function calls with an error sentinel that means "try the
	// next strategy", and make sure each strategy writes to the
	// log the reason it didn't match.

	// Special case: eliminate a call to a function whose body is empty.
	// (=> callee has no results and caller is a statement.)
	//
	//    func f(params) {}
	//    f(args)
	//    => _, _ = args
	//
	if len(calleeDecl.Body.List) == 0 {
		logf("strategy: reduce call to empty body")

		// Evaluate the arguments for effects and delete the call entirely.
		// Note(golang/go#71486): stmt can be nil if the call is in a go or defer
		// statement.
		// TODO: discard go or defer statements as well.
		if stmt := callStmt(caller.path, false); stmt != nil {
			res.old = stmt
			if nargs := len(remainingArgs); nargs > 0 {
				// Emit "_, _ = args" to discard results.

				// TODO(adonovan): if args is the []T{a1, ..., an}
				// literal synthesized during variadic simplification,
				// consider unwrapping it to its (pure) elements.
				// Perhaps there's no harm doing this for any slice literal.

				// Make correction for spread calls
				// f(g()) or recv.f(g()) where g() is a tuple.
				if last := last(args); last != nil && last.spread {
					nspread := last.typ.(*types.Tuple).Len()
					if len(args) > 1 { // [recv, g()]
						// A single AssignStmt cannot discard both, so use a 2-spec var decl.
						res.new = &ast.GenDecl{
							Tok: token.VAR,
							Specs: []ast.Spec{
								&ast.ValueSpec{
									Names:  []*ast.Ident{makeIdent("_")},
									Values: []ast.Expr{args[0].expr},
								},
								&ast.ValueSpec{
									Names:  blanks[*ast.Ident](nspread),
									Values: []ast.Expr{args[1].expr},
								},
							},
						}
						return res, nil
					}

					// Sole argument is spread call.
					nargs = nspread
				}

				res.new = &ast.AssignStmt{
					Lhs: blanks[ast.Expr](nargs),
					Tok: token.ASSIGN,
					Rhs: remainingArgs,
				}

			} else {
				// No remaining arguments: delete call statement entirely
				res.new = &ast.EmptyStmt{}
			}
			return res, nil
		}
	}

	// If all parameters have been substituted and no result
	// variable is referenced, we don't need a binding decl.
	// This may enable better reduction strategies.
	allResultsUnreferenced := forall(callee.Results, func(i int, r *paramInfo) bool { return len(r.Refs) == 0 })
	needBindingDecl := !allResultsUnreferenced ||
		exists(params, func(i int, p *parameter) bool { return p != nil })

	// The two strategies below overlap for a tail call of {return exprs}:
	// The expr-context reduction is nice because it keeps the
	// caller's return stmt and merely switches its operand,
	// without introducing a new block, but it doesn't work with
	// implicit return conversions.
	//
	// TODO(adonovan): unify these cases more cleanly, allowing return-
	// operand replacement and implicit conversions, by adding
	// conversions around each return operand (if not a spread return).

	// Special case: call to { return exprs }.
	//
	// Reduces to:
	//	    { var (bindings); _, _ = exprs }
	//     or   _, _ = exprs
	//     or   expr
	//
	// If:
	// - the body is just "return expr" with trivial implicit conversions,
	//   or the caller's return type matches the callee's,
	// - all parameters and result vars can be eliminated
	//   or replaced by a binding decl,
	// then the call expression can be replaced by the
	// callee's body expression, suitably substituted.
	if len(calleeDecl.Body.List) == 1 &&
		is[*ast.ReturnStmt](calleeDecl.Body.List[0]) &&
		len(calleeDecl.Body.List[0].(*ast.ReturnStmt).Results) > 0 { // not a bare return
		results := calleeDecl.Body.List[0].(*ast.ReturnStmt).Results

		parent, grandparent := callContext(caller.path)

		// statement context
		if stmt, ok := parent.(*ast.ExprStmt); ok &&
			(!needBindingDecl || bindingDecl != nil) {
			logf("strategy: reduce stmt-context call to { return exprs }")
			clearPositions(calleeDecl.Body)

			if callee.ValidForCallStmt {
				logf("callee body is valid as statement")
				// Inv: len(results) == 1
				if !needBindingDecl {
					// Reduces to: expr
					res.old = caller.Call
					res.new = results[0]
				} else {
					// Reduces to: { var (bindings); expr }
					res.bindingDecl = true
					res.old = stmt
					res.new = &ast.BlockStmt{
						List: []ast.Stmt{
							bindingDecl.stmt,
							&ast.ExprStmt{X: results[0]},
						},
					}
				}
			} else {
				logf("callee body is not valid as statement")
				// The call is a standalone statement, but the
				// callee body is not suitable as a standalone statement
				// (f() or <-ch), explicitly discard the results:
				// Reduces to: _, _ = exprs
				discard := &ast.AssignStmt{
					Lhs: blanks[ast.Expr](callee.NumResults),
					Tok: token.ASSIGN,
					Rhs: results,
				}
				res.old = stmt
				if !needBindingDecl {
					// Reduces to: _, _ = exprs
					res.new = discard
				} else {
					// Reduces to: { var (bindings); _, _ = exprs }
					res.bindingDecl = true
					res.new = &ast.BlockStmt{
						List: []ast.Stmt{
							bindingDecl.stmt,
							discard,
						},
					}
				}
			}
			return res, nil
		}

		// Assignment context.
		//
		// If there is no binding decl, or if the binding decl declares no names,
		// an assignment a, b := f() can be reduced to a, b := x, y.
		if stmt, ok := parent.(*ast.AssignStmt); ok &&
			is[*ast.BlockStmt](grandparent) &&
			(!needBindingDecl || (bindingDecl != nil && len(bindingDecl.names) == 0)) {

			// Reduces to: { var (bindings); lhs... := rhs... }
			if newStmts, ok := st.assignStmts(stmt, results, istate.importName); ok {
				logf("strategy: reduce assign-context call to { return exprs }")

				clearPositions(calleeDecl.Body)

				block := &ast.BlockStmt{
					List: newStmts,
				}
				if needBindingDecl {
					res.bindingDecl = true
					block.List = prepend(bindingDecl.stmt, block.List...)
				}

				// assignStmts does not introduce new bindings, and replacing an
				// assignment only works if the replacement occurs in the same scope.
				// Therefore, we must ensure that braces are elided.
				res.elideBraces = true
				res.old = stmt
				res.new = block
				return res, nil
			}
		}

		// expression context
		if !needBindingDecl {
			clearPositions(calleeDecl.Body)

			anyNonTrivialReturns := hasNonTrivialReturn(callee.Returns)

			if callee.NumResults == 1 {
				logf("strategy: reduce expr-context call to { return expr }")
				// (includes some simple tail-calls)

				// Make implicit return conversion explicit.
				if anyNonTrivialReturns {
					results[0] = convert(calleeDecl.Type.Results.List[0].Type, results[0])
				}

				res.old = caller.Call
				res.new = results[0]
				return res, nil

			} else if !anyNonTrivialReturns {
				logf("strategy: reduce spread-context call to { return expr }")
				// There is no general way to reify conversions in a spread
				// return, hence the requirement above.
				//
				// TODO(adonovan): allow this reduction when no
				// conversion is required by the context.

				// The call returns multiple results but is
				// not a standalone call statement. It must
				// be the RHS of a spread assignment:
				//   var x, y  = f()
				//       x, y := f()
				//       x, y  = f()
				// or the sole argument to a spread call:
				//        printf(f())
				// or spread return statement:
				//        return f()
				res.old = parent
				switch context := parent.(type) {
				case *ast.AssignStmt:
					// Inv: the call must be in Rhs[0], not Lhs.
					assign := shallowCopy(context)
					assign.Rhs = results
					res.new = assign
				case *ast.ValueSpec:
					// Inv: the call must be in Values[0], not Names.
					spec := shallowCopy(context)
					spec.Values = results
					res.new = spec
				case *ast.CallExpr:
					// Inv: the call must be in Args[0], not Fun.
					call := shallowCopy(context)
					call.Args = results
					res.new = call
				case *ast.ReturnStmt:
					// Inv: the call must be Results[0].
					ret := shallowCopy(context)
					ret.Results = results
					res.new = ret
				default:
					return nil, fmt.Errorf("internal error: unexpected context %T for spread call", context)
				}
				return res, nil
			}
		}
	}

	// Special case: tail-call.
	//
	// Inlining:
	//         return f(args)
	// where:
	//         func f(params) (results) { body }
	// reduces to:
	//         { var (bindings); body }
	//         { body }
	// so long as:
	// - all parameters can be eliminated or replaced by a binding decl,
	// - call is a tail-call;
	// - all returns in body have trivial result conversions,
	//   or the caller's return type matches the callee's,
	// - there is no label conflict;
	// - no result variable is referenced by name,
	//   or implicitly by a bare return.
	//
	// The body may use defer, arbitrary control flow, and
	// multiple returns.
	//
	// TODO(adonovan): add a strategy for a 'void tail
	// call', i.e. a call statement prior to an (explicit
	// or implicit) return.
	parent, _ := callContext(caller.path)
	if ret, ok := parent.(*ast.ReturnStmt); ok &&
		len(ret.Results) == 1 &&
		tailCallSafeReturn(caller, calleeSymbol, callee) &&
		!callee.HasBareReturn &&
		(!needBindingDecl || bindingDecl != nil) &&
		!hasLabelConflict(caller.path, callee.Labels) &&
		allResultsUnreferenced {
		logf("strategy: reduce tail-call")
		body := calleeDecl.Body
		clearPositions(body)
		if needBindingDecl {
			res.bindingDecl = true
			body.List = prepend(bindingDecl.stmt, body.List...)
		}
		res.old = ret
		res.new = body
		return res, nil
	}

	// Special case: call to void function
	//
	// Inlining:
	//         f(args)
	// where:
	//	   func f(params) { stmts }
	// reduces to:
	//         { var (bindings); stmts }
	//         { stmts }
	// so long as:
	// - callee is a void function (no returns)
	// - callee does not use defer
	// - there is no label conflict between caller and callee
	// - all parameters and result vars can be eliminated
	//   or replaced by a binding decl,
	// - caller ExprStmt is in unrestricted statement context.
	if stmt := callStmt(caller.path, true); stmt != nil &&
		(!needBindingDecl || bindingDecl != nil) &&
		!callee.HasDefer &&
		!hasLabelConflict(caller.path, callee.Labels) &&
		len(callee.Returns) == 0 {
		logf("strategy: reduce stmt-context call to { stmts }")
		body := calleeDecl.Body
		var repl ast.Stmt = body
		clearPositions(repl)
		if needBindingDecl {
			body.List = prepend(bindingDecl.stmt, body.List...)
		}
		res.old = stmt
		res.new = repl
		return res, nil
	}

	// TODO(adonovan): parameterless call to { stmts; return expr }
	// from one of these contexts:
	//    x, y     = f()
	//    x, y    := f()
	//    var x, y = f()
	// =>
	//    var (x T1, y T2); { stmts; x, y = expr }
	//
	// Because the params are no longer declared simultaneously
	// we need to check that (for example) x ∉ freevars(T2),
	// in addition to the usual checks for arg/result conversions,
	// complex control, etc.
	// Also test cases where expr is an n-ary call (spread returns).

	// Literalization isn't quite infallible.
	// Consider a spread call to a method in which
	// no parameters are eliminated, e.g.
	// 	new(T).f(g())
	// where
	//  	func (recv *T) f(x, y int) { body }
	//  	func g() (int, int)
	// This would be literalized to:
	// 	func (recv *T, x, y int) { body }(new(T), g()),
	// which is not a valid argument list because g() must appear alone.
	// Reject this case for now.
	if len(args) == 2 && args[0] != nil && args[1] != nil && is[*types.Tuple](args[1].typ) {
		return nil, fmt.Errorf("can't yet inline spread call to method")
	}

	// Infallible general case: literalization.
	//
	//    func(params) { body }(args)
	//
	logf("strategy: literalization")
	funcLit := &ast.FuncLit{
		Type: calleeDecl.Type,
		Body: calleeDecl.Body,
	}
	// clear positions before prepending the binding decl below, since the
	// binding decl contains syntax from the caller and we must not mutate the
	// caller. (This was a prior bug.)
	clearPositions(funcLit)

	// Literalization can still make use of a binding
	// decl as it gives a more natural reading order:
	//
	//    func() { var params = args; body }()
	//
	// TODO(adonovan): relax the allResultsUnreferenced requirement
	// by adding a parameter-only (no named results) binding decl.
	if bindingDecl != nil && allResultsUnreferenced {
		funcLit.Type.Params.List = nil
		remainingArgs = nil
		res.bindingDecl = true
		funcLit.Body.List = prepend(bindingDecl.stmt, funcLit.Body.List...)
	}

	// Emit a new call to a function literal in place of
	// the callee name, with appropriate replacements.
	newCall := &ast.CallExpr{
		Fun:      funcLit,
		Ellipsis: token.NoPos, // f(slice...) is always simplified
		Args:     remainingArgs,
	}
	res.old = caller.Call
	res.new = newCall
	return res, nil
}

// renameFreeObjs computes the renaming of the callee's free identifiers.
// It returns a slice of names (identifiers or selector expressions) corresponding
// to the callee's free objects (gobCallee.FreeObjs).
func (st *state) renameFreeObjs(istate *importState) ([]ast.Expr, error) {
	caller, callee := st.caller, &st.callee.impl
	objRenames := make([]ast.Expr, len(callee.FreeObjs)) // nil => no change
	for i, obj := range callee.FreeObjs {
		// obj is a free object of the callee.
		//
		// Possible cases are:
		// - builtin function, type, or value (e.g. nil, zero)
		//   => check not shadowed in caller.
		// - package-level var/func/const/types
		//   => same package: check not shadowed in caller.
		//   => otherwise: import other package, form a qualified identifier.
		//      (Unexported cross-package references were rejected already.)
		// - type parameter
		//   => not yet supported
		// - pkgname
		//   => import other package and use its local name.
		//
		// There can be no free references to labels, fields, or methods.

		// Note that we must consider potential shadowing both
		// at the caller side (caller.lookup) and, when
		// choosing new PkgNames, within the callee (obj.shadow).

		var newName ast.Expr
		if obj.Kind == "pkgname" {
			// Use locally appropriate import, creating as needed.
			n := istate.localName(obj.PkgPath, obj.PkgName, obj.Name, obj.Shadow)
			newName = makeIdent(n) // imported package
		} else if !obj.ValidPos {
			// Built-in function, type, or value (e.g. nil, zero):
			// check not shadowed at caller.
			found := caller.lookup(obj.Name) // always finds something
			if found.Pos().IsValid() {
				return nil, fmt.Errorf("cannot inline, because the callee refers to built-in %q, which in the caller is shadowed by a %s (declared at line %d)",
					obj.Name, objectKind(found),
					caller.Fset.PositionFor(found.Pos(), false).Line)
			}

		} else {
			// Must be reference to package-level var/func/const/type,
			// since type parameters are not yet supported.
			qualify := false
			if obj.PkgPath == callee.PkgPath {
				// reference within callee package
				if caller.Types.Path() == callee.PkgPath {
					// Caller and callee are in same package.
					// Check caller has not shadowed the decl.
					//
					// This may fail if the callee is "fake", such as for signature
					// refactoring where the callee is modified to be a trivial wrapper
					// around the refactored signature.
					found := caller.lookup(obj.Name)
					if found != nil && !isPkgLevel(found) {
						return nil, fmt.Errorf("cannot inline, because the callee refers to %s %q, which in the caller is shadowed by a %s (declared at line %d)",
							obj.Kind, obj.Name,
							objectKind(found),
							caller.Fset.PositionFor(found.Pos(), false).Line)
					}
				} else {
					// Cross-package reference.
					qualify = true
				}
			} else {
				// Reference to a package-level declaration
				// in another package, without a qualified identifier:
				// it must be a dot import.
				qualify = true
			}

			// Form a qualified identifier, pkg.Name.
			if qualify {
				pkgName := istate.localName(obj.PkgPath, obj.PkgName, obj.PkgName, obj.Shadow)
				newName = &ast.SelectorExpr{
					X:   makeIdent(pkgName),
					Sel: makeIdent(obj.Name),
				}
			}
		}
		objRenames[i] = newName
	}
	return objRenames, nil
}

type argument struct {
	expr          ast.Expr
	typ           types.Type      // may be tuple for sole non-receiver arg in spread call
	constant      constant.Value  // value of argument if constant
	spread        bool            // final arg is call() assigned to multiple params
	pure          bool            // expr is pure (doesn't read variables)
	effects       bool            // expr has effects (updates variables)
	duplicable    bool            // expr may be duplicated
	freevars      map[string]bool // free names of expr
	variadic      bool            // is explicit []T{...} for eliminated variadic
	desugaredRecv bool            // is *recv or &recv, where operator was elided
}

// typeArguments returns the type arguments of the call.
// It only collects the arguments that are explicitly provided; it does
// not attempt type inference.
func (st *state) typeArguments(call *ast.CallExpr) []*argument {
	var exprs []ast.Expr
	switch d := ast.Unparen(call.Fun).(type) {
	case *ast.IndexExpr:
		exprs = []ast.Expr{d.Index}
	case *ast.IndexListExpr:
		exprs = d.Indices
	default:
		// No type  arguments
		return nil
	}
	var args []*argument
	for _, e := range exprs {
		arg := &argument{expr: e, freevars: freeVars(st.caller.Info, e)}
		args = append(args, arg)
	}
	return args
}

// arguments returns the effective arguments of the call.
//
// If the receiver argument and parameter have
// different pointerness, make the "&" or "*" explicit.
//
// Also, if x.f() is shorthand for promoted method x.y.f(),
// make the .y explicit in T.f(x.y, ...).
//
// Beware that:
//
//   - a method can only be called through a selection, but only
//     the first of these two forms needs special treatment:
//
//     expr.f(args)     -> ([&*]expr, args)	MethodVal
//     T.f(recv, args)  -> (    expr, args)	MethodExpr
//
//   - the presence of a value in receiver-position in the call
//     is a property of the caller, not the callee. A method
//     (calleeDecl.Recv != nil) may be called like an ordinary
//     function.
//
//   - the types.Signatures seen by the caller (from
//     StaticCallee) and by the callee (from decl type)
//     differ in this case.
//
// In a spread call f(g()), the sole ordinary argument g(),
// always last in args, has a tuple type.
//
// We compute type-based predicates like pure, duplicable,
// freevars, etc, now, before we start modifying syntax.
func (st *state) arguments(caller *Caller, calleeDecl *ast.FuncDecl, assign1 func(*types.Var) bool) ([]*argument, error) {
	var args []*argument

	callArgs := caller.Call.Args
	if calleeDecl.Recv != nil {
		if len(st.callee.impl.TypeParams) > 0 {
			return nil, fmt.Errorf("cannot inline: generic methods not yet supported")
		}
		sel := ast.Unparen(caller.Call.Fun).(*ast.SelectorExpr)
		seln := caller.Info.Selections[sel]
		var recvArg ast.Expr
		switch seln.Kind() {
		case types.MethodVal: // recv.f(callArgs)
			recvArg = sel.X
		case types.MethodExpr: // T.f(recv, callArgs)
			recvArg = callArgs[0]
			callArgs = callArgs[1:]
		}
		if recvArg != nil {
			// Compute all the type-based predicates now,
			// before we start meddling with the syntax;
			// the meddling will update them.
			arg := &argument{
				expr:       recvArg,
				typ:        caller.Info.TypeOf(recvArg),
				constant:   caller.Info.Types[recvArg].Value,
				pure:       pure(caller.Info, assign1, recvArg),
				effects:    st.effects(caller.Info, recvArg),
				duplicable: duplicable(caller.Info, recvArg),
				freevars:   freeVars(caller.Info, recvArg),
			}
			recvArg = nil // prevent accidental use

			// Move receiver argument recv.f(args) to argument list f(&recv, args).
			args = append(args, arg)

			// Make field selections explicit (recv.f -> recv.y.f),
			// updating arg.{expr,typ}.
			indices := seln.Index()
			for _, index := range indices[:len(indices)-1] {
				fld := typeparams.CoreType(typeparams.Deref(arg.typ)).(*types.Struct).Field(index)
				if fld.Pkg() != caller.Types && !fld.Exported() {
					return nil, fmt.Errorf("in %s, implicit reference to unexported field .%s cannot be made explicit",
						debugFormatNode(caller.Fset, caller.Call.Fun),
						fld.Name())
				}
				if isPointer(arg.typ) {
					arg.pure = false // implicit *ptr operation => impure
				}
				arg.expr = &ast.SelectorExpr{
					X:   arg.expr,
					Sel: makeIdent(fld.Name()),
				}
				arg.typ = fld.Type()
				arg.duplicable = false
			}

			// Make * or & explicit.
			argIsPtr := isPointer(arg.typ)
			paramIsPtr := isPointer(seln.Obj().Type().Underlying().(*types.Signature).Recv().Type())
			if !argIsPtr && paramIsPtr {
				// &recv
				arg.expr = &ast.UnaryExpr{Op: token.AND, X: arg.expr}
				arg.typ = types.NewPointer(arg.typ)
				arg.desugaredRecv = true
			} else if argIsPtr && !paramIsPtr {
				// *recv
				arg.expr = &ast.StarExpr{X: arg.expr}
				arg.typ = typeparams.Deref(arg.typ)
				arg.duplicable = false
				arg.pure = false
				arg.desugaredRecv = true
			}
		}
	}
	for _, expr := range callArgs {
		tv := caller.Info.Types[expr]
		args = append(args, &argument{
			expr:       expr,
			typ:        tv.Type,
			constant:   tv.Value,
			spread:     is[*types.Tuple](tv.Type), // => last
			pure:       pure(caller.Info, assign1, expr),
			effects:    st.effects(caller.Info, expr),
			duplicable: duplicable(caller.Info, expr),
			freevars:   freeVars(caller.Info, expr),
		})
	}

	// Re-typecheck each constant argument expression in a neutral context.
	//
	// In a call such as func(int16){}(1), the type checker infers
	// the type "int16", not "untyped int", for the argument 1,
	// because it has incorporated information from the left-hand
	// side of the assignment implicit in parameter passing, but
	// of course in a different context, the expression 1 may have
	// a different type.
	//
	// So, we must use CheckExpr to recompute the type of the
	// argument in a neutral context to find its inherent type.
	// (This is arguably a bug in go/types, but I'm pretty certain
	// I requested it be this way long ago... -adonovan)
	//
	// This is only needed for constants. Other implicit
	// assignment conversions, such as unnamed-to-named struct or
	// chan to <-chan, do not result in the type-checker imposing
	// the LHS type on the RHS value.
	for _, arg := range args {
		if arg.constant == nil {
			continue
		}
		info := &types.Info{Types: make(map[ast.Expr]types.TypeAndValue)}
		if err := types.CheckExpr(caller.Fset, caller.Types, caller.Call.Pos(), arg.expr, info); err != nil {
			return nil, err
		}
		arg.typ = info.TypeOf(arg.expr)
	}

	return args, nil
}

type parameter struct {
	obj       *types.Var // parameter var from caller's signature
	fieldType ast.Expr   // syntax of type, from calleeDecl.Type.{Recv,Params}
	info      *paramInfo // information from AnalyzeCallee
	variadic  bool       // (final) parameter is unsimplified ...T
}

// A replacer replaces an identifier at the given offset in the callee.
// The replacement tree must not belong to the caller; use cloneNode as needed.
// If unpackVariadic is set, the replacement is a composite resulting from
// variadic elimination, and may be unpacked into variadic calls.
type replacer = func(offset int, repl ast.Expr, unpackVariadic bool)

// substituteTypeParams replaces type parameters in the callee with the
// corresponding type arguments from the call.
func substituteTypeParams(logf logger, typeParams []*paramInfo, typeArgs []*argument, replace replacer) error {
	assert(len(typeParams) == len(typeArgs), "mismatched number of type params/args")
	for i, paramInfo := range typeParams {
		arg := typeArgs[i]
		// Perform a simplified, conservative shadow analysis: fail if there is any shadowing.
		for free := range arg.freevars {
			if paramInfo.Shadow[free] != 0 {
				return fmt.Errorf("cannot inline: type argument #%d (type parameter %s) is shadowed", i, paramInfo.Name)
			}
		}
		logf("replacing type param %s with %s", paramInfo.Name, debugFormatNode(token.NewFileSet(), arg.expr))
		for _, ref := range paramInfo.Refs {
			replace(ref.Offset, internalastutil.CloneNode(arg.expr), false)
		}
	}
	return nil
}

// syncParamFieldTypes synchronizes the fieldType of each parameter in params
// with the mutated calleeDecl AST. This is necessary because substituteTypeParams
// mutates the calleeDecl AST, replacing type nodes, but params still references
// the original (now outdated) type nodes.
func syncParamFieldTypes(calleeDecl *ast.FuncDecl, params []*parameter) {
	var i int
	setFieldType := func(t ast.Expr) {
		assert(i < len(params), "mismatched parameter count")
		params[i].fieldType = t
		i++
	}

	if calleeDecl.Recv != nil && len(calleeDecl.Recv.List) > 0 {
		setFieldType(calleeDecl.Recv.List[0].Type)
	}
	if calleeDecl.Type.Params != nil {
		for _, field := range calleeDecl.Type.Params.List {
			if field.Names == nil {
				setFieldType(field.Type)
			} else {
				for range field.Names {
					setFieldType(field.Type)
				}
			}
		}
	}
	assert(i == len(params), "mismatched parameter count")
}

// substitute implements parameter elimination by substitution.
//
// It considers each parameter and its corresponding argument in turn
// and evaluate these conditions:
//
//   - the parameter is neither address-taken nor assigned;
//   - the argument is pure;
//   - if the parameter refcount is zero, the argument must
//     not contain the last use of a local var;
//   - if the parameter refcount is > 1, the argument must be duplicable;
//   - the argument (or types.Default(argument) if it's untyped) has
//     the same type as the parameter.
//
// If all conditions are met then the parameter can be substituted and
// each reference to it replaced by the argument. In that case, the
// replaceCalleeID function is called for each reference to the
// parameter, and is provided with its relative offset and replacement
// expression (argument), and the corresponding elements of params and
// args are replaced by nil.
func substitute(logf logger, caller *Caller, params []*parameter, args []*argument, effects []int, falcon falconResult, replace replacer) {
	// Inv:
	//  in        calls to     variadic, len(args) >= len(params)-1
	//  in spread calls to non-variadic, len(args) <  len(params)
	//  in spread calls to     variadic, len(args) <= len(params)
	// (In spread calls len(args) = 1, or 2 if call has receiver.)
	// Non-spread variadics have been simplified away already,
	// so the args[i] lookup is safe if we stop after the spread arg.
	assert(len(args) <= len(params), "too many arguments")

	// Collect candidates for substitution.
	//
	// An argument is a candidate if it is not otherwise rejected, and any free
	// variables that are shadowed only by other parameters.
	//
	// Therefore, substitution candidates are represented by a graph, where edges
	// lead from each argument to the other arguments that, if substituted, would
	// allow the argument to be substituted. We collect these edges in the
	// [substGraph]. Any node that is known not to be elided from the graph.
	// Arguments in this graph with no edges are substitutable independent of
	// other nodes, though they may be removed due to falcon or effects analysis.
	sg := make(substGraph)
next:
	for i, param := range params {
		arg := args[i]

		// Check argument against parameter.
		//
		// Beware: don't use types.Info on arg since
		// the syntax may be synthetic (not created by parser)
		// and thus lacking positions and types;
		// do it earlier (see pure/duplicable/freevars).

		if arg.spread {
			// spread => last argument, but not always last parameter
			logf("keeping param %q and following ones: argument %s is spread",
				param.info.Name, debugFormatNode(caller.Fset, arg.expr))
			return // give up
		}
		assert(!param.variadic, "unsimplified variadic parameter")
		if param.info.Escapes {
			logf("keeping param %q: escapes from callee", param.info.Name)
			continue
		}
		if param.info.Assigned {
			logf("keeping param %q: assigned by callee", param.info.Name)
			continue // callee needs the parameter variable
		}
		if len(param.info.Refs) > 1 && !arg.duplicable {
			logf("keeping param %q: argument is not duplicable", param.info.Name)
			continue // incorrect or poor style to duplicate an expression
		}
		if len(param.info.Refs) == 0 {
			if arg.effects {
				logf("keeping param %q: though unreferenced, it has effects", param.info.Name)
				continue
			}

			// If the caller is within a function body,
			// eliminating an unreferenced parameter might
			// remove the last reference to a caller local var.
			if caller.enclosingFunc != nil {
				for free := range arg.freevars {
					// TODO(rfindley): we can get this 100% right by looking for
					// references among other arguments which have non-zero references
					// within the callee.
					if v, ok := caller.lookup(free).(*types.Var); ok && within(v.Pos(), caller.enclosingFunc.Body) && !isUsedOutsideCall(caller, v) {

						// Check to see if the substituted var is used within other args
						// whose corresponding params ARE used in the callee
						usedElsewhere := func() bool {
							for i, param := range params {
								if i < len(args) && len(param.info.Refs) > 0 { // excludes original param
									for name := range args[i].freevars {
										if caller.lookup(name) == v {
											return true
										}
									}
								}
							}
							return false
						}
						if !usedElsewhere() {
							logf("keeping param %q: arg contains perhaps the last reference to caller local %v @ %v",
								param.info.Name, v, caller.Fset.PositionFor(v.Pos(), false))
							continue next
						}
					}
				}
			}
		}

		// Arg is a potential substitution candidate: analyze its shadowing.
		//
		// Consider inlining a call f(z, 1) to
		//
		// 	func f(x, y int) int { z := y; return x + y + z }
		//
		// we can't replace x in the body by z (or any
		// expression that has z as a free identifier) because there's an
		// intervening declaration of z that would shadow the caller's one.
		//
		// However, we *could* replace x in the body by y, as long as the y
		// parameter is also removed by substitution.

		sg[arg] = nil // Absent shadowing, the arg is substitutable.
		for free := range arg.freevars {
			switch s := param.info.Shadow[free]; {
			case s < 0:
				// Shadowed by a non-parameter symbol, so arg is not substitutable.
				delete(sg, arg)
			case s > 0:
				// Shadowed by a parameter; arg may be substitutable, if only shadowed
				// by other substitutable parameters.
				if s > len(args) {
					// Defensive: this should not happen in the current factoring, since
					// spread arguments are already handled.
					delete(sg, arg)
				}
				if edges, ok := sg[arg]; ok {
					sg[arg] = append(edges, args[s-1])
				}
			}
		}
	}

	// Process the initial state of the substitution graph.
	sg.prune()

	// Now we check various conditions on the substituted argument set as a
	// whole. These conditions reject substitution candidates, but since their
	// analysis depends on the full set of candidates, we do not process side
	// effects of their candidate rejection until after the analysis completes,
	// in a call to prune. After pruning, we must re-run the analysis to check
	// for additional rejections.
	//
	// Here's an example of that in practice:
	//
	// 	var a [3]int
	//
	// 	func falcon(x, y, z int) {
	// 		_ = x + a[y+z]
	// 	}
	//
	// 	func _() {
	// 		var y int
	// 		const x, z = 1, 2
	// 		falcon(y, x, z)
	// 	}
	//
	// In this example, arguments 0 and 1 are shadowed by each other's
	// corresponding parameter, and so each can be substituted only if they are
	// both substituted. But the fallible constant analysis finds a violated
	// constraint: x + z = 3, and so the constant array index would cause a
	// compile-time error if argument 1 (x) were substituted. Therefore,
	// following the falcon analysis, we must also prune argument 0.
	//
	// As far as I (rfindley) can tell, the falcon analysis should always succeed
	// after the first pass, as it's not possible for additional bindings to
	// cause new constraint failures. Nevertheless, we re-run it to be sure.
	//
	// However, the same cannot be said of the effects analysis, as demonstrated
	// by this example:
	//
	// 	func effects(w, x, y, z int) {
	// 		_ = x + w + y + z
	// 	}

	// 	func _() {
	// 		v := 0
	// 		w := func() int { v++; return 0 }
	// 		x := func() int { v++; return 0 }
	// 		y := func() int { v++; return 0 }
	// 		effects(x(), w(), y(), x()) //@ inline(re"effects", effects)
	// 	}
	//
	// In this example, arguments 0, 1, and 3 are related by the substitution
	// graph. The first effects analysis implies that arguments 0 and 1 must be
	// bound, and therefore argument 3 must be bound. But then a subsequent
	// effects analysis forces argument 2 to also be bound.

	// Reject constant arguments as substitution candidates if they cause
	// violation of falcon constraints.
	//
	// Keep redoing the analysis until we no longer reject additional arguments,
	// as the set of substituted parameters affects the falcon package.
	for checkFalconConstraints(logf, params, args, falcon, sg) {
		sg.prune()
	}

	// As a final step, introduce bindings to resolve any
	// evaluation order hazards. This must be done last, as
	// additional subsequent bindings could introduce new hazards.
	//
	// As with the falcon analysis, keep redoing the analysis until the no more
	// arguments are rejected.
	for resolveEffects(logf, args, effects, sg) {
		sg.prune()
	}

	// The remaining candidates are safe to substitute.
	for i, param := range params {
		if arg := args[i]; sg.has(arg) {

			// It is safe to substitute param and replace it with arg.
			// The formatter introduces parens as needed for precedence.
			//
			// Because arg.expr belongs to the caller,
			// we clone it before splicing it into the callee tree.
			logf("replacing parameter %q by argument %q",
				param.info.Name, debugFormatNode(caller.Fset, arg.expr))
			for _, ref := range param.info.Refs {
				// Apply any transformations necessary for this reference.
				argExpr := arg.expr

				// If the reference itself is being selected, and we applied desugaring
				// (an explicit &x or *x), we can undo that desugaring here as it is
				// not necessary for a selector. We don't need to check addressability
				// here because if we desugared, the receiver must have been
				// addressable.
				if ref.IsSelectionOperand && arg.desugaredRecv {
					switch e := argExpr.(type) {
					case *ast.UnaryExpr:
						argExpr = e.X
					case *ast.StarExpr:
						argExpr = e.X
					}
				}

				// If the reference requires exact type agreement between parameter and
				// argument, wrap the argument in an explicit conversion if
				// substitution might materially change its type. (We already did the
				// necessary shadowing check on the parameter type syntax.)
				//
				// The types must agree in any of these cases:
				// - the argument affects type inference;
				// - the reference's concrete type is assigned to an interface type;
				// - the reference is not an assignment, nor a trivial conversion of an untyped constant.
				//
				// In all other cases, no explicit conversion is necessary as either
				// the type does not matter, or must have already agreed for well-typed
				// code.
				//
				// This is only needed for substituted arguments. All other arguments
				// are given explicit types in either a binding decl or when using the
				// literalization strategy.
				//
				// If the types are identical, we can eliminate
				// redundant type conversions such as this:
				//
				// Callee:
				//    func f(i int32) { fmt.Println(i) }
				// Caller:
				//    func g() { f(int32(1)) }
				// Inlined as:
				//    func g() { fmt.Println(int32(int32(1)))
				//
				// Recall that non-trivial does not imply non-identical for constant
				// conversions; however, at this point state.arguments has already
				// re-typechecked the constant and set arg.type to its (possibly
				// "untyped") inherent type, so the conversion from untyped 1 to int32
				// is non-trivial even though both arg and param have identical types
				// (int32).
				needType := ref.AffectsInference ||
					(ref.Assignable && ref.IfaceAssignment && !param.info.IsInterface) ||
					(!ref.Assignable && !trivialConversion(arg.constant, arg.typ, param.obj.Type()))

				if needType &&
					!types.Identical(types.Default(arg.typ), param.obj.Type()) {

					// If arg.expr is already an interface call, strip it.
					if call, ok := argExpr.(*ast.CallExpr); ok && len(call.Args) == 1 {
						if typ, ok := isConversion(caller.Info, call); ok && isNonTypeParamInterface(typ) {
							argExpr = call.Args[0]
						}
					}

					argExpr = convert(param.fieldType, argExpr)
					logf("param %q (offset %d): adding explicit %s -> %s conversion around argument",
						param.info.Name, ref.Offset, arg.typ, param.obj.Type())
				}
				replace(ref.Offset, internalastutil.CloneNode(argExpr).(ast.Expr), arg.variadic)
			}
			params[i] = nil // substituted
			args[i] = nil   // substituted
		}
	}
}

// isConversion reports whether the given call is a type conversion, returning
// (operand, true) if so.
//
// If the call is not a conversion, it returns (nil, false).
func isConversion(info *types.Info, call *ast.CallExpr) (types.Type, bool) {
	if tv, ok := info.Types[call.Fun]; ok && tv.IsType() {
		return tv.Type, true
	}
	return nil, false
}

// isNonTypeParamInterface reports whether t is a non-type parameter interface
// type.
func isNonTypeParamInterface(t types.Type) bool {
	return !typeparams.IsTypeParam(t) && types.IsInterface(t)
}

// isUsedOutsideCall reports whether v is used outside of caller.Call, within
// the body of caller.enclosingFunc.
func isUsedOutsideCall(caller *Caller, v *types.Var) bool {
	used := false
	ast.Inspect(caller.enclosingFunc.Body, func(n ast.Node) bool {
		if n == caller.Call {
			return false
		}
		switch n := n.(type) {
		case *ast.Ident:
			if use := caller.Info.Uses[n]; use == v {
				used = true
			}
		case *ast.FuncType:
			// All params are used.
			for _, fld := range n.Params.List {
				for _, n := range fld.Names {
					if def := caller.Info.Defs[n]; def == v {
						used = true
					}
				}
			}
		}
		return !used // keep going until we find a use
	})
	return used
}

// checkFalconConstraints checks whether constant arguments
// are safe to substitute (e.g. s[i] -> ""[0] is not safe.)
//
// Any failed constraint causes us to reject all constant arguments as
// substitution candidates (by clearing args[i].substitution=false).
//
// TODO(adonovan): we could obtain a finer result rejecting only the
// freevars of each failed constraint, and processing constraints in
// order of increasing arity, but failures are quite rare.
func checkFalconConstraints(logf logger, params []*parameter, args []*argument, falcon falconResult, sg substGraph) bool {
	// Create a dummy package, as this is the only
	// way to create an environment for CheckExpr.
	pkg := types.NewPackage("falcon", "falcon")

	// Declare types used by constraints.
	for _, typ := range falcon.Types {
		logf("falcon env: type %s %s", typ.Name, types.Typ[typ.Kind])
		pkg.Scope().Insert(types.NewTypeName(token.NoPos, pkg, typ.Name, types.Typ[typ.Kind]))
	}

	// Declared constants and variables for parameters.
	nconst := 0
	for i, param := range params {
		name := param.info.Name
		if name == "" {
			continue // unreferenced
		}
		arg := args[i]
		if arg.constant != nil && sg.has(arg) && param.info.FalconType != "" {
			t := pkg.Scope().Lookup(param.info.FalconType).Type()
			pkg.Scope().Insert(types.NewConst(token.NoPos, pkg, name, t, arg.constant))
			logf("falcon env: const %s %s = %v", name, param.info.FalconType, arg.constant)
			nconst++
		} else {
			v := types.NewVar(token.NoPos, pkg, name, arg.typ)
			typesinternal.SetVarKind(v, typesinternal.PackageVar)
			pkg.Scope().Insert(v)
			logf("falcon env: var %s %s", name, arg.typ)
		}
	}
	if nconst == 0 {
		return false // nothing to do
	}

	// Parse and evaluate the constraints in the environment.
	fset := token.NewFileSet()
	removed := false
	for _, falcon := range falcon.Constraints {
		expr, err := parser.ParseExprFrom(fset, "falcon", falcon, 0)
		if err != nil {
			panic(fmt.Sprintf("failed to parse falcon constraint %s: %v", falcon, err))
		}
		if err := types.CheckExpr(fset, pkg, token.NoPos, expr, nil); err != nil {
			logf("falcon: constraint %s violated: %v", falcon, err)
			for j, arg := range args {
				if arg.constant != nil && sg.has(arg) {
					logf("keeping param %q due falcon violation", params[j].info.Name)
					removed = sg.remove(arg) || removed
				}
			}
			break
		}
		logf("falcon: constraint %s satisfied", falcon)
	}
	return removed
}

// resolveEffects marks arguments as non-substitutable to resolve
// hazards resulting from the callee evaluation order described by the
// effects list.
//
// To do this, each argument is categorized as a read (R), write (W),
// or pure. A hazard occurs when the order of evaluation of a W
// changes with respect to any R or W. Pure arguments can be
// effectively ignored, as they can be safely evaluated in any order.
//
// The callee effects list contains the index of each parameter in the
// order it is first evaluated during execution of the callee. In
// addition, the two special values R∞ and W∞ indicate the relative
// position of the callee's first non-parameter read and its first
// effects (or other unknown behavior).
// For example, the list [0 2 1 R∞ 3 W∞] for func(a, b, c, d)
// indicates that the callee referenced parameters a, c, and b,
// followed by an arbitrary read, then parameter d, and finally
// unknown behavior.
//
// When an argument is marked as not substitutable, we say that it is
// 'bound', in the sense that its evaluation occurs in a binding decl
// or literalized call. Such bindings always occur in the original
// callee parameter order.
//
// In this context, "resolving hazards" means binding arguments so
// that they are evaluated in a valid, hazard-free order. A trivial
// solution to this problem would be to bind all arguments, but of
// course that's not useful. The goal is to bind as few arguments as
// possible.
//
// The algorithm proceeds by inspecting arguments in reverse parameter
// order (right to left), preserving the invariant that every
// higher-ordered argument is either already substituted or does not
// need to be substituted. At each iteration, if there is an
// evaluation hazard in the callee effects relative to the current
// argument, the argument must be bound. Subsequently, if the argument
// is bound for any reason, each lower-ordered argument must also be
// bound if either the argument or lower-order argument is a
// W---otherwise the binding itself would introduce a hazard.
//
// Thus, after each iteration, there are no hazards relative to the
// current argument. Subsequent iterations cannot introduce hazards
// with that argument because they can result only in additional
// binding of lower-ordered arguments.
func resolveEffects(logf logger, args []*argument, effects []int, sg substGraph) bool {
	effectStr := func(effects bool, idx int) string {
		i := fmt.Sprint(idx)
		if idx == len(args) {
			i = "∞"
		}
		return string("RW"[btoi(effects)]) + i
	}
	removed := false
	for i, argi := range slices.Backward(args) {
		if sg.has(argi) && !argi.pure {
			// i is not bound: check whether it must be bound due to hazards.
			idx := slices.Index(effects, i)
			if idx >= 0 {
				for _, j := range effects[:idx] {
					var (
						ji int  // effective param index
						jw bool // j is a write
					)
					if j == winf || j == rinf {
						jw = j == winf
						ji = len(args)
					} else {
						jw = args[j].effects
						ji = j
					}
					if ji > i && (jw || argi.effects) { // out of order evaluation
						logf("binding argument %s: preceded by %s",
							effectStr(argi.effects, i), effectStr(jw, ji))

						removed = sg.remove(argi) || removed
						break
					}
				}
			}
		}
		if !sg.has(argi) {
			for j := range i {
				argj := args[j]
				if argj.pure {
					continue
				}
				if (argi.effects || argj.effects) && sg.has(argj) {
					logf("binding argument %s: %s is bound",
						effectStr(argj.effects, j), effectStr(argi.effects, i))

					removed = sg.remove(argj) || removed
				}
			}
		}
	}
	return removed
}

// A substGraph is a directed graph representing arguments that may be
// substituted, provided all of their related arguments (or "dependencies") are
// also substituted. The candidates arguments for substitution are the keys in
// this graph, and the edges represent shadowing of free variables of the key
// by parameters corresponding to the dependency arguments.
//
// Any argument not present as a map key is known not to be substitutable. Some
// arguments may have edges leading to other arguments that are not present in
// the graph. In this case, those arguments also cannot be substituted, because
// they have free variables that are shadowed by parameters that cannot be
// substituted. Calling [substGraph.prune] removes these arguments from the
// graph.
//
// The 'prune' operation is not built into the 'remove' step both because
// analyses (falcon, effects) need local information about each argument
// independent of dependencies, and for the efficiency of pruning once en masse
// after each analysis.
type substGraph map[*argument][]*argument

// has reports whether arg is a candidate for substitution.
func (g substGraph) has(arg *argument) bool {
	_, ok := g[arg]
	return ok
}

// remove marks arg as not substitutable, reporting whether the arg was
// previously substitutable.
//
// remove does not have side effects on other arguments that may be
// unsubstitutable as a result of their dependency being removed.
// Call [substGraph.prune] to propagate these side effects, removing dependent
// arguments.
func (g substGraph) remove(arg *argument) bool {
	pre := len(g)
	delete(g, arg)
	return len(g) < pre
}

// prune updates the graph to remove any keys that reach other arguments not
// present in the graph.
func (g substGraph) prune() {
	// visit visits the forward transitive closure of arg and reports whether any
	// missing argument was encountered, removing all nodes on the path to it
	// from arg.
	//
	// The seen map is used for cycle breaking. In the presence of cycles, visit
	// may report a false positive for an intermediate argument. For example,
	// consider the following graph, where only a and b are candidates for
	// substitution (meaning, only a and b are present in the graph).
	//
	//   a ↔ b
	//   ↓
	//  [c]
	//
	// In this case, starting a visit from a, visit(b, seen) may report 'true',
	// because c has not yet been considered. For this reason, we must guarantee
	// that visit is called with an empty seen map at least once for each node.
	var visit func(*argument, map[*argument]unit) bool
	visit = func(arg *argument, seen map[*argument]unit) bool {
		deps, ok := g[arg]
		if !ok {
			return false
		}
		if _, ok := seen[arg]; !ok {
			seen[arg] = unit{}
			for _, dep := range deps {
				if !visit(dep, seen) {
					delete(g, arg)
					return false
				}
			}
		}
		return true
	}
	for arg := range g {
		// Remove any argument that is, or transitively depends upon,
		// an unsubstitutable argument.
		//
		// Each visitation gets a fresh cycle-breaking set.
		visit(arg, make(map[*argument]unit))
	}
}

// updateCalleeParams updates the calleeDecl syntax to remove
// substituted parameters and move the receiver (if any) to the head
// of the ordinary parameters.
func updateCalleeParams(calleeDecl *ast.FuncDecl, params []*parameter) {
	// The logic is fiddly because of the three forms of ast.Field:
	//
	//	func(int), func(x int), func(x, y int)
	//
	// Also, ensure that all remaining parameters are named
	// to avoid a mix of named/unnamed when joining (recv, params...).
	// func (T) f(int, bool) -> (_ T, _ int, _ bool)
	// (Strictly, we need do this only for methods and only when
	// the namednesses of Recv and Params differ; that might be tidier.)

	paramIdx := 0 // index in original parameter list (incl. receiver)
	var newParams []*ast.Field
	filterParams := func(field *ast.Field) {
		var names []*ast.Ident
		if field.Names == nil {
			// Unnamed parameter field (e.g. func f(int)
			if params[paramIdx] != nil {
				// Give it an explicit name "_" since we will
				// make the receiver (if any) a regular parameter
				// and one cannot mix named and unnamed parameters.
				names = append(names, makeIdent("_"))
			}
			paramIdx++
		} else {
			// Named parameter field e.g. func f(x, y int)
			// Remove substituted parameters in place.
			// If all were substituted, delete field.
			for _, id := range field.Names {
				if pinfo := params[paramIdx]; pinfo != nil {
					// Rename unreferenced parameters with "_".
					// This is crucial for binding decls, since
					// unlike parameters, they are subject to
					// "unreferenced var" checks.
					if len(pinfo.info.Refs) == 0 {
						id = makeIdent("_")
					}
					names = append(names, id)
				}
				paramIdx++
			}
		}
		if names != nil {
			newParams = append(newParams, &ast.Field{
				Names: names,
				Type:  field.Type,
			})
		}
	}
	if calleeDecl.Recv != nil {
		filterParams(calleeDecl.Recv.List[0])
		calleeDecl.Recv = nil
	}
	for _, field := range calleeDecl.Type.Params.List {
		filterParams(field)
	}
	calleeDecl.Type.Params.List = newParams
}

// bindingDeclInfo records information about the binding decl produced by
// createBindingDecl.
type bindingDeclInfo struct {
	names map[string]bool // names bound by the binding decl; possibly empty
	stmt  ast.Stmt        // the binding decl itself
}

// createBindingDecl constructs a "binding decl" that implements
// parameter assignment and declares any named result variables
// referenced by the callee. It returns nil if there were no
// unsubstituted parameters.
//
// It may not always be possible to create the decl (e.g. due to
// shadowing), in which case it also returns nil; but if it succeeds,
// the declaration may be used by reduction strategies to relax the
// requirement that all parameters have been substituted.
//
// For example, a call:
//
//	f(a0, a1, a2)
//
// where:
//
//	func f(p0, p1 T0, p2 T1) { body }
//
// reduces to:
//
//	{
//	  var (
//	    p0, p1 T0 = a0, a1
//	    p2     T1 = a2
//	  )
//	  body
//	}
//
// so long as p0, p1 ∉ freevars(T1) or freevars(a2), and so on,
// because each spec is statically resolved in sequence and
// dynamically assigned in sequence. By contrast, all
// parameters are resolved simultaneously and assigned
// simultaneously.
//
// The pX names should already be blank ("_") if the parameter
// is unreferenced; this avoids "unreferenced local var" checks.
//
// Strategies may impose additional checks on return
// conversions, labels, defer, etc.
func createBindingDecl(logf logger, caller *Caller, args []*argument, calleeDecl *ast.FuncDecl, results []*paramInfo) *bindingDeclInfo {
	// Spread calls are tricky as they may not align with the
	// parameters' field groupings nor types.
	// For example, given
	//   func g() (int, string)
	// the call
	//   f(g())
	// is legal with these decls of f:
	//   func f(int, string)
	//   func f(x, y any)
	//   func f(x, y ...any)
	// TODO(adonovan): support binding decls for spread calls by
	// splitting parameter groupings as needed.
	if lastArg := last(args); lastArg != nil && lastArg.spread {
		logf("binding decls not yet supported for spread calls")
		return nil
	}

	var (
		specs []ast.Spec
		names = make(map[string]bool) // names defined by previous specs
	)
	// shadow reports whether any name referenced by spec is
	// shadowed by a name declared by a previous spec (since,
	// unlike parameters, each spec of a var decl is within the
	// scope of the previous specs).
	shadow := func(spec *ast.ValueSpec) bool {
		// Compute union of free names of type and values
		// and detect shadowing. Values is the arguments
		// (caller syntax), so we can use type info.
		// But Type is the untyped callee syntax,
		// so we have to use a syntax-only algorithm.
		const includeComplitIdents = true
		free := free.Names(spec.Type, includeComplitIdents)
		for _, value := range spec.Values {
			for name := range freeVars(caller.Info, value) {
				free[name] = true
			}
		}
		for name := range free {
			if names[name] {
				logf("binding decl would shadow free name %q", name)
				return true
			}
		}
		for _, id := range spec.Names {
			if id.Name != "_" {
				names[id.Name] = true
			}
		}
		return false
	}

	// parameters
	//
	// Bind parameters that were not eliminated through
	// substitution. (Non-nil arguments correspond to the
	// remaining parameters in calleeDecl.)
	var values []ast.Expr
	for _, arg := range args {
		if arg != nil {
			values = append(values, arg.expr)
		}
	}
	for _, field := range calleeDecl.Type.Params.List {
		// Each field (param group) becomes a ValueSpec.
		spec := &ast.ValueSpec{
			Names:  cleanNodes(field.Names),
			Type:   cleanNode(field.Type),
			Values: values[:len(field.Names)],
		}
		values = values[len(field.Names):]
		if shadow(spec) {
			return nil
		}
		specs = append(specs, spec)
	}
	assert(len(values) == 0, "args/params mismatch")

	// results
	//
	// Add specs to declare any named result
	// variables that are referenced by the body.
	if calleeDecl.Type.Results != nil {
		resultIdx := 0
		for _, field := range calleeDecl.Type.Results.List {
			if field.Names == nil {
				resultIdx++
				continue // unnamed field
			}
			var names []*ast.Ident
			for _, id := range field.Names {
				if len(results[resultIdx].Refs) > 0 {
					names = append(names, id)
				}
				resultIdx++
			}
			if len(names) > 0 {
				spec := &ast.ValueSpec{
					Names: cleanNodes(names),
					Type:  cleanNode(field.Type),
				}
				if shadow(spec) {
					return nil
				}
				specs = append(specs, spec)
			}
		}
	}

	if len(specs) == 0 {
		logf("binding decl not needed: all parameters substituted")
		return nil
	}

	stmt := &ast.DeclStmt{
		Decl: &ast.GenDecl{
			Tok:   token.VAR,
			Specs: specs,
		},
	}
	logf("binding decl: %s", debugFormatNode(caller.Fset, stmt))
	return &bindingDeclInfo{names: names, stmt: stmt}
}

// lookup does a symbol lookup in the lexical environment of the caller.
func (caller *Caller) lookup(name string) types.Object {
	pos := caller.Call.Pos()
	for _, n := range caller.path {
		if scope := scopeFor(caller.Info, n); scope != nil {
			if _, obj := scope.LookupParent(name, pos); obj != nil {
				return obj
			}
		}
	}
	return nil
}

func scopeFor(info *types.Info, n ast.Node) *types.Scope {
	// The function body scope (containing not just params)
	// is associated with the function's type, not body.
	switch fn := n.(type) {
	case *ast.FuncDecl:
		n = fn.Type
	case *ast.FuncLit:
		n = fn.Type
	}
	return info.Scopes[n]
}

// -- predicates over expressions --

// freeVars returns the names of all free identifiers of e:
// those lexically referenced by it but not defined within it.
// (Fields and methods are not included.)
func freeVars(info *types.Info, e ast.Expr) map[string]bool {
	free := make(map[string]bool)
	ast.Inspect(e, func(n ast.Node) bool {
		if id, ok := n.(*ast.Ident); ok {
			// The isField check is so that we don't treat T{f: 0} as a ref to f.
			if obj, ok := info.Uses[id]; ok && !within(obj.Pos(), e) && !isField(obj) {
				free[obj.Name()] = true
			}
		}
		return true
	})
	return free
}

// effects reports whether an expression might change the state of the
// program (through function calls and channel receives) and affect
// the evaluation of subsequent expressions.
func (st *state) effects(info *types.Info, expr ast.Expr) bool {
	effects := false
	ast.Inspect(expr, func(n ast.Node) bool {
		switch n := n.(type) {
		case *ast.FuncLit:
			return false // prune descent

		case *ast.CallExpr:
			if info.Types[n.Fun].IsType() {
				// A conversion T(x) has only the effect of its operand.
			} else if !typesinternal.CallsPureBuiltin(info, n) {
				// A handful of built-ins have no effect
				// beyond those of their arguments.
				// All other calls (including append, copy, recover)
				// have unknown effects.
				//
				// As with 'pure', there is room for
				// improvement by inspecting the callee.
				effects = true
			}

		case *ast.UnaryExpr:
			if n.Op == token.ARROW { // <-ch
				effects = true
			}
		}
		return true
	})

	// Even if consideration of effects is not desired,
	// we continue to compute, log, and discard them.
	if st.opts.IgnoreEffects && effects {
		effects = false
		st.opts.Logf("ignoring potential effects of argument %s",
			debugFormatNode(st.caller.Fset, expr))
	}

	return effects
}

// pure reports whether an expression has the same result no matter
// when it is executed relative to other expressions, so it can be
// commuted with any other expression or statement without changing
// its meaning.
//
// An expression is considered impure if it reads the contents of any
// variable, with the exception of "single assignment" local variables
// (as classified by the provided callback), which are never updated
// after their initialization.
//
// Pure does not imply duplicable: for example, new(T) and T{} are
// pure expressions but both return a different value each time they
// are evaluated, so they are not safe to duplicate.
//
// Purity does not imply freedom from run-time panics. We assume that
// target programs do not encounter run-time panics nor depend on them
// for correct operation.
//
// TODO(adonovan): add unit tests of this function.
func pure(info *types.Info, assign1 func(*types.Var) bool, e ast.Expr) bool {
	var pure func(e ast.Expr) bool
	pure = func(e ast.Expr) bool {
		switch e := e.(type) {
		case *ast.ParenExpr:
			return pure(e.X)

		case *ast.Ident:
			if v, ok := info.Uses[e].(*types.Var); ok {
				// In general variables are impure
				// as they may be updated, but
				// single-assignment local variables
				// never change value.
				//
				// We assume all package-level variables
				// may be updated, but for non-exported
				// ones we could do better by analyzing
				// the complete package.
				return !isPkgLevel(v) && assign1(v)
			}

			// All other kinds of reference are pure.
			return true

		case *ast.FuncLit:
			// A function literal may allocate a closure that
			// references mutable variables, but mutation
			// cannot be observed without calling the function,
			// and calls are considered impure.
			return true

		case *ast.BasicLit:
			return true

		case *ast.UnaryExpr: // + - ! ^ & but not <-
			return e.Op != token.ARROW && pure(e.X)

		case *ast.BinaryExpr: // arithmetic, shifts, comparisons, &&/||
			return pure(e.X) && pure(e.Y)

		case *ast.CallExpr:
			// A conversion is as pure as its operand.
			if info.Types[e.Fun].IsType() {
				return pure(e.Args[0])
			}

			// Calls to some built-ins are as pure as their arguments.
			if typesinternal.CallsPureBuiltin(info, e) {
				for _, arg := range e.Args {
					if !pure(arg) {
						return false
					}
				}
				return true
			}

			// All other calls are impure, so we can
			// reject them without even looking at e.Fun.
			//
			// More sophisticated analysis could infer purity in
			// commonly used functions such as strings.Contains;
			// perhaps we could offer the client a hook so that
			// go/analysis-based implementation could exploit the
			// results of a purity analysis. But that would make
			// the inliner's choices harder to explain.
			return false

		case *ast.CompositeLit:
			// T{...} is as pure as its elements.
			for _, elt := range e.Elts {
				if kv, ok := elt.(*ast.KeyValueExpr); ok {
					if !pure(kv.Value) {
						return false
					}
					if id, ok := kv.Key.(*ast.Ident); ok {
						if v, ok := info.Uses[id].(*types.Var); ok && v.IsField() {
							continue // struct {field: value}
						}
					}
					// map/slice/array {key: value}
					if !pure(kv.Key) {
						return false
					}

				} else if !pure(elt) {
					return false
				}
			}
			return true

		case *ast.SelectorExpr:
			if seln, ok := info.Selections[e]; ok {
				// See types.SelectionKind for background.
				switch seln.Kind() {
				case types.MethodExpr:
					// A method expression T.f acts like a
					// reference to a func decl, so it is pure.
					return true

				case types.MethodVal, types.FieldVal:
					// A field or method selection x.f is pure
					// if x is pure and the selection does
					// not indirect a pointer.
					return !indirectSelection(seln) && pure(e.X)

				default:
					panic(seln)
				}
			} else {
				// A qualified identifier is
				// treated like an unqualified one.
				return pure(e.Sel)
			}

		case *ast.StarExpr:
			return false // *ptr depends on the state of the heap

		default:
			return false
		}
	}
	return pure(e)
}

// duplicable reports whether it is appropriate for the expression to
// be freely duplicated.
//
// Given the declaration
//
//	func f(x T) T { return x + g() + x }
//
// an argument y is considered duplicable if we would wish to see a
// call f(y) simplified to y+g()+y. This is true for identifiers,
// integer literals, unary negation, and selectors x.f where x is not
// a pointer. But we would not wish to duplicate expressions that:
// - have side effects (e.g. nearly all calls),
// - are not referentially transparent (e.g. &T{}, ptr.field, *ptr), or
// - are long (e.g. "huge string literal").
func duplicable(info *types.Info, e ast.Expr) bool {
	switch e := e.(type) {
	case *ast.ParenExpr:
		return duplicable(info, e.X)

	case *ast.Ident:
		return true

	case *ast.BasicLit:
		v := info.Types[e].Value
		switch e.Kind {
		case token.INT:
			return true // any int
		case token.STRING:
			return consteq(v, kZeroString) // only ""
		case token.FLOAT:
			return consteq(v, kZeroFloat) || consteq(v, kOneFloat) // only 0.0 or 1.0
		}

	case *ast.UnaryExpr: // e.g. +1, -1
		return (e.Op == token.ADD || e.Op == token.SUB) && duplicable(info, e.X)

	case *ast.CompositeLit:
		// Empty struct or array literals T{} are duplicable.
		// (Non-empty literals are too verbose, and slice/map
		// literals allocate indirect variables.)
		if len(e.Elts) == 0 {
			switch info.TypeOf(e).Underlying().(type) {
			case *types.Struct, *types.Array:
				return true
			}
		}
		return false

	case *ast.CallExpr:
		// Treat type conversions as duplicable if they do not observably allocate.
		// The only cases of observable allocations are
		// the `[]byte(string)` and `[]rune(string)` conversions.
		//
		// Duplicating string([]byte) conversions increases
		// allocation but doesn't change behavior, but the
		// reverse, []byte(string), allocates a distinct array,
		// which is observable.

		if !info.Types[e.Fun].IsType() { // check whether e.Fun is a type conversion
			return false
		}

		fun := info.TypeOf(e.Fun)
		arg := info.TypeOf(e.Args[0])

		switch fun := fun.Underlying().(type) {
		case *types.Slice:
			// Do not mark []byte(string) and []rune(string) as duplicable.
			elem, ok := fun.Elem().Underlying().(*types.Basic)
			if ok && (elem.Kind() == types.Rune || elem.Kind() == types.Byte) {
				from, ok := arg.Underlying().(*types.Basic)
				isString := ok && from.Info()&types.IsString != 0
				return !isString
			}
		case *types.TypeParam:
			return false // be conservative
		}
		return true

	case *ast.SelectorExpr:
		if seln, ok := info.Selections[e]; ok {
			// A field or method selection x.f is referentially
			// transparent if it does not indirect a pointer.
			return !indirectSelection(seln)
		}
		// A qualified identifier pkg.Name is referentially transparent.
		return true
	}
	return false
}

func consteq(x, y constant.Value) bool {
	return constant.Compare(x, token.EQL, y)
}

var (
	kZeroInt    = constant.MakeInt64(0)
	kZeroString = constant.MakeString("")
	kZeroFloat  = constant.MakeFloat64(0.0)
	kOneFloat   = constant.MakeFloat64(1.0)
)

// -- inline helpers --

func assert(cond bool, msg string) {
	if !cond {
		panic(msg)
	}
}

// blanks returns a slice of n > 0 blank identifiers.
func blanks[E ast.Expr](n int) []E {
	if n == 0 {
		panic("blanks(0)")
	}
	res := make([]E, n)
	for i := range res {
		res[i] = ast.Expr(makeIdent("_")).(E) // ugh
	}
	return res
}

func makeIdent(name string) *ast.Ident {
	return &ast.Ident{Name: name}
}

// importedPkgName returns the PkgName object declared by an ImportSpec.
// TODO(adonovan): make this a method of types.Info (#62037).
func importedPkgName(info *types.Info, imp *ast.ImportSpec) (*types.PkgName, bool) {
	var obj types.Object
	if imp.Name != nil {
		obj = info.Defs[imp.Name]
	} else {
		obj = info.Implicits[imp]
	}
	pkgname, ok := obj.(*types.PkgName)
	return pkgname, ok
}

func isPkgLevel(obj types.Object) bool {
	// TODO(adonovan): consider using the simpler obj.Parent() ==
	// obj.Pkg().Scope() instead. But be sure to test carefully
	// with instantiations of generics.
	return obj.Pkg().Scope().Lookup(obj.Name()) == obj
}

// callContext returns the two nodes immediately enclosing the call
// (specified as a PathEnclosingInterval), ignoring parens.
func callContext(callPath []ast.Node) (parent, grandparent ast.Node) {
	_ = callPath[0].(*ast.CallExpr) // sanity check
	for _, n := range callPath[1:] {
		if !is[*ast.ParenExpr](n) {
			if parent == nil {
				parent = n
			} else {
				return parent, n
			}
		}
	}
	return parent, nil
}

// hasLabelConflict reports whether the set of labels of the function
// enclosing the call (specified as a PathEnclosingInterval)
// intersects with the set of callee labels.
func hasLabelConflict(callPath []ast.Node, calleeLabels []string) bool {
	labels := callerLabels(callPath)
	for _, label := range calleeLabels {
		if labels[label] {
			return true // conflict
		}
	}
	return false
}

// callerLabels returns the set of control labels in the function (if
// any) enclosing the call (specified as a PathEnclosingInterval).
func callerLabels(callPath []ast.Node) map[string]bool {
	var callerBody *ast.BlockStmt
	switch f := callerFunc(callPath).(type) {
	case *ast.FuncDecl:
		callerBody = f.Body
	case *ast.FuncLit:
		callerBody = f.Body
	}
	var labels map[string]bool
	if callerBody != nil {
		ast.Inspect(callerBody, func(n ast.Node) bool {
			switch n := n.(type) {
			case *ast.FuncLit:
				return false // prune traversal
			case *ast.LabeledStmt:
				if labels == nil {
					labels = make(map[string]bool)
				}
				labels[n.Label.Name] = true
			}
			return true
		})
	}
	return labels
}

// callerFunc returns the innermost Func{Decl,Lit} node enclosing the
// call (specified as a PathEnclosingInterval).
func callerFunc(callPath []ast.Node) ast.Node {
	_ = callPath[0].(*ast.CallExpr) // sanity check
	for _, n := range callPath[1:] {
		if is[*ast.FuncDecl](n) || is[*ast.FuncLit](n) {
			return n
		}
	}
	return nil
}

// callStmt reports whether the function call (specified
// as a PathEnclosingInterval) appears within an ExprStmt,
// and returns it if so.
//
// If unrestricted, callStmt returns nil if the ExprStmt f() appears
// in a restricted context (such as "if f(); cond {") where it cannot
// be replaced by an arbitrary statement. (See "statement theory".)
func callStmt(callPath []ast.Node, unrestricted bool) *ast.ExprStmt {
	parent, _ := callContext(callPath)
	stmt, ok := parent.(*ast.ExprStmt)
	if ok && unrestricted {
		switch callPath[slices.Index(callPath, ast.Node(stmt))+1].(type) {
		case *ast.LabeledStmt,
			*ast.BlockStmt,
			*ast.CaseClause,
			*ast.CommClause:
			// unrestricted
		default:
			// TODO(adonovan): handle restricted
			// XYZStmt.Init contexts (but not ForStmt.Post)
			// by creating a block around the if/for/switch:
			// "if f(); cond {"  ->  "{ stmts; if cond {"

			return nil // restricted
		}
	}
	return stmt
}

// Statement theory
//
// These are all the places a statement may appear in the AST:
//
// LabeledStmt.Stmt       Stmt      -- any
// BlockStmt.List       []Stmt      -- any (but see switch/select)
// IfStmt.Init            Stmt?     -- simple
// IfStmt.Body            BlockStmt
// IfStmt.Else            Stmt?     -- IfStmt or BlockStmt
// CaseClause.Body      []Stmt      -- any
// SwitchStmt.Init        Stmt?     -- simple
// SwitchStmt.Body        BlockStmt -- CaseClauses only
// TypeSwitchStmt.Init    Stmt?     -- simple
// TypeSwitchStmt.Assign  Stmt      -- AssignStmt(TypeAssertExpr) or ExprStmt(TypeAssertExpr)
// TypeSwitchStmt.Body    BlockStmt -- CaseClauses only
// CommClause.Comm        Stmt?     -- SendStmt or ExprStmt(UnaryExpr) or AssignStmt(UnaryExpr)
// CommClause.Body      []Stmt      -- any
// SelectStmt.Body        BlockStmt -- CommClauses only
// ForStmt.Init           Stmt?     -- simple
// ForStmt.Post           Stmt?     -- simple
// ForStmt.Body           BlockStmt
// RangeStmt.Body         BlockStmt
//
// simple = AssignStmt | SendStmt | IncDecStmt | ExprStmt.
//
// A BlockStmt cannot replace an ExprStmt in
// {If,Switch,TypeSwitch}Stmt.Init or ForStmt.Post.
// That is allowed only within:
//   LabeledStmt.Stmt       Stmt
//   BlockStmt.List       []Stmt
//   CaseClause.Body      []Stmt
//   CommClause.Body      []Stmt

// replaceNode performs a destructive update of the tree rooted at
// root, replacing each occurrence of "from" with "to". If to is nil and
// the element is within a slice, the slice element is removed.
//
// The root itself cannot be replaced; an attempt will panic.
//
// This function must not be called on the caller's syntax tree.
//
// TODO(adonovan): polish this up and move it to astutil package.
// TODO(adonovan): needs a unit test.
func replaceNode(root ast.Node, from, to ast.Node) {
	if from == nil {
		panic("from == nil")
	}
	if reflect.ValueOf(from).IsNil() {
		panic(fmt.Sprintf("from == (%T)(nil)", from))
	}
	if from == root {
		panic("from == root")
	}
	found := false
	var parent reflect.Value // parent variable of interface type, containing a pointer
	var visit func(reflect.Value)
	visit = func(v reflect.Value) {
		switch v.Kind() {
		case reflect.Pointer:
			if v.Interface() == from {
				found = true

				// If v is a struct field or array element
				// (e.g. Field.Comment or Field.Names[i])
				// then it is addressable (a pointer variable).
				//
				// But if it was the value an interface
				// (e.g. *ast.Ident within ast.Node)
				// then it is non-addressable, and we need
				// to set the enclosing interface (parent).
				if !v.CanAddr() {
					v = parent
				}

				// to=nil => use zero value
				var toV reflect.Value
				if to != nil {
					toV = reflect.ValueOf(to)
				} else {
					toV = reflect.Zero(v.Type()) // e.g. ast.Expr(nil)
				}
				v.Set(toV)

			} else if !v.IsNil() {
				switch v.Interface().(type) {
				case *ast.Object, *ast.Scope:
					// Skip fields of types potentially involved in cycles.
				default:
					visit(v.Elem())
				}
			}

		case reflect.Struct:
			for i := range v.Type().NumField() {
				visit(v.Field(i))
			}

		case reflect.Slice:
			compact := false
			for i := range v.Len() {
				visit(v.Index(i))
				if v.Index(i).IsNil() {
					compact = true
				}
			}
			if compact {
				// Elements were deleted. Eliminate nils.
				// (Do this is a second pass to avoid
				// unnecessary writes in the common case.)
				j := 0
				for i := range v.Len() {
					if !v.Index(i).IsNil() {
						v.Index(j).Set(v.Index(i))
						j++
					}
				}
				v.SetLen(j)
			}
		case reflect.Interface:
			parent = v
			visit(v.Elem())

		case reflect.Array, reflect.Chan, reflect.Func, reflect.Map, reflect.UnsafePointer:
			panic(v) // unreachable in AST
		default:
			// bool, string, number: nop
		}
		parent = reflect.Value{}
	}
	visit(reflect.ValueOf(root))
	if !found {
		panic(fmt.Sprintf("%T not found", from))
	}
}

// cleanNode returns a clone of node with positions cleared.
//
// It should be used for any callee nodes that are formatted using the caller
// file set.
func cleanNode[T ast.Node](node T) T {
	clone := internalastutil.CloneNode(node)
	clearPositions(clone)
	return clone
}

func cleanNodes[T ast.Node](nodes []T) []T {
	var clean []T
	for _, node := range nodes {
		clean = append(clean, cleanNode(node))
	}
	return clean
}

// clearPositions destroys token.Pos information within the tree rooted at root,
// as positions in callee trees may cause caller comments to be emitted prematurely.
//
// In general it isn't safe to clear a valid Pos because some of them
// (e.g. CallExpr.Ellipsis, TypeSpec.Assign) are significant to
// go/printer, so this function sets each non-zero Pos to 1, which
// suffices to avoid advancing the printer's comment cursor.
//
// This function mutates its argument; do not invoke on caller syntax.
//
// TODO(adonovan): remove this horrendous workaround when #20744 is finally fixed.
func clearPositions(root ast.Node) {
	posType := reflect.TypeFor[token.Pos]()
	ast.Inspect(root, func(n ast.Node) bool {
		if n != nil {
			v := reflect.ValueOf(n).Elem() // deref the pointer to struct
			fields := v.Type().NumField()
			for i := range fields {
				f := v.Field(i)
				// Clearing Pos arbitrarily is destructive,
				// as its presence may be semantically significant
				// (e.g. CallExpr.Ellipsis, TypeSpec.Assign)
				// or affect formatting preferences (e.g. GenDecl.Lparen).
				//
				// Note: for proper formatting, it may be necessary to be selective
				// about which positions we set to 1 vs which we set to token.NoPos.
				// (e.g. we can set most to token.NoPos, save the few that are
				// significant).
				if f.Type() == posType {
					if f.Interface() != token.NoPos {
						f.Set(reflect.ValueOf(token.Pos(1)))
					}
				}
			}
		}
		return true
	})
}

// findIdent finds the Ident beneath root that has the given pos.
// It returns the path to the ident (excluding the ident), and the ident
// itself, where the path is the sequence of ast.Nodes encountered in a
// depth-first search to find ident.
func findIdent(root ast.Node, pos token.Pos) ([]ast.Node, *ast.Ident) {
	// TODO(adonovan): opt: skip subtrees that don't contain pos.
	var (
		path  []ast.Node
		found *ast.Ident
	)
	ast.Inspect(root, func(n ast.Node) bool {
		if found != nil {
			return false
		}
		if n == nil {
			path = path[:len(path)-1]
			return false
		}
		if id, ok := n.(*ast.Ident); ok {
			if id.Pos() == pos {
				found = id
				return true
			}
		}
		path = append(path, n)
		return true
	})
	if found == nil {
		panic(fmt.Sprintf("findIdent %d not found in %s",
			pos, debugFormatNode(token.NewFileSet(), root)))
	}
	return path, found
}

func prepend[T any](elem T, slice ...T) []T {
	return append([]T{elem}, slice...)
}

// debugFormatNode formats a node or returns a formatting error.
// Its sloppy treatment of errors is appropriate only for logging.
func debugFormatNode(fset *token.FileSet, n ast.Node) string {
	var out strings.Builder
	if err := format.Node(&out, fset, n); err != nil {
		out.WriteString(err.Error())
	}
	return out.String()
}

func shallowCopy[T any](ptr *T) *T {
	copy := *ptr
	return &copy
}

// ∀
func forall[T any](list []T, f func(i int, x T) bool) bool {
	for i, x := range list {
		if !f(i, x) {
			return false
		}
	}
	return true
}

// ∃
func exists[T any](list []T, f func(i int, x T) bool) bool {
	for i, x := range list {
		if f(i, x) {
			return true
		}
	}
	return false
}

// last returns the last element of a slice, or zero if empty.
func last[T any](slice []T) T {
	n := len(slice)
	if n > 0 {
		return slice[n-1]
	}
	return *new(T)
}

// declares returns the set of lexical names declared by a
// sequence of statements from the same block, excluding sub-blocks.
// (Lexical names do not include control labels.)
func declares(stmts []ast.Stmt) map[string]bool {
	names := make(map[string]bool)
	for _, stmt := range stmts {
		switch stmt := stmt.(type) {
		case *ast.DeclStmt:
			for _, spec := range stmt.Decl.(*ast.GenDecl).Specs {
				switch spec := spec.(type) {
				case *ast.ValueSpec:
					for _, id := range spec.Names {
						names[id.Name] = true
					}
				case *ast.TypeSpec:
					names[spec.Name.Name] = true
				}
			}

		case *ast.AssignStmt:
			if stmt.Tok == token.DEFINE {
				for _, lhs := range stmt.Lhs {
					names[lhs.(*ast.Ident).Name] = true
				}
			}
		}
	}
	delete(names, "_")
	return names
}

// A importNameFunc is used to query local import names in the caller, in a
// particular shadowing context.
//
// The shadow map contains additional names shadowed in the inlined code, at
// the position the local import name is to be used. The shadow map only needs
// to contain newly introduced names in the inlined code; names shadowed at the
// caller are handled automatically.
type importNameFunc = func(pkgPath string, shadow shadowMap) string

// assignStmts rewrites a statement assigning the results of a call into zero
// or more statements that assign its return operands, or (nil, false) if no
// such rewrite is possible. The set of bindings created by the result of
// assignStmts is the same as the set of bindings created by the callerStmt.
//
// The callee must contain exactly one return statement.
//
// This is (once again) a surprisingly complex task. For example, depending on
// types and existing bindings, the assignment
//
//	a, b := f()
//
// could be rewritten as:
//
//	a, b := 1, 2
//
// but may need to be written as:
//
//	a, b := int8(1), int32(2)
//
// In the case where the return statement within f is a spread call to another
// function g(), we cannot explicitly convert the return values inline, and so
// it may be necessary to split the declaration and assignment of variables
// into separate statements:
//
//	a, b := g()
//
// or
//
//	var a int32
//	a, b = g()
//
// or
//
//	var (
//		a int8
//		b int32
//	)
//	a, b = g()
//
// Note: assignStmts may return (nil, true) if it determines that the rewritten
// assignment consists only of _ = nil assignments.
func (st *state) assignStmts(callerStmt *ast.AssignStmt, returnOperands []ast.Expr, importName importNameFunc) ([]ast.Stmt, bool) {
	logf, caller, callee := st.opts.Logf, st.caller, &st.callee.impl

	assert(len(callee.Returns) == 1, "unexpected multiple returns")
	resultInfo := callee.Returns[0]

	// When constructing assign statements, we need to make sure that we don't
	// modify types on the left-hand side, such as would happen if the type of a
	// RHS expression does not match the corresponding LHS type at the caller
	// (due to untyped conversion or interface widening).
	//
	// This turns out to be remarkably tricky to handle correctly.
	//
	// Substrategies below are labeled as `Substrategy <name>:`.

	// Collect LHS information.
	var (
		lhs    []ast.Expr                                // shallow copy of the LHS slice, for mutation
		defs   = make([]*ast.Ident, len(callerStmt.Lhs)) // indexes in lhs of defining identifiers
		blanks = make([]bool, len(callerStmt.Lhs))       // indexes in lhs of blank identifiers
		byType typeutil.Map                              // map of distinct types -> indexes, for writing specs later
	)
	for i, expr := range callerStmt.Lhs {
		lhs = append(lhs, expr)
		if name, ok := expr.(*ast.Ident); ok {
			if name.Name == "_" {
				blanks[i] = true
				continue // no type
			}

			if obj, isDef := caller.Info.Defs[name]; isDef {
				defs[i] = name
				typ := obj.Type()
				idxs, _ := byType.At(typ).([]int)
				idxs = append(idxs, i)
				byType.Set(typ, idxs)
			}
		}
	}

	// Collect RHS information
	//
	// The RHS is either a parallel assignment or spread assignment, but by
	// looping over both callerStmt.Rhs and returnOperands we handle both.
	var (
		rhs             []ast.Expr              // new RHS of assignment, owned by the inliner
		callIdx         = -1                    // index of the call among the original RHS
		nilBlankAssigns = make(map[int]unit)    // indexes in rhs of _ = nil assignments, which can be deleted
		freeNames       = make(map[string]bool) // free(ish) names among rhs expressions
		nonTrivial      = make(map[int]bool)    // indexes in rhs of nontrivial result conversions
	)
	const includeComplitIdents = true

	for i, expr := range callerStmt.Rhs {
		if expr == caller.Call {
			assert(callIdx == -1, "malformed (duplicative) AST")
			callIdx = i
			for j, returnOperand := range returnOperands {
				maps.Copy(freeNames, free.Names(returnOperand, includeComplitIdents))
				rhs = append(rhs, returnOperand)
				if resultInfo[j]&nonTrivialResult != 0 {
					nonTrivial[i+j] = true
				}
				if blanks[i+j] && resultInfo[j]&untypedNilResult != 0 {
					nilBlankAssigns[i+j] = unit{}
				}
			}
		} else {
			// We must clone before clearing positions, since e came from the caller.
			expr = internalastutil.CloneNode(expr)
			clearPositions(expr)
			maps.Copy(freeNames, free.Names(expr, includeComplitIdents))
			rhs = append(rhs, expr)
		}
	}
	assert(callIdx >= 0, "failed to find call in RHS")

	// Substrategy "splice": Check to see if we can simply splice in the result
	// expressions from the callee, such as simplifying
	//
	//  x, y := f()
	//
	// to
	//
	//  x, y := e1, e2
	//
	// where the types of x and y match the types of e1 and e2.
	//
	// This works as long as we don't need to write any additional type
	// information.
	if len(nonTrivial) == 0 { // no non-trivial conversions to worry about

		logf("substrategy: splice assignment")
		return []ast.Stmt{&ast.AssignStmt{
			Lhs:    lhs,
			Tok:    callerStmt.Tok,
			TokPos: callerStmt.TokPos,
			Rhs:    rhs,
		}}, true
	}

	// Inlining techniques below will need to write type information in order to
	// preserve the correct types of LHS identifiers.
	//
	// typeExpr is a simple helper to write out type expressions. It currently
	// handles (possibly qualified) type names.
	//
	// TODO(rfindley):
	//   1. expand this to handle more type expressions.
	//   2. refactor to share logic with callee rewriting.
	universeAny := types.Universe.Lookup("any")
	typeExpr := func(typ types.Type, shadow shadowMap) ast.Expr {
		var (
			typeName string
			obj      *types.TypeName // nil for basic types
		)
		if tname := typesinternal.TypeNameFor(typ); tname != nil {
			obj = tname
			typeName = tname.Name()
		}

		// Special case: check for universe "any".
		// TODO(golang/go#66921): this may become unnecessary if any becomes a proper alias.
		if typ == universeAny.Type() {
			typeName = "any"
		}

		if typeName == "" {
			return nil
		}

		if obj == nil || obj.Pkg() == nil || obj.Pkg() == caller.Types { // local type or builtin
			if shadow[typeName] != 0 {
				logf("cannot write shadowed type name %q", typeName)
				return nil
			}
			obj, _ := caller.lookup(typeName).(*types.TypeName)
			if obj != nil && types.Identical(obj.Type(), typ) {
				return ast.NewIdent(typeName)
			}
		} else if pkgName := importName(obj.Pkg().Path(), shadow); pkgName != "" {
			return &ast.SelectorExpr{
				X:   ast.NewIdent(pkgName),
				Sel: ast.NewIdent(typeName),
			}
		}
		return nil
	}

	// Substrategy "spread": in the case of a spread call (func f() (T1, T2) return
	// g()), since we didn't hit the 'splice' substrategy, there must be some
	// non-declaring expression on the LHS. Simplify this by pre-declaring
	// variables, rewriting
	//
	//   x, y := f()
	//
	// to
	//
	//  var x int
	//  x, y = g()
	//
	// Which works as long as the predeclared variables do not overlap with free
	// names on the RHS.
	if len(rhs) != len(lhs) {
		assert(len(rhs) == 1 && len(returnOperands) == 1, "expected spread call")

		for _, id := range defs {
			if id != nil && freeNames[id.Name] {
				// By predeclaring variables, we're changing them to be in scope of the
				// RHS. We can't do this if their names are free on the RHS.
				return nil, false
			}
		}

		// Write out the specs, being careful to avoid shadowing free names in
		// their type expressions.
		var (
			specs    []ast.Spec
			specIdxs []int
			shadow   = make(shadowMap)
		)
		failed := false
		byType.Iterate(func(typ types.Type, v any) {
			if failed {
				return
			}
			idxs := v.([]int)
			specIdxs = append(specIdxs, idxs[0])
			texpr := typeExpr(typ, shadow)
			if texpr == nil {
				failed = true
				return
			}
			spec := &ast.ValueSpec{
				Type: texpr,
			}
			for _, idx := range idxs {
				spec.Names = append(spec.Names, ast.NewIdent(defs[idx].Name))
			}
			specs = append(specs, spec)
		})
		if failed {
			return nil, false
		}
		logf("substrategy: spread assignment")
		return []ast.Stmt{
			&ast.DeclStmt{
				Decl: &ast.GenDecl{
					Tok:   token.VAR,
					Specs: specs,
				},
			},
			&ast.AssignStmt{
				Lhs: callerStmt.Lhs,
				Tok: token.ASSIGN,
				Rhs: returnOperands,
			},
		}, true
	}

	assert(len(lhs) == len(rhs), "mismatching LHS and RHS")

	// Substrategy "convert": write out RHS expressions with explicit type conversions
	// as necessary, rewriting
	//
	//  x, y := f()
	//
	// to
	//
	//  x, y := 1, int32(2)
	//
	// As required to preserve types.
	//
	// In the special case of _ = nil, which is disallowed by the type checker
	// (since nil has no default type), we delete the assignment.
	var origIdxs []int // maps back to original indexes after lhs and rhs are pruned
	i := 0
	for j := range lhs {
		if _, ok := nilBlankAssigns[j]; !ok {
			lhs[i] = lhs[j]
			rhs[i] = rhs[j]
			origIdxs = append(origIdxs, j)
			i++
		}
	}
	lhs = lhs[:i]
	rhs = rhs[:i]

	if len(lhs) == 0 {
		logf("trivial assignment after pruning nil blanks assigns")
		// After pruning, we have no remaining assignments.
		// Signal this by returning a non-nil slice of statements.
		return nil, true
	}

	// Write out explicit conversions as necessary.
	//
	// A conversion is necessary if the LHS is being defined, and the RHS return
	// involved a nontrivial implicit conversion.
	for i, expr := range rhs {
		idx := origIdxs[i]
		if nonTrivial[idx] && defs[idx] != nil {
			typ := caller.Info.TypeOf(lhs[i])
			texpr := typeExpr(typ, nil)
			if texpr == nil {
				return nil, false
			}
			if _, ok := texpr.(*ast.StarExpr); ok {
				// TODO(rfindley): is this necessary? Doesn't the formatter add these parens?
				texpr = &ast.ParenExpr{X: texpr} // *T -> (*T)   so that (*T)(x) is valid
			}
			rhs[i] = &ast.CallExpr{
				Fun:  texpr,
				Args: []ast.Expr{expr},
			}
		}
	}
	logf("substrategy: convert assignment")
	return []ast.Stmt{&ast.AssignStmt{
		Lhs: lhs,
		Tok: callerStmt.Tok,
		Rhs: rhs,
	}}, true
}

// tailCallSafeReturn reports whether the callee's return statements may be safely
// used to return from the function enclosing the caller (which must exist).
func tailCallSafeReturn(caller *Caller, calleeSymbol *types.Func, callee *gobCallee) bool {
	// It is safe if all callee returns involve only trivial conversions.
	if !hasNonTrivialReturn(callee.Returns) {
		return true
	}

	var callerType types.Type
	// Find type of innermost function enclosing call.
	// (Beware: Caller.enclosingFunc is the outermost.)
loop:
	for _, n := range caller.path {
		switch f := n.(type) {
		case *ast.FuncDecl:
			callerType = caller.Info.ObjectOf(f.Name).Type()
			break loop
		case *ast.FuncLit:
			callerType = caller.Info.TypeOf(f)
			break loop
		}
	}

	// Non-trivial return conversions in the callee are permitted
	// if the same non-trivial conversion would occur after inlining,
	// i.e. if the caller and callee results tuples are identical.
	callerResults := callerType.(*types.Signature).Results()
	calleeResults := calleeSymbol.Type().(*types.Signature).Results()
	return types.Identical(callerResults, calleeResults)
}

// hasNonTrivialReturn reports whether any of the returns involve a nontrivial
// implicit conversion of a result expression.
func hasNonTrivialReturn(returnInfo [][]returnOperandFlags) bool {
	for _, resultInfo := range returnInfo {
		for _, r := range resultInfo {
			if r&nonTrivialResult != 0 {
				return true
			}
		}
	}
	return false
}

type unit struct{} // for representing sets as maps
