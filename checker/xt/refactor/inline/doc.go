// Copyright 2023 The Go Authors. All rights reserved.
// Use of this source code is governed by a BSD-style
// license that can be found in the LICENSE file.

/*
Package inline implements inlining of Go function calls.

The client provides information about the caller and callee,
including the source text, syntax tree, and type information, and
the inliner returns the modified source file for the caller, or an
error if the inlining operation is invalid (for example because the
function body refers to names that are inaccessible to the caller).

Although this interface demands more information from the client
than might seem necessary, it enables smoother integration with
existing batch and interactive tools that have their own ways of
managing the processes of reading, parsing, and type-checking
packages. In particular, this package does not assume that the
caller and callee belong to the same token.FileSet or
types.Importer realms.

There are many aspects to a function call. It is the only construct
that can simultaneously bind multiple variables of different
explicit types, with implicit assignment conversions. (Neither var
nor := declarations can do that.) It defines the scope of control
labels, of return statements, and of defer statements. Arguments
and results of function calls may be tuples even though tuples are
not first-class values in Go, and a tuple-valued call expression
may be "spread" across the argument list of a call or the operands
of a return statement. All these unique features mean that in the
general case, not everything that can be expressed by a function
call can be expressed without one.

So, in general, inlining consists of modifying a function or method
call expression f(a1, ..., an) so that the name of the function f
is replaced ("literalized") by a literal copy of the function
declaration, with free identifiers suitably modified to use the
locally appropriate identifiers or perhaps constant argument
values.

Inlining must not change the semantics of the call. Semantics
preservation is crucial for clients such as codebase maintenance
tools that automatically inline all calls to designated functions
on a large scale. Such tools must not introduce subtle behavior
changes. (Fully inlining a call is dynamically observable using
reflection over the call stack, but this exception to the rule is
explicitly allowed.)

In many cases it is possible to entirely replace ("reduce") the
call by a copy of the function's body in which parameters have been
replaced by arguments. The inliner supports a number of reduction
strategies, and we expect this set to grow. Nonetheless, sound
reduction is surprisingly tricky.

The inliner is in some ways like an optimizing compiler. A compiler
is considered correct if it doesn't change the meaning of the
program in translation from source language to target language. An
optimizing compiler exploits the particulars of the input to
generate better code, where "better" usually means more efficient.
When a case is found in which it emits suboptimal code, the
compiler is improved to recognize more cases, or more rules, and
more exceptions to rules; this process has no end. Inlining is
similar except that "better" code means tidier code. The baseline
translation (literalization) is correct, but there are endless
rules--and exceptions to rules--by which the output can be
improved.

The following section lists some of the challenges, and ways in
which they can be addressed.

  - All effects of the call argument expressions must be preserved,
    both in their number (they must not be eliminated or repeated),
    and in their order (both with respect to other arguments, and any
    effects in the callee function).

    This must be the case even if the corresponding parameters are
    never referenced, are referenced multiple times, referenced in
    a different order from the arguments, or referenced within a
    nested function that may be executed an arbitrary number of
    times.

    Currently, parameter replacement is not applied to arguments
    with effects, but with further analysis of the sequence of
    strict effects within the callee we could relax this constraint.

  - When not all parameters can be substituted by their arguments
    (e.g. due to possible effects), if the call appears in a
    statement context, the inliner may introduce a var declaration
    that declares the parameter variables (with the correct types)
    and assigns them to their corresponding argument values.
    The rest of the function body may then follow.
    For example, the call

    f(1, 2)

    to the function

    func f(x, y int32) { stmts }

    may be reduced to

    { var x, y int32 = 1, 2; stmts }.

    There are many reasons why this is not always possible. For
    example, true parameters are statically resolved in the same
    scope, and are dynamically assigned their arguments in
    parallel; but each spec in a var declaration is statically
    resolved in sequence and dynamically executed in sequence, so
    earlier parameters may shadow references in later ones.

  - Even an argument expression as simple as ptr.x may not be
    referentially transparent, because another argument may have the
    effect of changing the value of ptr.

    This constraint could be relaxed by some kind of alias or
    escape analysis that proves that ptr cannot be mutated during
    the call.

  - Although constants are referentially transparent, as a matter of
    style we do not wish to duplicate literals that are referenced
    multiple times in the body because this undoes proper factoring.
    Also, string literals may be arbitrarily large.

  - If the function body consists of statements other than just
    "return expr", in some contexts it may be syntactically
    impossible to reduce the call. Consider:

    if x := f(); cond { ... }

    Go has no equivalent to Lisp's progn or Rust's blocks,
    nor ML's let expressions (let param = arg in body);
    its closest equivalent is func(param){body}(arg).
    Reduction strategies must therefore consider the syntactic
    context of the call.

    In such situations we could work harder to extract a statement
    context for the call, by transforming it to:

    { x := f(); if cond { ... } }

  - Similarly, without the equivalent of Rust-style blocks and
    first-class tuples, there is no general way to reduce a call
    to a function such as

    func(params)(args)(results) { stmts; return expr }

    to an expression such as

    { var params = args; stmts; expr }

    or even a statement such as

    results = { var params = args; stmts; expr }

    Consequently the declaration and scope of the result variables,
    and the assignment and control-flow implications of the return
    statement, must be dealt with by cases.

  - A standalone call statement that calls a function whose body is
    "return expr" cannot be simply replaced by the body expression
    if it is not itself a call or channel receive expression; it is
    necessary to explicitly discard the result using "_ = expr".

    Similarly, if the body is a call expression, only calls to some
    built-in functions with no result (such as copy or panic) are
    permitted as statements, whereas others (such as append) return
    a result that must be used, even if just by discarding.

  - If a parameter or result variable is updated by an assignment
    within the function body, it cannot always be safely replaced
    by a variable in the caller. For example, given

    func f(a int) int { a++; return a }

    The call y = f(x) cannot be replaced by { x++; y = x } because
    this would change the value of the caller's variable x.
    Only if the caller is finished with x is this safe.

    A similar argument applies to parameter or result variables
    that escape: by eliminating a variable, inlining would change
    the identity of the variable that escapes.

  - If the function body uses 'defer' and the inlined call is not a
    tail-call, inlining may delay the deferred effects.

  - Because the scope of a control label is the entire function, a
    call cannot be reduced if the caller and callee have intersecting
    sets of control labels. (It is possible to α-rename any
    conflicting ones, but our colleagues building C++ refactoring
    tools report that, when tools must choose new identifiers, they
    generally do a poor job.)

  - Given

    func f() uint8 { return 0 }

    var x any = f()

    reducing the call to var x any = 0 is unsound because it
    discards the implicit conversion to uint8. We may need to make
    each argument-to-parameter conversion explicit if the types
    differ. Assignments to variadic parameters may need to
    explicitly construct a slice.

    An analogous problem applies to the implicit assignments in
    return statements:

    func g() any { return f() }

    Replacing the call f() with 0 would silently lose a
    conversion to uint8 and change the behavior of the program.

  - When inlining a call f(1, x, g()) where those parameters are
    unreferenced, we should be able to avoid evaluating 1 and x
    since they are pure and thus have no effect. But x may be the
    last reference to a local variable in the caller, so removing
    it would cause a compilation error. Parameter substitution must
    avoid making the caller's local variables unreferenced (or must
    be prepared to eliminate the declaration too---this is where an
    iterative framework for simplification would really help).

  - An expression such as s[i] may be valid if s and i are
    variables but invalid if either or both of them are constants.
    For example, a negative constant index s[-1] is always out of
    bounds, and even a non-negative constant index may be out of
    bounds depending on the particular string constant (e.g.
    "abc"[4]).

    So, if a parameter participates in any expression that is
    subject to additional compile-time checks when its operands are
    constant, it may be unsafe to substitute that parameter by a
    constant argument value (#62664).

More complex callee functions are inlinable with more elaborate and
invasive changes to the statements surrounding the call expression.

TODO(adonovan): future work:

  - Handle more of the above special cases by careful analysis,
    thoughtful factoring of the large design space, and thorough
    test coverage.

  - Compute precisely (not conservatively) when parameter
    substitution would remove the last reference to a caller local
    variable, and blank out the local instead of retreating from
    the substitution.

  - Afford the client more control such as a limit on the total
    increase in line count, or a refusal to inline using the
    general approach (replacing name by function literal). This
    could be achieved by returning metadata alongside the result
    and having the client conditionally discard the change.

  - Support inlining of generic functions, replacing type parameters
    by their instantiations.

  - Support inlining of calls to function literals ("closures").
    But note that the existing algorithm makes widespread assumptions
    that the callee is a package-level function or method.

  - Eliminate explicit conversions of "untyped" literals inserted
    conservatively when they are redundant. For example, the
    conversion int32(1) is redundant when this value is used only as a
    slice index; but it may be crucial if it is used in x := int32(1)
    as it changes the type of x, which may have further implications.
    The conversions may also be important to the falcon analysis.

  - Allow non-'go' build systems such as Bazel/Blaze a chance to
    decide whether an import is accessible using logic other than
    "/internal/" path segments. This could be achieved by returning
    the list of added import paths instead of a text diff.

  - Inlining a function from another module may change the
    effective version of the Go language spec that governs it. We
    should probably make the client responsible for rejecting
    attempts to inline from newer callees to older callers, since
    there's no way for this package to access module versions.

  - Use an alternative implementation of the import-organizing
    operation that doesn't require operating on a complete file
    (and reformatting). Then return the results in a higher-level
    form as a set of import additions and deletions plus a single
    diff that encloses the call expression. This interface could
    perhaps be implemented atop imports.Process by post-processing
    its result to obtain the abstract import changes and discarding
    its formatted output.
*/
package inline
