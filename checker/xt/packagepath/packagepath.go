// Copyright 2025 The Go Authors. All rights reserved.
// Use of this source code is governed by a BSD-style
// license that can be found in the LICENSE file.

// Package packagepath provides metadata operations on package path
// strings.
package packagepath

// (This package should not depend on go/ast.)
import "strings"

// CanImport reports whether one package is allowed to import another.
//
// TODO(adonovan): allow customization of the accessibility relation
// (e.g. for Bazel).
func CanImport(from, to string) bool {
	// TODO(adonovan): better segment hygiene.
	if to == "internal" || strings.HasPrefix(to, "internal/") {
		// Special case: only std packages may import internal/...
		// We can't reliably know whether we're in std, so we
		// use a heuristic on the first segment.
		first, _, _ := strings.Cut(from, "/")
		if strings.Contains(first, ".") {
			return false // example.com/foo ∉ std
		}
		if first == "testdata" {
			return false // testdata/foo ∉ std
		}
	}
	if strings.HasSuffix(to, "/internal") {
		return strings.HasPrefix(from, to[:len(to)-len("/internal")])
	}
	if i := strings.LastIndex(to, "/internal/"); i >= 0 {
		return strings.HasPrefix(from, to[:i])
	}
	return true
}

// MaybeStdPackage reports whether the specified package path might
// belong to a package in the standard library (including internal
// dependencies), based only on its form.
//
// It may spuriously return true, but a result of false is definitive:
//
//	MaybeStdPackage("fmt")             = true
//	MaybeStdPackage("maybe/tomorrow")  = true  // false positive
//	MaybeStdPackage("example.com/foo") = false
//
// For a definitive answer, use [stdlib.HasPackage], which consults a
// huge table.
func MaybeStdPackage(path string) bool {
	// A standard package has no dot in its first segment.
	// (It may yet have a dot, e.g. "vendor/golang.org/x/foo".)
	slash := strings.IndexByte(path, '/')
	if slash < 0 {
		slash = len(path)
	}
	return !strings.Contains(path[:slash], ".") && path != "testdata"
}
