// Copyright 2024 The Go Authors. All rights reserved.
// Use of this source code is governed by a BSD-style
// license that can be found in the LICENSE file.

//go:build ignore

// The generate command reads all the GOROOT/api/go1.*.txt files and
// generates a single combined manifest.go file containing the Go
// standard library API symbols along with versions.
//
// It also runs "go list -deps std" and records the import graph. This
// information may be used, for example, to ensure that tools don't
// suggest fixes that import package P when analyzing one of P's
// dependencies.
package main

import (
	"bytes"
	"cmp"
	"encoding/binary"
	"encoding/json"
	"errors"
	"fmt"
	"go/ast"
	"go/format"
	"go/parser"
	"go/token"
	"go/types"
	"io/fs"
	"log"
	"os"
	"os/exec"
	"path/filepath"
	"regexp"
	"slices"
	"strconv"
	"strings"

	"golang.org/x/tools/go/packages"
)

func main() {
	log.SetFlags(log.Lshortfile) // to identify the source of the log messages

	dir := apidir()
	manifest(dir)
	deps()
}

// -- generate std manifest --

func manifest(apidir string) {
	// find the signatures
	cfg := packages.Config{
		Mode: packages.LoadTypes,
		Env:  append(os.Environ(), "CGO_ENABLED=0", "GOOS=linux", "GOARCH=amd64"),
	}
	// find the source. This is not totally reliable: different
	// systems may get different versions of unreleased APIs.
	// The result depends on the toolchain.
	// The x/tools release process regenerates the table
	// with the canonical toolchain.
	stdpkgs, err := packages.Load(&cfg, "std")
	if err != nil {
		log.Fatal(err)
	}
	signatures := make(map[string]map[string]string) // PkgPath->FuncName->signature
	// signatures start with func and may contain type parameters
	// "func[T comparable](value T) unique.Handle[T]"
	for _, pkg := range stdpkgs {
		if strings.HasPrefix(pkg.PkgPath, "vendor/") ||
			strings.HasPrefix(pkg.PkgPath, "internal/") ||
			strings.Contains(pkg.PkgPath, "/internal/") {
			continue
		}
		for _, name := range pkg.Types.Scope().Names() {
			fixer := func(p *types.Package) string {
				// fn.Signature() would have produced
				// "func(fi io/fs.FileInfo, link string) (*archive/tar.Header, error)"},
				// This produces
				// "func FileInfoHeader(fi fs.FileInfo, link string) (*Header, error)""
				// Note that the function name is superfluous, so it is removed below
				if p != pkg.Types {
					return p.Name()
				}
				return ""
			}
			obj := pkg.Types.Scope().Lookup(name)
			if fn, ok := obj.(*types.Func); ok {
				mp, ok := signatures[pkg.PkgPath]
				if !ok {
					mp = make(map[string]string)
					signatures[pkg.PkgPath] = mp
				}
				sig := types.ObjectString(fn, fixer)
				// remove the space and function name introduced by fixer
				sig = strings.Replace(sig, " "+name, "", 1)
				mp[name] = sig
			}
		}
	}

	// read the api data
	pkgs := make(map[string]map[string]symInfo) // package -> symbol -> info
	symRE := regexp.MustCompile(`^pkg (\S+).*?, (var|func|type|const|method \([^)]*\)) ([\pL\p{Nd}_]+)(.*)`)

	// parse parses symbols out of GOROOT/api/*.txt data, with the specified minor version.
	// Errors are reported against filename.
	parse := func(filename string, data []byte, minor int) {
		for linenum, line := range strings.Split(string(data), "\n") {
			if line == "" || strings.HasPrefix(line, "#") {
				continue
			}
			m := symRE.FindStringSubmatch(line)
			if m == nil {
				log.Fatalf("invalid input: %s:%d: %s", filename, linenum+1, line)
			}
			path, kind, sym, rest := m[1], m[2], m[3], m[4]

			if _, recv, ok := strings.Cut(kind, "method "); ok {
				// e.g. "method (*Func) Pos() token.Pos"
				kind = "method" // (concrete)

				recv := removeTypeParam(recv) // (*Foo[T]) -> (*Foo)

				sym = recv + "." + sym // (*T).m

			} else if method, ok := strings.CutPrefix(rest, " interface, "); ok && kind == "type" {
				// e.g. "pkg reflect, type Type interface, Comparable() bool"
				// or   "pkg net, type Error interface, Temporary //deprecated"

				kind = "method" // (abstract)

				if strings.HasPrefix(method, "unexported methods") {
					continue
				}
				if strings.Contains(method, " //deprecated") {
					continue
				}
				name, _, ok := strings.Cut(method, "(")
				if !ok {
					log.Printf("unexpected: %s", line)
					continue
				}
				sym = fmt.Sprintf("(%s).%s", sym, name) // (T).m

			} else if field, ok := strings.CutPrefix(rest, " struct, "); ok && kind == "type" {
				// e.g. "type ParenExpr struct, Lparen token.Pos"
				kind = "field"
				name, typ, _ := strings.Cut(field, " ")

				// The api script uses the name
				// "embedded" (ambiguously) for
				// the name of an anonymous field.
				if name == "embedded" {
					// Strip "*pkg.T" down to "T".
					typ = strings.TrimPrefix(typ, "*")
					if _, after, ok := strings.Cut(typ, "."); ok {
						typ = after
					}
					typ = removeTypeParam(typ) // embedded Foo[T] -> Foo
					name = typ
				}

				sym += "." + name // T.f
			}

			symbols, ok := pkgs[path]
			if !ok {
				symbols = make(map[string]symInfo)
				pkgs[path] = symbols
			}

			// Don't overwrite earlier entries:
			// enums are redeclared in later versions
			// as their encoding changes;
			// deprecations count as updates too.
			// TODO(adonovan): it would be better to mark
			// deprecated as a boolean without changing the
			// version.
			if _, ok := symbols[sym]; !ok {
				var sig string
				if kind == "func" {
					sig = signatures[path][sym]
				}
				symbols[sym] = symInfo{
					kind:      kind,
					minor:     minor,
					signature: sig,
				}
			}
		}
	}

	// Read and parse the GOROOT/api manifests.
	for minor := 0; ; minor++ {
		base := "go1.txt"
		if minor > 0 {
			base = fmt.Sprintf("go1.%d.txt", minor)
		}
		filename := filepath.Join(apidir, base)
		data, err := os.ReadFile(filename)
		if err != nil {
			if errors.Is(err, fs.ErrNotExist) {
				// All caught up.
				// Synthesize one final file from any api/next/*.txt fragments.
				// (They are consolidated into a go1.%d file some time between
				// the freeze and the first release candidate.)
				filenames, err := filepath.Glob(filepath.Join(apidir, "next", "*.txt"))
				if err != nil {
					log.Fatal(err)
				}
				var next bytes.Buffer
				for _, filename := range filenames {
					data, err := os.ReadFile(filename)
					if err != nil {
						log.Fatal(err)
					}
					next.Write(data)
				}
				parse(filename, next.Bytes(), minor) // (filename is a lie)
				break
			}
			log.Fatal(err)
		}
		parse(filename, data, minor)
	}

	// The APIs of the syscall/js and unsafe packages need to be computed explicitly,
	// because they're not included in the GOROOT/api/go1.*.txt files at this time.
	pkgs["syscall/js"] = loadSymbols("syscall/js", "GOOS=js", "GOARCH=wasm")
	pkgs["unsafe"] = exportedSymbols(types.Unsafe) // TODO(adonovan): set correct versions

	// Write the combined manifest.
	var buf bytes.Buffer
	buf.WriteString(`// Copyright 2025 The Go Authors. All rights reserved.
// Use of this source code is governed by a BSD-style
// license that can be found in the LICENSE file.

// Code generated by generate.go. DO NOT EDIT.

package stdlib

var PackageSymbols = map[string][]Symbol{
`)

	for _, path := range sortedKeys(pkgs) {
		pkg := pkgs[path]
		fmt.Fprintf(&buf, "\t%q: {\n", path)
		for _, name := range sortedKeys(pkg) {
			info := pkg[name]
			fmt.Fprintf(&buf, "\t\t{%q, %s, %d, %q},\n",
				name, strings.Title(info.kind), info.minor, info.signature)
		}
		fmt.Fprintln(&buf, "},")
	}
	fmt.Fprintln(&buf, "}")
	fmtbuf, err := format.Source(buf.Bytes())
	if err != nil {
		log.Fatal(err)
	}
	if err := os.WriteFile("manifest.go", fmtbuf, 0o666); err != nil {
		log.Fatal(err)
	}
}

// find the api directory, In most situations it is in GOROOT/api, but not always.
// TODO(pjw): understand where it might be, and if there could be newer and older versions
func apidir() string {
	stdout := new(bytes.Buffer)
	cmd := exec.Command("go", "env", "GOROOT", "GOPATH")
	cmd.Stdout = stdout
	cmd.Stderr = os.Stderr
	if err := cmd.Run(); err != nil {
		log.Fatal(err)
	}
	// Prefer GOROOT/api over GOPATH/api.
	for line := range strings.SplitSeq(stdout.String(), "\n") {
		apidir := filepath.Join(line, "api")
		info, err := os.Stat(apidir)
		if err == nil && info.IsDir() {
			return apidir
		}
	}
	log.Fatal("could not find api dir")
	return ""
}

type symInfo struct {
	kind  string // e.g. "func"
	minor int    // go1.%d
	// for completion snippets
	signature string // for Kind == stdlib.Func
}

// loadSymbols computes the exported symbols in the specified package
// by parsing and type-checking the current source.
func loadSymbols(pkg string, extraEnv ...string) map[string]symInfo {
	pkgs, err := packages.Load(&packages.Config{
		Mode: packages.NeedTypes,
		Env:  append(os.Environ(), extraEnv...),
	}, pkg)
	if err != nil {
		log.Fatalln(err)
	} else if len(pkgs) != 1 {
		log.Fatalf("got %d packages, want one package %q", len(pkgs), pkg)
	}
	return exportedSymbols(pkgs[0].Types)
}

func exportedSymbols(pkg *types.Package) map[string]symInfo {
	symbols := make(map[string]symInfo)
	for _, name := range pkg.Scope().Names() {
		if obj := pkg.Scope().Lookup(name); obj.Exported() {
			var kind string
			switch obj.(type) {
			case *types.Func, *types.Builtin:
				kind = "func"
			case *types.Const:
				kind = "const"
			case *types.Var:
				kind = "var"
			case *types.TypeName:
				kind = "type"
				// TODO(adonovan): expand fields and methods of syscall/js.*
			default:
				log.Fatalf("unexpected object type: %v", obj)
			}
			symbols[name] = symInfo{kind: kind, minor: 0} // pretend go1.0
		}
	}
	return symbols
}

func sortedKeys[M ~map[K]V, K cmp.Ordered, V any](m M) []K {
	r := make([]K, 0, len(m))
	for k := range m {
		r = append(r, k)
	}
	slices.Sort(r)
	return r
}

func removeTypeParam(s string) string {
	i := strings.IndexByte(s, '[')
	j := strings.LastIndexByte(s, ']')
	if i > 0 && j > i {
		s = s[:i] + s[j+len("["):]
	}
	return s
}

// -- generate dependency graph --

func deps() {
	type Package struct {
		// go list JSON output
		ImportPath string   // import path of package in dir
		Imports    []string // import paths used by this package

		// encoding
		index int
		deps  []int // indices of direct imports, sorted
	}
	pkgs := make(map[string]*Package)
	var keys []string
	for dec := json.NewDecoder(runGo("list", "-deps", "-json", "std")); dec.More(); {
		var pkg Package
		if err := dec.Decode(&pkg); err != nil {
			log.Fatal(err)
		}
		pkgs[pkg.ImportPath] = &pkg
		keys = append(keys, pkg.ImportPath)
	}

	// Sort and number the packages.
	// There are 344 as of Mar 2025.
	slices.Sort(keys)
	for i, name := range keys {
		pkgs[name].index = i
	}

	// Encode the dependencies.
	for _, pkg := range pkgs {
		for _, imp := range pkg.Imports {
			if imp == "C" {
				continue
			}
			pkg.deps = append(pkg.deps, pkgs[imp].index)
		}
		slices.Sort(pkg.deps)
	}

	// Emit the table.
	var buf bytes.Buffer
	buf.WriteString(`// Copyright 2025 The Go Authors. All rights reserved.
// Use of this source code is governed by a BSD-style
// license that can be found in the LICENSE file.

// Code generated by generate.go. DO NOT EDIT.

package stdlib

type pkginfo struct {
	name string
	deps string // list of indices of dependencies, as varint-encoded deltas
}
var deps = [...]pkginfo{
`)
	for _, name := range keys {
		prev := 0
		var deps []int
		for _, v := range pkgs[name].deps {
			deps = append(deps, v-prev) // delta
			prev = v
		}
		var data []byte
		for _, v := range deps {
			data = binary.AppendUvarint(data, uint64(v))
		}
		fmt.Fprintf(&buf, "\t{%q, %q},\n", name, data)
	}
	fmt.Fprintln(&buf, "}")

	// Also write the list of bootstrap packages.
	// (We can't use indices because it is not a subset of std.)
	bootstrap, version := bootstrap()
	minor := strings.Split(version, ".")[1] // "go1.2.3" -> "2"
	buf.WriteString(`
// bootstrap is the list of bootstrap packages extracted from cmd/dist.
var bootstrap = map[string]bool{
`)
	for _, pkg := range bootstrap {
		fmt.Fprintf(&buf, "\t%q: true,\n", pkg)
	}
	fmt.Fprintf(&buf, `}

// BootstrapVersion is the minor version of Go used during toolchain
// bootstrapping. Packages for which [IsBootstrapPackage] must not use
// features of Go newer than this version.
const BootstrapVersion = Version(%s) // %s
`, minor, version)

	// Format and update the dependencies file.
	fmtbuf, err := format.Source(buf.Bytes())
	if err != nil {
		log.Fatal(err)
	}
	if err := os.WriteFile("deps.go", fmtbuf, 0o666); err != nil {
		log.Fatal(err)
	}

	// Also generate the data for the test.
	for _, t := range [...]struct{ flag, filename string }{
		{"-deps=true", "testdata/nethttp.deps"},
		{`-f={{join .Imports "\n"}}`, "testdata/nethttp.imports"},
	} {
		stdout := new(bytes.Buffer)
		cmd := exec.Command("go", "list", t.flag, "net/http")
		cmd.Stdout = stdout
		cmd.Stderr = os.Stderr
		cmd.Env = append(os.Environ(), "CGO_ENABLED=0", "GOOS=linux", "GOARCH=amd64")
		if err := cmd.Run(); err != nil {
			log.Fatal(err)
		}
		if err := os.WriteFile(t.filename, stdout.Bytes(), 0666); err != nil {
			log.Fatal(err)
		}
	}
}

// bootstrap returns the list of bootstrap packages out of the
// source of the dist command, along with the minimum toolchain
// version.
//
// We assume it is "var bootstrapDirs []string" in buildtool.go, and
// is a list of string literals, either package names or "dir/...".
// TODO(adonovan): find a more robust solution.
func bootstrap() ([]string, string) {
	fset := token.NewFileSet()
	filename := strings.TrimSpace(runGo("list", "-f={{.Dir}}/buildtool.go", "cmd/dist").String())
	f, err := parser.ParseFile(fset, filename, nil, 0)
	if err != nil {
		log.Fatalf("can't parse buildtool.go file in cmd/dist package: %v", err)
	}

	const bootstrapVarName = "bootstrapDirs"
	var (
		args    = []string{"list"} // go list command to expand bootstrap packages
		version string
	)
	for _, decl := range f.Decls {
		decl, ok := decl.(*ast.GenDecl)
		if !ok {
			continue
		}
		for _, spec := range decl.Specs {
			spec, ok := spec.(*ast.ValueSpec)
			if !ok {
				continue
			}
			if len(spec.Names) != 1 {
				continue
			}
			switch spec.Names[0].Name {
			case bootstrapVarName:
				// var bootstrapDirs = []string{ ... }
				if len(spec.Values) != 1 {
					log.Fatalf("%s: %s var spec has %d values, want 1",
						fset.Position(spec.Pos()), len(spec.Values))
				}
				value0 := spec.Values[0]
				lit, ok := value0.(*ast.CompositeLit)
				if !ok {
					log.Fatalf("%s: %s assigned from %T, want slice literal",
						fset.Position(value0.Pos()), value0)
				}
				// Construct a go list command from the package patterns.
				for _, elt := range lit.Elts {
					lit, ok := elt.(*ast.BasicLit)
					if !ok {
						log.Fatalf("%s: element is %T, want string literal",
							fset.Position(elt.Pos()), elt)
					}
					pattern, err := strconv.Unquote(lit.Value)
					if err != nil {
						log.Fatalf("%s: %v", fset.Position(elt.Pos()), err)
					}
					args = append(args, pattern)
				}

			case "minBootstrap":
				// const minBootstrap = "go1.2.3"
				lit := spec.Values[0].(*ast.BasicLit)
				version, _ = strconv.Unquote(lit.Value)
			}
		}
	}
	if len(args) < 2 {
		log.Fatalf("can't find var %s in buildtool.go file in cmd/dist package: %v",
			bootstrapVarName, err)
	}
	if version == "" {
		log.Fatalf("can't find const minBootstrap version in buildtool.go file in cmd/dist package: %v",
			err)
	}

	return strings.Split(strings.TrimSpace(runGo(args...).String()), "\n"), version
}

func runGo(args ...string) *bytes.Buffer {
	cmd := exec.Command("go", args...)
	cmd.Env = append(os.Environ(), "CGO_ENABLED=0", "GOOS=linux", "GOARCH=amd64")
	stdout, err := cmd.Output()
	if err != nil {
		log.Fatalf("%s: failed: %v", cmd, err)
	}
	return bytes.NewBuffer(stdout)
}
