// Copyright 2022 The Go Authors. All rights reserved.
// Use of this source code is governed by a BSD-style
// license that can be found in the LICENSE file.

//go:generate go run generate.go

// Package stdlib provides a table of all exported symbols in the
// standard library, along with the version at which they first
// appeared. It also provides the import graph of std packages.
package stdlib

import (
	"fmt"
	"strings"
)

type Symbol struct {
	Name    string
	Kind    Kind
	Version Version // Go version that first included the symbol
	// Signature provides the type of a function (defined only for Kind=Func).
	// Imported types are denoted as pkg.T; pkg is not fully qualified.
	// TODO(adonovan): use an unambiguous encoding that is parseable.
	//
	// Example2:
	//    func[M ~map[K]V, K comparable, V any](m M) M
	//    func(fi fs.FileInfo, link string) (*Header, error)
	Signature string // if Kind == stdlib.Func
}

// A Kind indicates the kind of a symbol:
// function, variable, constant, type, and so on.
type Kind int8

const (
	Invalid Kind = iota // Example name:
	Type                // "Buffer"
	Func                // "Println"
	Var                 // "EOF"
	Const               // "Pi"
	Field               // "Point.X"
	Method              // "(*Buffer).Grow" or "(Reader).Read"
)

func (kind Kind) String() string {
	return [...]string{
		Invalid: "invalid",
		Type:    "type",
		Func:    "func",
		Var:     "var",
		Const:   "const",
		Field:   "field",
		Method:  "method",
	}[kind]
}

// A Version represents a version of Go of the form "go1.%d".
type Version int8

// String returns a version string of the form "go1.23", without allocating.
func (v Version) String() string { return versions[v] }

var versions [30]string // (increase constant as needed)

func init() {
	for i := range versions {
		versions[i] = fmt.Sprintf("go1.%d", i)
	}
}

// HasPackage reports whether the specified package path is part of
// the standard library's public API.
func HasPackage(path string) bool {
	_, ok := PackageSymbols[path]
	return ok
}

// SplitField splits the field symbol name into type and field
// components. It must be called only on Field symbols.
//
// Example: "File.Package" -> ("File", "Package")
func (sym *Symbol) SplitField() (typename, name string) {
	if sym.Kind != Field {
		panic("not a field")
	}
	typename, name, _ = strings.Cut(sym.Name, ".")
	return
}

// SplitMethod splits the method symbol name into pointer, receiver,
// and method components. It must be called only on Method symbols.
//
// Example: "(*Buffer).Grow" -> (true, "Buffer", "Grow")
func (sym *Symbol) SplitMethod() (ptr bool, recv, name string) {
	if sym.Kind != Method {
		panic("not a method")
	}
	recv, name, _ = strings.Cut(sym.Name, ".")
	recv = recv[len("(") : len(recv)-len(")")]
	ptr = recv[0] == '*'
	if ptr {
		recv = recv[len("*"):]
	}
	return
}
