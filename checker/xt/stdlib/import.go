// Copyright 2025 The Go Authors. All rights reserved.
// Use of this source code is governed by a BSD-style
// license that can be found in the LICENSE file.

package stdlib

// This file provides the API for the import graph of the standard library.
//
// Be aware that the compiler-generated code for every package
// implicitly depends on package "runtime" and a handful of others
// (see runtimePkgs in GOROOT/src/cmd/internal/objabi/pkgspecial.go).

import (
	"encoding/binary"
	"iter"
	"slices"
	"strings"
)

// Imports returns the sequence of packages directly imported by the
// named standard packages, in name order.
// The imports of an unknown package are the empty set.
//
// The graph is built into the application and may differ from the
// graph in the Go source tree being analyzed by the application.
func Imports(pkgs ...string) iter.Seq[string] {
	return func(yield func(string) bool) {
		for _, pkg := range pkgs {
			if i, ok := find(pkg); ok {
				var depIndex uint64
				for data := []byte(deps[i].deps); len(data) > 0; {
					delta, n := binary.Uvarint(data)
					depIndex += delta
					if !yield(deps[depIndex].name) {
						return
					}
					data = data[n:]
				}
			}
		}
	}
}

// Dependencies returns the set of all dependencies of the named
// standard packages, including the initial package,
// in a deterministic topological order.
// The dependencies of an unknown package are the empty set.
//
// The graph is built into the application and may differ from the
// graph in the Go source tree being analyzed by the application.
func Dependencies(pkgs ...string) iter.Seq[string] {
	return func(yield func(string) bool) {
		for _, pkg := range pkgs {
			if i, ok := find(pkg); ok {
				var seen [1 + len(deps)/8]byte // bit set of seen packages
				var visit func(i int) bool
				visit = func(i int) bool {
					bit := byte(1) << (i % 8)
					if seen[i/8]&bit == 0 {
						seen[i/8] |= bit
						var depIndex uint64
						for data := []byte(deps[i].deps); len(data) > 0; {
							delta, n := binary.Uvarint(data)
							depIndex += delta
							if !visit(int(depIndex)) {
								return false
							}
							data = data[n:]
						}
						if !yield(deps[i].name) {
							return false
						}
					}
					return true
				}
				if !visit(i) {
					return
				}
			}
		}
	}
}

// find returns the index of pkg in the deps table.
func find(pkg string) (int, bool) {
	return slices.BinarySearchFunc(deps[:], pkg, func(p pkginfo, n string) int {
		return strings.Compare(p.name, n)
	})
}

// IsBootstrapPackage reports whether pkg is one of the low-level
// packages in the Go distribution that must compile with the older
// language version specified by [BootstrapVersion] during toolchain
// bootstrapping; see golang.org/s/go15bootstrap.
func IsBootstrapPackage(pkg string) bool {
	return bootstrap[pkg]
}
