// Copyright 2023 The Go Authors. All rights reserved.
// Use of this source code is governed by a BSD-style
// license that can be found in the LICENSE file.

package astutil

import (
	"go/ast"
	"reflect"
)

// CloneNode returns a deep copy of a Node.
// It omits pointers to ast.{Scope,Object} variables.
func CloneNode[T ast.Node](n T) T {
	return cloneNode(n).(T)
}

func cloneNode(n ast.Node) ast.Node {
	var clone func(x reflect.Value) reflect.Value
	set := func(dst, src reflect.Value) {
		src = clone(src)
		if src.IsValid() {
			dst.Set(src)
		}
	}
	clone = func(x reflect.Value) reflect.Value {
		switch x.Kind() {
		case reflect.Pointer:
			if x.IsNil() {
				return x
			}
			// Skip fields of types potentially involved in cycles.
			switch x.Interface().(type) {
			case *ast.Object, *ast.Scope:
				return reflect.Zero(x.Type())
			}
			y := reflect.New(x.Type().Elem())
			set(y.Elem(), x.Elem())
			return y

		case reflect.Struct:
			y := reflect.New(x.Type()).Elem()
			for i := 0; i < x.Type().NumField(); i++ {
				set(y.Field(i), x.Field(i))
			}
			return y

		case reflect.Slice:
			if x.IsNil() {
				return x
			}
			y := reflect.MakeSlice(x.Type(), x.Len(), x.Cap())
			for i := 0; i < x.Len(); i++ {
				set(y.Index(i), x.Index(i))
			}
			return y

		case reflect.Interface:
			y := reflect.New(x.Type()).Elem()
			set(y, x.Elem())
			return y

		case reflect.Array, reflect.Chan, reflect.Func, reflect.Map, reflect.UnsafePointer:
			panic(x) // unreachable in AST

		default:
			return x // bool, string, number
		}
	}
	return clone(reflect.ValueOf(n)).Interface().(ast.Node)
}
