// Copyright 2025 The Go Authors. All rights reserved.
// Use of this source code is governed by a BSD-style
// license that can be found in the LICENSE file.

package astutil

import (
	"fmt"
	"go/ast"
	"go/token"
	"strconv"
	"unicode/utf8"
)

// RangeInStringLiteral calculates the positional range within a string literal
// corresponding to the specified start and end byte offsets within the logical string.
func RangeInStringLiteral(lit *ast.BasicLit, start, end int) (Range, error) {
	startPos, err := PosInStringLiteral(lit, start)
	if err != nil {
		return Range{}, fmt.Errorf("start: %v", err)
	}
	endPos, err := PosInStringLiteral(lit, end)
	if err != nil {
		return Range{}, fmt.Errorf("end: %v", err)
	}
	return Range{startPos, endPos}, nil
}

// PosInStringLiteral returns the position within a string literal
// corresponding to the specified byte offset within the logical
// string that it denotes.
func PosInStringLiteral(lit *ast.BasicLit, offset int) (token.Pos, error) {
	raw := lit.Value

	value, err := strconv.Unquote(raw)
	if err != nil {
		return 0, err
	}
	if !(0 <= offset && offset <= len(value)) {
		return 0, fmt.Errorf("invalid offset")
	}

	pos, _ := walkStringLiteral(lit, lit.End(), offset)
	return pos, nil
}

// OffsetInStringLiteral returns the byte offset within the logical (unquoted)
// string corresponding to the specified source position.
func OffsetInStringLiteral(lit *ast.BasicLit, pos token.Pos) (int, error) {
	if !NodeContainsPos(lit, pos) {
		return 0, fmt.Errorf("invalid position")
	}

	raw := lit.Value

	value, err := strconv.Unquote(raw)
	if err != nil {
		return 0, err
	}

	_, offset := walkStringLiteral(lit, pos, len(value))
	return offset, nil
}

// walkStringLiteral iterates through the raw string literal to map between
// a file position and a logical byte offset. It stops when it reaches
// either the targetPos or the targetOffset.
//
// TODO(hxjiang): consider making an iterator.
func walkStringLiteral(lit *ast.BasicLit, targetPos token.Pos, targetOffset int) (token.Pos, int) {
	raw := lit.Value
	norm := int(lit.End()-lit.Pos()) > len(lit.Value)

	// remove quotes
	quote := raw[0] // '"' or '`'
	raw = raw[1 : len(raw)-1]

	var (
		i   = 0             // byte index within logical value
		pos = lit.Pos() + 1 // position within literal
	)

	for raw != "" {
		r, _, rest, _ := strconv.UnquoteChar(raw, quote) // can't fail
		sz := len(raw) - len(rest)                       // length of literal char in raw bytes

		nextPos := pos + token.Pos(sz)
		if norm && r == '\n' {
			nextPos++
		}
		nextI := i + utf8.RuneLen(r) // length of logical char in "cooked" bytes

		if nextPos > targetPos || nextI > targetOffset {
			break
		}

		raw = raw[sz:]
		i = nextI
		pos = nextPos
	}

	return pos, i
}
