// Copyright 2023 The Go Authors. All rights reserved.
// Use of this source code is governed by a BSD-style
// license that can be found in the LICENSE file.

// Package astutil provides various AST utility functions for gopls.
package astutil

import (
	"bytes"
	"go/scanner"
	"go/token"
)

// PurgeFuncBodies returns a copy of src in which the contents of each
// outermost {...} region have been deleted, except for struct and
// interface type bodies and the bodies of length-elided array
// literals ([...]T), whose element count is part of the type. It
// includes function bodies, function-literal bodies, and the bodies
// of slice, map, and explicitly-sized array composite literals (whose
// contents don't affect the type of the enclosing declaration). This
// reduces the amount of work required to parse the top-level
// declarations.
//
// PurgeFuncBodies does not preserve newlines or position information.
// Also, if the input is invalid, parsing the output of
// PurgeFuncBodies may result in a different tree due to its effects
// on parser error recovery.
func PurgeFuncBodies(src []byte) []byte {
	// Destroy the content of any {...}-bracketed regions that are
	// not immediately preceded by a "struct" or "interface" token,
	// and that are not the body of a length-elided array literal.
	// That includes function bodies, switch/select bodies, and most
	// composite literals; this will lead to non-void functions that
	// don't have return statements, which of course is a type error,
	// but that's ok.

	var out bytes.Buffer
	file := token.NewFileSet().AddFile("", -1, len(src))
	var sc scanner.Scanner
	sc.Init(file, src, nil, 0)
	var prev token.Token
	var cursor int         // last consumed src offset
	var braces []token.Pos // stack of unclosed braces, or -1 for a region we preserve
	var ellipsis bool      // saw "[...]" not yet consumed by a literal-body "{"
	for {
		pos, tok, _ := sc.Scan()
		if tok == token.EOF {
			break
		}
		switch tok {
		case token.COMMENT:
			// TODO(adonovan): opt: skip, to save an estimated 20% of time.

		case token.SEMICOLON:
			ellipsis = false

		case token.RBRACK:
			// "...]" occurs only in the array-type prefix of a
			// composite literal; variadic "..." is followed by
			// a type or ")", never "]".
			if prev == token.ELLIPSIS {
				ellipsis = true
			}

		case token.LBRACE:
			if prev == token.STRUCT || prev == token.INTERFACE {
				pos = -1 // type body: preserve (don't consume ellipsis)
			} else if ellipsis {
				pos = -1 // [...]T literal body: preserve
				ellipsis = false
			}
			braces = append(braces, pos)

		case token.RBRACE:
			if last := len(braces) - 1; last >= 0 {
				top := braces[last]
				braces = braces[:last]
				if top < 0 {
					// preserve
				} else if len(braces) == 0 { // toplevel only
					// Delete {...} body.
					start := file.Offset(top)
					end := file.Offset(pos)
					out.Write(src[cursor : start+len("{")])
					cursor = end
				}
			}
		}
		prev = tok
	}
	out.Write(src[cursor:])
	return out.Bytes()
}
