// Copyright 2026 The Go Authors. All rights reserved.
// Use of this source code is governed by a BSD-style
// license that can be found in the LICENSE file.

package astutil

import (
	"go/ast"

	"golang.org/x/tools/go/ast/edge"
	"golang.org/x/tools/go/ast/inspector"
)

// UnparenCursor returns the cursor for an expression with any
// enclosing parentheses removed, similar to [ast.Unparen].
// It is often prudent to call this before switching on the
// type of cur.Node().
//
// See also [UnparenEnclosingCursor].
func UnparenCursor(cur inspector.Cursor) inspector.Cursor {
	for is[*ast.ParenExpr](cur) {
		cur, _ = cur.FirstChild()
	}
	return cur
}

// UnparenEnclosingCursor returns the first element of
// the [Cursor.Enclosing] sequence that is not itself enclosed
// in parens. It is often prudent to call this before switching on
// cur.ParentEdge().
//
// See also [UnparenCursor].
func UnparenEnclosingCursor(cur inspector.Cursor) inspector.Cursor {
	for cur.ParentEdgeKind() == edge.ParenExpr_X {
		cur = cur.Parent()
	}
	return cur
}
