// Copyright 2025 The Go Authors. All rights reserved.
// Use of this source code is governed by a BSD-style
// license that can be found in the LICENSE file.

package astutil

import (
	"fmt"
	"go/ast"
	"go/printer"
	"go/token"
	"strings"

	"golang.org/x/tools/go/ast/inspector"
	"decverif/xt/moreiters"
)

// NodeContains reports whether the Pos/End range of node n encloses
// the given range.
//
// It is inclusive of both end points, to allow hovering (etc) when
// the cursor is immediately after a node.
//
// Like [NodeRange], it treats the range of an [ast.File] as the
// file's complete extent.
//
// Precondition: n must not be nil.
func NodeContains(n ast.Node, rng Range) bool {
	return NodeRange(n).Contains(rng)
}

// NodeContainsPos reports whether the Pos/End range of node n encloses
// the given pos.
//
// Like [NodeRange], it treats the range of an [ast.File] as the
// file's complete extent.
func NodeContainsPos(n ast.Node, pos token.Pos) bool {
	return NodeRange(n).ContainsPos(pos)
}

// EnclosingFile returns the syntax tree for the file enclosing c.
//
// TODO(adonovan): promote this to a method of Cursor.
func EnclosingFile(c inspector.Cursor) *ast.File {
	c, _ = moreiters.First(c.Enclosing((*ast.File)(nil)))
	return c.Node().(*ast.File)
}

// DocComment returns the doc comment for a node, if any.
func DocComment(n ast.Node) *ast.CommentGroup {
	switch n := n.(type) {
	case *ast.FuncDecl:
		return n.Doc
	case *ast.GenDecl:
		return n.Doc
	case *ast.ValueSpec:
		return n.Doc
	case *ast.TypeSpec:
		return n.Doc
	case *ast.File:
		return n.Doc
	case *ast.ImportSpec:
		return n.Doc
	case *ast.Field:
		return n.Doc
	}
	return nil
}

// Format returns a string representation of the node n.
func Format(fset *token.FileSet, n ast.Node) string {
	var buf strings.Builder
	printer.Fprint(&buf, fset, n) // ignore errors
	return buf.String()
}

// -- Range --

// Range is a Pos interval.
// It implements [analysis.Range] and [ast.Node].
type Range struct{ Start, EndPos token.Pos }

// RangeOf constructs a Range.
//
// RangeOf exists to pacify the "unkeyed literal" (composites) vet
// check. It would be nice if there were a way for a type to add
// itself to the allowlist.
func RangeOf(start, end token.Pos) Range { return Range{start, end} }

// NodeRange returns the extent of node n as a Range.
//
// For unfortunate historical reasons, the Pos/End extent of an
// ast.File runs from the start of its package declaration---excluding
// copyright comments, build tags, and package documentation---to the
// end of its last declaration, excluding any trailing comments. So,
// as a special case, if n is an [ast.File], NodeContains uses
// n.FileStart <= pos && pos <= n.FileEnd to report whether the
// position lies anywhere within the file.
func NodeRange(n ast.Node) Range {
	if file, ok := n.(*ast.File); ok {
		return Range{file.FileStart, file.FileEnd} // entire file
	}
	return Range{n.Pos(), n.End()}
}

func (r Range) Pos() token.Pos { return r.Start }
func (r Range) End() token.Pos { return r.EndPos }

// ContainsPos reports whether the range (inclusive of both end points)
// includes the specified position.
func (r Range) ContainsPos(pos token.Pos) bool {
	return r.Contains(RangeOf(pos, pos))
}

// Contains reports whether the range (inclusive of both end points)
// includes the specified range.
func (r Range) Contains(rng Range) bool {
	return r.Start <= rng.Start && rng.EndPos <= r.EndPos
}

// IsValid reports whether the range is valid.
func (r Range) IsValid() bool { return r.Start.IsValid() && r.Start <= r.EndPos }

// --

// Select returns the syntax nodes identified by a user's text
// selection. It returns three nodes: the innermost node that wholly
// encloses the selection; and the first and last nodes that are
// wholly enclosed by the selection.
//
// For example, given this selection:
//
//	{ f(); g(); /* comment */ }
//	  ~~~~~~~~~~~
//
// Select returns the enclosing BlockStmt, the f() CallExpr, and the g() CallExpr.
//
// If the selection does not wholly enclose any nodes, Select returns an error
// and invalid start/end nodes, but it may return a valid enclosing node.
//
// Callers that require exactly one syntax tree (e.g. just f() or just
// g()) should check that the returned start and end nodes are
// identical.
//
// This function is intended to be called early in the handling of a
// user's request, since it is tolerant of sloppy selection including
// extraneous whitespace and comments. Use it in new code instead of
// PathEnclosingInterval. When the exact extent of a node is known,
// use [Cursor.FindByPos] instead.
//
// TODO(hxjiang): Consider refactoring the function signature. It is currently
// confusing that an error is returned even when a valid enclosing node is
// successfully found. Consider grouping all cursors into one struct.
func Select(curFile inspector.Cursor, start, end token.Pos) (_enclosing, _start, _end inspector.Cursor, _ error) {
	curEnclosing, ok := curFile.FindByPos(start, end)
	if !ok {
		return noCursor, noCursor, noCursor, fmt.Errorf("invalid selection")
	}

	// Find the first and last node wholly within the (start, end) range.
	// We'll narrow the effective selection to them, to exclude whitespace.
	// (This matches the functionality of PathEnclosingInterval.)
	var curStart, curEnd inspector.Cursor
	rng := RangeOf(start, end)
	for cur := range curEnclosing.Preorder() {
		if rng.Contains(NodeRange(cur.Node())) {
			// The start node has the least Pos.
			if !curStart.Valid() {
				curStart = cur
			}
			// The end node has the greatest End.
			// End positions do not change monotonically,
			// so we must compute the max.
			if !curEnd.Valid() ||
				cur.Node().End() > curEnd.Node().End() {
				curEnd = cur
			}
		}
	}
	if !curStart.Valid() {
		// The selection is valid (inside curEnclosing) but contains no
		// complete nodes. This happens for point selections (start == end),
		// or selections covering only only spaces, comments, and punctuation
		// tokens.
		// Return the enclosing node so the caller can still use the context.
		return curEnclosing, noCursor, noCursor, fmt.Errorf("invalid selection")
	}
	return curEnclosing, curStart, curEnd, nil
}

var noCursor inspector.Cursor

// MaybeParenthesize returns new, possibly wrapped in parens if needed
// to preserve operator precedence when it replaces old, whose parent
// is parentNode.
//
// (This would be more naturally written in terms of Cursor, but one of
// the callers--the inliner--does not have cursors handy.)
func MaybeParenthesize(parentNode ast.Node, old, new ast.Expr) ast.Expr {
	if needsParens(parentNode, old, new) {
		new = &ast.ParenExpr{X: new}
	}
	return new
}

func needsParens(parentNode ast.Node, old, new ast.Expr) bool {
	// An expression beneath a non-expression
	// has no precedence ambiguity.
	parent, ok := parentNode.(ast.Expr)
	if !ok {
		return false
	}

	precedence := func(n ast.Node) int {
		switch n := n.(type) {
		case *ast.UnaryExpr, *ast.StarExpr:
			return token.UnaryPrec
		case *ast.BinaryExpr:
			return n.Op.Precedence()
		}
		return -1
	}

	// Parens are not required if the new node
	// is not unary or binary.
	newprec := precedence(new)
	if newprec < 0 {
		return false
	}

	// Parens are required if parent and child are both
	// unary or binary and the parent has higher precedence.
	if precedence(parent) > newprec {
		return true
	}

	// Was the old node the operand of a postfix operator?
	//  f().sel
	//  f()[i:j]
	//  f()[i]
	//  f().(T)
	//  f()(x)
	switch parent := parent.(type) {
	case *ast.SelectorExpr:
		return parent.X == old
	case *ast.IndexExpr:
		return parent.X == old
	case *ast.SliceExpr:
		return parent.X == old
	case *ast.TypeAssertExpr:
		return parent.X == old
	case *ast.CallExpr:
		return parent.Fun == old
	}
	return false
}

func is[T any](n any) bool {
	_, ok := n.(T)
	return ok
}
