// Copyright 2025 The Go Authors. All rights reserved.
// Use of this source code is governed by a BSD-style
// license that can be found in the LICENSE file.

package astutil

import (
	"go/ast"
	"go/token"
	"iter"
	"sort"
	"strings"
)

// Deprecation returns the paragraph of the doc comment that starts with the
// conventional "Deprecation: " marker, or the end of a single-line comment
// with the deprecation marker, as defined by https://go.dev/wiki/Deprecated.
// Returns "" if the documented symbol is not deprecated.
//
// Deprecation(nil) returns the empty string.
func Deprecation(doc *ast.CommentGroup) string {
	// doc.Text() is newline-terminated. For legacy reasons, this function will
	// return as newline-terminated if is the last segment of the CommentGroup
	// but not if it is a paragraph in the middle of the CommentGroup.
	docText := doc.Text()
	for p := range strings.SplitSeq(docText, "\n\n") {
		// There is still some ambiguity for deprecation message. This function
		// only returns the paragraph introduced by "Deprecated: ". More
		// information related to the deprecation may follow in additional
		// paragraphs, but the deprecation message should be able to stand on
		// its own. See golang/go#38743.
		if strings.HasPrefix(p, "Deprecated: ") {
			return p
		}
	}

	// We also want to support deprecation markers in line comments. Not all
	// call sites know whether they have a line comment or the type of AST node
	// the comment is associated with; so to best match line deprecations,
	// the CommentGroup must meet these criteria:
	//   * The doc.Text() is a single line.
	//   * The comment uses the "// ..." format.
	if doc == nil || len(doc.List) != 1 || !strings.HasPrefix(doc.List[0].Text, "//") {
		return ""
	}
	if i := strings.Index(docText, "Deprecated: "); i != -1 {
		return docText[i:]
	}
	return ""
}

// -- plundered from the future (CL 605517, issue #68021) --

// TODO(adonovan): replace with ast.Directive in go1.26 (#68021).
// Beware of our local mods to handle analysistest
// "want" comments on the same line.

// A directive is a comment line with special meaning to the Go
// toolchain or another tool. It has the form:
//
//	//tool:name args
//
// The "tool:" portion is missing for the three directives named
// line, extern, and export.
//
// See https://go.dev/doc/comment#Syntax for details of Go comment
// syntax and https://pkg.go.dev/cmd/compile#hdr-Compiler_Directives
// for details of directives used by the Go compiler.
type Directive struct {
	Pos  token.Pos // of preceding "//"
	Tool string
	Name string
	Args string // may contain internal spaces
}

// isDirective reports whether c is a comment directive.
// This code is also in go/printer.
func isDirective(c string) bool {
	// "//line " is a line directive.
	// "//extern " is for gccgo.
	// "//export " is for cgo.
	// (The // has been removed.)
	if strings.HasPrefix(c, "line ") || strings.HasPrefix(c, "extern ") || strings.HasPrefix(c, "export ") {
		return true
	}

	// "//[a-z0-9]+:[a-z0-9]"
	// (The // has been removed.)
	colon := strings.Index(c, ":")
	if colon <= 0 || colon+1 >= len(c) {
		return false
	}
	for i := 0; i <= colon+1; i++ {
		if i == colon {
			continue
		}
		b := c[i]
		if !('a' <= b && b <= 'z' || '0' <= b && b <= '9') {
			return false
		}
	}
	return true
}

// Directives returns the directives within the comment.
func Directives(g *ast.CommentGroup) (res []*Directive) {
	if g != nil {
		// Avoid (*ast.CommentGroup).Text() as it swallows directives.
		for _, c := range g.List {
			if len(c.Text) > 2 &&
				c.Text[1] == '/' &&
				c.Text[2] != ' ' &&
				isDirective(c.Text[2:]) {

				tool, nameargs, ok := strings.Cut(c.Text[2:], ":")
				if !ok {
					// Must be one of {line,extern,export}.
					tool, nameargs = "", tool
				}
				name, args, _ := strings.Cut(nameargs, " ") // tab??
				// Permit an additional line comment after the args, chiefly to support
				// [golang.org/x/tools/go/analysis/analysistest].
				args, _, _ = strings.Cut(args, "//")
				res = append(res, &Directive{
					Pos:  c.Slash,
					Tool: tool,
					Name: name,
					Args: strings.TrimSpace(args),
				})
			}
		}
	}
	return
}

// Comments returns an iterator over the comments overlapping the specified interval.
// Comments are sorted by position in the file, so we can use binary search.
func Comments(file *ast.File, start, end token.Pos) iter.Seq[*ast.Comment] {
	return func(yield func(*ast.Comment) bool) {
		// Find the first comment group that overlaps the range.
		i := sort.Search(len(file.Comments), func(i int) bool {
			return file.Comments[i].End() >= start
		})
		for _, cg := range file.Comments[i:] {
			if cg.Pos() > end {
				return
			}
			// Find the first comment in the group that overlaps the range.
			j := sort.Search(len(cg.List), func(j int) bool {
				return cg.List[j].End() >= start
			})
			for _, co := range cg.List[j:] {
				if co.Pos() > end {
					return
				}
				if !yield(co) {
					return
				}
			}
		}
	}
}
