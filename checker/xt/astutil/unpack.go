// Copyright 2023 The Go Authors. All rights reserved.
// Use of this source code is governed by a BSD-style
// license that can be found in the LICENSE file.

package astutil

import (
	"go/ast"

	"decverif/xt/typeparams"
)

// UnpackRecv unpacks a receiver type expression, reporting whether it is a
// pointer receiver, along with the type name identifier and any receiver type
// parameter identifiers.
//
// Copied (with modifications) from go/types.
func UnpackRecv(rtyp ast.Expr) (ptr bool, rname *ast.Ident, tparams []*ast.Ident) {
L: // unpack receiver type
	// This accepts invalid receivers such as ***T and does not
	// work for other invalid receivers, but we don't care. The
	// validity of receiver expressions is checked elsewhere.
	for {
		switch t := rtyp.(type) {
		case *ast.ParenExpr:
			rtyp = t.X
		case *ast.StarExpr:
			ptr = true
			rtyp = t.X
		default:
			break L
		}
	}

	// unpack type parameters, if any
	switch rtyp.(type) {
	case *ast.IndexExpr, *ast.IndexListExpr:
		var indices []ast.Expr
		rtyp, _, indices, _ = typeparams.UnpackIndexExpr(rtyp)
		for _, arg := range indices {
			var par *ast.Ident
			switch arg := arg.(type) {
			case *ast.Ident:
				par = arg
			default:
				// ignore errors
			}
			if par == nil {
				par = &ast.Ident{NamePos: arg.Pos(), Name: "_"}
			}
			tparams = append(tparams, par)
		}
	}

	// unpack receiver name
	if name, _ := rtyp.(*ast.Ident); name != nil {
		rname = name
	}

	return
}
