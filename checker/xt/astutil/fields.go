// Copyright 2024 The Go Authors. All rights reserved.
// Use of this source code is governed by a BSD-style
// license that can be found in the LICENSE file.

package astutil

import (
	"go/ast"
	"iter"
)

// FlatFields 'flattens' an ast.FieldList, returning an iterator over each
// (name, field) combination in the list. For unnamed fields, the identifier is
// nil.
func FlatFields(list *ast.FieldList) iter.Seq2[*ast.Ident, *ast.Field] {
	return func(yield func(*ast.Ident, *ast.Field) bool) {
		if list == nil {
			return
		}

		for _, field := range list.List {
			if len(field.Names) == 0 {
				if !yield(nil, field) {
					return
				}
			} else {
				for _, name := range field.Names {
					if !yield(name, field) {
						return
					}
				}
			}
		}
	}
}
