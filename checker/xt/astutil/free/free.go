// Copyright 2025 The Go Authors. All rights reserved.
// Use of this source code is governed by a BSD-style
// license that can be found in the LICENSE file.

// Package free defines utilities for computing the free variables of
// a syntax tree without type information. This is inherently
// heuristic because of the T{f: x} ambiguity, in which f may or may
// not be a lexical reference depending on whether T is a struct type.
package free

import (
	"go/ast"
	"go/token"
)

// Copied, with considerable changes, from go/parser/resolver.go
// at af53bd2c03.

// Names computes an approximation to the set of free names of the AST
// at node n based solely on syntax.
//
// In the absence of composite literals, the set of free names is exact. Composite
// literals introduce an ambiguity that can only be resolved with type information:
// whether F is a field name or a value in `T{F: ...}`.
// If includeComplitIdents is true, this function conservatively assumes
// T is not a struct type, so freeishNames overapproximates: the resulting
// set may contain spurious entries that are not free lexical references
// but are references to struct fields.
// If includeComplitIdents is false, this function assumes that T *is*
// a struct type, so freeishNames underapproximates: the resulting set
// may omit names that are free lexical references.
//
// TODO(adonovan): includeComplitIdents is a crude hammer: the caller
// may have partial or heuristic information about whether a given T
// is struct type. Replace includeComplitIdents with a hook to query
// the caller.
//
// The code is based on go/parser.resolveFile, but heavily simplified. Crucial
// differences are:
//   - Instead of resolving names to their objects, this function merely records
//     whether they are free.
//   - Labels are ignored: they do not refer to values.
//   - This is never called on ImportSpecs, so the function panics if it sees one.
func Names(n ast.Node, includeComplitIdents bool) map[string]bool {
	v := &freeVisitor{
		free:                 make(map[string]bool),
		includeComplitIdents: includeComplitIdents,
	}
	// Begin with a scope, even though n might not be a form that establishes a scope.
	// For example, n might be:
	//    x := ...
	// Then we need to add the first x to some scope.
	v.openScope()
	ast.Walk(v, n)
	v.closeScope()
	if v.scope != nil {
		panic("unbalanced scopes")
	}
	return v.free
}

// A freeVisitor holds state for a free-name analysis.
type freeVisitor struct {
	scope                *scope          // the current innermost scope
	free                 map[string]bool // free names seen so far
	includeComplitIdents bool            // include identifier key in composite literals
}

// scope contains all the names defined in a lexical scope.
// It is like ast.Scope, but without deprecation warnings.
type scope struct {
	names map[string]bool
	outer *scope
}

func (s *scope) defined(name string) bool {
	for ; s != nil; s = s.outer {
		if s.names[name] {
			return true
		}
	}
	return false
}

func (v *freeVisitor) Visit(n ast.Node) ast.Visitor {
	switch n := n.(type) {

	// Expressions.
	case *ast.Ident:
		v.use(n)

	case *ast.FuncLit:
		v.openScope()
		defer v.closeScope()
		v.walkFuncType(nil, n.Type)
		v.walkBody(n.Body)

	case *ast.SelectorExpr:
		v.walk(n.X)
		// Skip n.Sel: it cannot be free.

	case *ast.StructType:
		v.openScope()
		defer v.closeScope()
		v.walkFieldList(n.Fields)

	case *ast.FuncType:
		v.openScope()
		defer v.closeScope()
		v.walkFuncType(nil, n)

	case *ast.CompositeLit:
		v.walk(n.Type)
		for _, e := range n.Elts {
			if kv, _ := e.(*ast.KeyValueExpr); kv != nil {
				if ident, _ := kv.Key.(*ast.Ident); ident != nil {
					// It is not possible from syntax alone to know whether
					// an identifier used as a composite literal key is
					// a struct field (if n.Type is a struct) or a value
					// (if n.Type is a map, slice or array).
					if v.includeComplitIdents {
						// Over-approximate by treating both cases as potentially
						// free names.
						v.use(ident)
					} else {
						// Under-approximate by ignoring potentially free names.
					}
				} else {
					v.walk(kv.Key)
				}
				v.walk(kv.Value)
			} else {
				v.walk(e)
			}
		}

	case *ast.InterfaceType:
		v.openScope()
		defer v.closeScope()
		v.walkFieldList(n.Methods)

	// Statements
	case *ast.AssignStmt:
		walkSlice(v, n.Rhs)
		if n.Tok == token.DEFINE {
			v.shortVarDecl(n.Lhs)
		} else {
			walkSlice(v, n.Lhs)
		}

	case *ast.LabeledStmt:
		// Ignore labels.
		v.walk(n.Stmt)

	case *ast.BranchStmt:
		// Ignore labels.

	case *ast.BlockStmt:
		v.openScope()
		defer v.closeScope()
		walkSlice(v, n.List)

	case *ast.IfStmt:
		v.openScope()
		defer v.closeScope()
		v.walk(n.Init)
		v.walk(n.Cond)
		v.walk(n.Body)
		v.walk(n.Else)

	case *ast.CaseClause:
		walkSlice(v, n.List)
		v.openScope()
		defer v.closeScope()
		walkSlice(v, n.Body)

	case *ast.SwitchStmt:
		v.openScope()
		defer v.closeScope()
		v.walk(n.Init)
		v.walk(n.Tag)
		v.walkBody(n.Body)

	case *ast.TypeSwitchStmt:
		v.openScope()
		defer v.closeScope()
		if n.Init != nil {
			v.walk(n.Init)
		}
		v.walk(n.Assign)
		// We can use walkBody here because we don't track label scopes.
		v.walkBody(n.Body)

	case *ast.CommClause:
		v.openScope()
		defer v.closeScope()
		v.walk(n.Comm)
		walkSlice(v, n.Body)

	case *ast.SelectStmt:
		v.walkBody(n.Body)

	case *ast.ForStmt:
		v.openScope()
		defer v.closeScope()
		v.walk(n.Init)
		v.walk(n.Cond)
		v.walk(n.Post)
		v.walk(n.Body)

	case *ast.RangeStmt:
		v.openScope()
		defer v.closeScope()
		v.walk(n.X)
		var lhs []ast.Expr
		if n.Key != nil {
			lhs = append(lhs, n.Key)
		}
		if n.Value != nil {
			lhs = append(lhs, n.Value)
		}
		if len(lhs) > 0 {
			if n.Tok == token.DEFINE {
				v.shortVarDecl(lhs)
			} else {
				walkSlice(v, lhs)
			}
		}
		v.walk(n.Body)

	// Declarations
	case *ast.GenDecl:
		switch n.Tok {
		case token.CONST, token.VAR:
			for _, spec := range n.Specs {
				spec := spec.(*ast.ValueSpec)
				walkSlice(v, spec.Values)
				v.walk(spec.Type)
				v.declare(spec.Names...)
			}

		case token.TYPE:
			for _, spec := range n.Specs {
				spec := spec.(*ast.TypeSpec)
				// Go spec: The scope of a type identifier declared inside a
				// function begins at the identifier in the TypeSpec and ends
				// at the end of the innermost containing block.
				v.declare(spec.Name)
				if spec.TypeParams != nil {
					v.openScope()
					defer v.closeScope()
					v.walkTypeParams(spec.TypeParams)
				}
				v.walk(spec.Type)
			}

		case token.IMPORT:
			panic("encountered import declaration in free analysis")
		}

	case *ast.FuncDecl:
		if n.Recv == nil && n.Name.Name != "init" { // package-level function
			v.declare(n.Name)
		}
		v.openScope()
		defer v.closeScope()
		v.walkTypeParams(n.Type.TypeParams)
		v.walkFuncType(n.Recv, n.Type)
		v.walkBody(n.Body)

	default:
		return v
	}

	return nil
}

func (v *freeVisitor) openScope() {
	v.scope = &scope{map[string]bool{}, v.scope}
}

func (v *freeVisitor) closeScope() {
	v.scope = v.scope.outer
}

func (v *freeVisitor) walk(n ast.Node) {
	if n != nil {
		ast.Walk(v, n)
	}
}

func (v *freeVisitor) walkFuncType(recv *ast.FieldList, typ *ast.FuncType) {
	// First use field types...
	v.walkRecvFieldType(recv)
	v.walkFieldTypes(typ.Params)
	v.walkFieldTypes(typ.Results)

	// ...then declare field names.
	v.declareFieldNames(recv)
	v.declareFieldNames(typ.Params)
	v.declareFieldNames(typ.Results)
}

// A receiver field is not like a param or result field because
// "func (recv R[T]) method()" uses R but declares T.
func (v *freeVisitor) walkRecvFieldType(list *ast.FieldList) {
	if list == nil {
		return
	}
	for _, f := range list.List { // valid => len=1
		typ := f.Type
		if ptr, ok := typ.(*ast.StarExpr); ok {
			typ = ptr.X
		}

		// Analyze receiver type as Base[Index, ...]
		var (
			base    ast.Expr
			indices []ast.Expr
		)
		switch typ := typ.(type) {
		case *ast.IndexExpr: // B[T]
			base, indices = typ.X, []ast.Expr{typ.Index}
		case *ast.IndexListExpr: // B[K, V]
			base, indices = typ.X, typ.Indices
		default: // B
			base = typ
		}
		for _, expr := range indices {
			if id, ok := expr.(*ast.Ident); ok {
				v.declare(id)
			}
		}
		v.walk(base)
	}
}

// walkTypeParams is like walkFieldList, but declares type parameters eagerly so
// that they may be resolved in the constraint expressions held in the field
// Type.
func (v *freeVisitor) walkTypeParams(list *ast.FieldList) {
	v.declareFieldNames(list)
	v.walkFieldTypes(list) // constraints
}

func (v *freeVisitor) walkBody(body *ast.BlockStmt) {
	if body == nil {
		return
	}
	walkSlice(v, body.List)
}

func (v *freeVisitor) walkFieldList(list *ast.FieldList) {
	if list == nil {
		return
	}
	v.walkFieldTypes(list)    // .Type may contain references
	v.declareFieldNames(list) // .Names declares names
}

func (v *freeVisitor) shortVarDecl(lhs []ast.Expr) {
	// Go spec: A short variable declaration may redeclare variables provided
	// they were originally declared in the same block with the same type, and
	// at least one of the non-blank variables is new.
	//
	// However, it doesn't matter to free analysis whether a variable is declared
	// fresh or redeclared.
	for _, x := range lhs {
		// In a well-formed program each expr must be an identifier,
		// but be forgiving.
		if id, ok := x.(*ast.Ident); ok {
			v.declare(id)
		}
	}
}

func walkSlice[S ~[]E, E ast.Node](r *freeVisitor, list S) {
	for _, e := range list {
		r.walk(e)
	}
}

// walkFieldTypes resolves the types of the walkFieldTypes in list.
// The companion method declareFieldList declares the names of the walkFieldTypes.
func (v *freeVisitor) walkFieldTypes(list *ast.FieldList) {
	if list != nil {
		for _, f := range list.List {
			v.walk(f.Type)
		}
	}
}

// declareFieldNames declares the names of the fields in list.
// (Names in a FieldList always establish new bindings.)
// The companion method resolveFieldList resolves the types of the fields.
func (v *freeVisitor) declareFieldNames(list *ast.FieldList) {
	if list != nil {
		for _, f := range list.List {
			v.declare(f.Names...)
		}
	}
}

// use marks ident as free if it is not in scope.
func (v *freeVisitor) use(ident *ast.Ident) {
	if s := ident.Name; s != "_" && !v.scope.defined(s) {
		v.free[s] = true
	}
}

// declare adds each non-blank ident to the current scope.
func (v *freeVisitor) declare(idents ...*ast.Ident) {
	for _, id := range idents {
		if id.Name != "_" {
			v.scope.names[id.Name] = true
		}
	}
}
