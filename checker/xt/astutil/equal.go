// Copyright 2023 The Go Authors. All rights reserved.
// Use of this source code is governed by a BSD-style
// license that can be found in the LICENSE file.

package astutil

import (
	"go/ast"
	"go/token"
	"reflect"
)

// Equal reports whether two nodes are structurally equal,
// ignoring fields of type [token.Pos], [ast.Object],
// and [ast.Scope], and comments.
//
// The operands x and y may be nil.
// A nil slice is not equal to an empty slice.
//
// The provided function determines whether two identifiers
// should be considered identical.
func Equal(x, y ast.Node, identical func(x, y *ast.Ident) bool) bool {
	if x == nil || y == nil {
		return x == y
	}
	return equal(reflect.ValueOf(x), reflect.ValueOf(y), identical)
}

// EqualSyntax reports whether x and y are equal.
// Identifiers are considered equal if they are spelled the same.
// Comments are ignored.
func EqualSyntax(x, y ast.Expr) bool {
	sameName := func(x, y *ast.Ident) bool { return x.Name == y.Name }
	return Equal(x, y, sameName)
}

func equal(x, y reflect.Value, identical func(x, y *ast.Ident) bool) bool {
	// Ensure types are the same
	if x.Type() != y.Type() {
		return false
	}
	switch x.Kind() {
	case reflect.Pointer:
		if x.IsNil() || y.IsNil() {
			return x.IsNil() == y.IsNil()
		}
		switch t := x.Interface().(type) {
		// Skip fields of types potentially involved in cycles.
		case *ast.Object, *ast.Scope, *ast.CommentGroup:
			return true
		case *ast.Ident:
			return identical(t, y.Interface().(*ast.Ident))
		default:
			return equal(x.Elem(), y.Elem(), identical)
		}

	case reflect.Interface:
		if x.IsNil() || y.IsNil() {
			return x.IsNil() == y.IsNil()
		}
		return equal(x.Elem(), y.Elem(), identical)

	case reflect.Struct:
		for i := range x.NumField() {
			xf := x.Field(i)
			yf := y.Field(i)
			// Skip position fields.
			if xpos, ok := xf.Interface().(token.Pos); ok {
				ypos := yf.Interface().(token.Pos)
				// Numeric value of a Pos is not significant but its "zeroness" is,
				// because it is often significant, e.g. CallExpr.Variadic(Ellipsis), ChanType.Arrow.
				if xpos.IsValid() != ypos.IsValid() {
					return false
				}
			} else if !equal(xf, yf, identical) {
				return false
			}
		}
		return true

	case reflect.Slice:
		if x.IsNil() || y.IsNil() {
			return x.IsNil() == y.IsNil()
		}
		if x.Len() != y.Len() {
			return false
		}
		for i := range x.Len() {
			if !equal(x.Index(i), y.Index(i), identical) {
				return false
			}
		}
		return true

	case reflect.String:
		return x.String() == y.String()

	case reflect.Bool:
		return x.Bool() == y.Bool()

	case reflect.Int:
		return x.Int() == y.Int()

	default:
		panic(x)
	}
}
