// Copyright 2021 The Go Authors. All rights reserved.
// Use of this source code is governed by a BSD-style
// license that can be found in the LICENSE file.

package typeparams

import (
	"errors"
	"fmt"
	"go/types"
	"os"
	"strings"
)

//go:generate go run copytermlist.go

const debug = false

var ErrEmptyTypeSet = errors.New("empty type set")

// StructuralTerms returns a slice of terms representing the normalized
// structural type restrictions of a type parameter, if any.
//
// Structural type restrictions of a type parameter are created via
// non-interface types embedded in its constraint interface (directly, or via a
// chain of interface embeddings). For example, in the declaration
//
//	type T[P interface{~int; m()}] int
//
// the structural restriction of the type parameter P is ~int.
//
// With interface embedding and unions, the specification of structural type
// restrictions may be arbitrarily complex. For example, consider the
// following:
//
//	type A interface{ ~string|~[]byte }
//
//	type B interface{ int|string }
//
//	type C interface { ~string|~int }
//
//	type T[P interface{ A|B; C }] int
//
// In this example, the structural type restriction of P is ~string|int: A|B
// expands to ~string|~[]byte|int|string, which reduces to ~string|~[]byte|int,
// which when intersected with C (~string|~int) yields ~string|int.
//
// StructuralTerms computes these expansions and reductions, producing a
// "normalized" form of the embeddings. A structural restriction is normalized
// if it is a single union containing no interface terms, and is minimal in the
// sense that removing any term changes the set of types satisfying the
// constraint. It is left as a proof for the reader that, modulo sorting, there
// is exactly one such normalized form.
//
// Because the minimal representation always takes this form, StructuralTerms
// returns a slice of tilde terms corresponding to the terms of the union in
// the normalized structural restriction. An error is returned if the
// constraint interface is invalid, exceeds complexity bounds, or has an empty
// type set. In the latter case, StructuralTerms returns ErrEmptyTypeSet.
//
// StructuralTerms makes no guarantees about the order of terms, except that it
// is deterministic.
func StructuralTerms(tparam *types.TypeParam) ([]*types.Term, error) {
	constraint := tparam.Constraint()
	if constraint == nil {
		return nil, fmt.Errorf("%s has nil constraint", tparam)
	}
	iface, _ := constraint.Underlying().(*types.Interface)
	if iface == nil {
		return nil, fmt.Errorf("constraint is %T, not *types.Interface", constraint.Underlying())
	}
	return InterfaceTermSet(iface)
}

// InterfaceTermSet computes the normalized terms for a constraint interface,
// returning an error if the term set cannot be computed or is empty. In the
// latter case, the error will be ErrEmptyTypeSet.
//
// See the documentation of StructuralTerms for more information on
// normalization.
func InterfaceTermSet(iface *types.Interface) ([]*types.Term, error) {
	return computeTermSet(iface)
}

// UnionTermSet computes the normalized terms for a union, returning an error
// if the term set cannot be computed or is empty. In the latter case, the
// error will be ErrEmptyTypeSet.
//
// See the documentation of StructuralTerms for more information on
// normalization.
func UnionTermSet(union *types.Union) ([]*types.Term, error) {
	return computeTermSet(union)
}

func computeTermSet(typ types.Type) ([]*types.Term, error) {
	tset, err := computeTermSetInternal(typ, make(map[types.Type]*termSet), 0)
	if err != nil {
		return nil, err
	}
	if tset.terms.isEmpty() {
		return nil, ErrEmptyTypeSet
	}
	if tset.terms.isAll() {
		return nil, nil
	}
	var terms []*types.Term
	for _, term := range tset.terms {
		terms = append(terms, types.NewTerm(term.tilde, term.typ))
	}
	return terms, nil
}

// A termSet holds the normalized set of terms for a given type.
//
// The name termSet is intentionally distinct from 'type set': a type set is
// all types that implement a type (and includes method restrictions), whereas
// a term set just represents the structural restrictions on a type.
type termSet struct {
	complete bool
	terms    termlist
}

func indentf(depth int, format string, args ...any) {
	fmt.Fprintf(os.Stderr, strings.Repeat(".", depth)+format+"\n", args...)
}

func computeTermSetInternal(t types.Type, seen map[types.Type]*termSet, depth int) (res *termSet, err error) {
	if t == nil {
		panic("nil type")
	}

	if debug {
		indentf(depth, "%s", t.String())
		defer func() {
			if err != nil {
				indentf(depth, "=> %s", err)
			} else {
				indentf(depth, "=> %s", res.terms.String())
			}
		}()
	}

	const maxTermCount = 100
	if tset, ok := seen[t]; ok {
		if !tset.complete {
			return nil, fmt.Errorf("cycle detected in the declaration of %s", t)
		}
		return tset, nil
	}

	// Mark the current type as seen to avoid infinite recursion.
	tset := new(termSet)
	defer func() {
		tset.complete = true
	}()
	seen[t] = tset

	switch u := t.Underlying().(type) {
	case *types.Interface:
		// The term set of an interface is the intersection of the term sets of its
		// embedded types.
		tset.terms = allTermlist
		for embedded := range u.EmbeddedTypes() {
			if _, ok := embedded.Underlying().(*types.TypeParam); ok {
				return nil, fmt.Errorf("invalid embedded type %T", embedded)
			}
			tset2, err := computeTermSetInternal(embedded, seen, depth+1)
			if err != nil {
				return nil, err
			}
			tset.terms = tset.terms.intersect(tset2.terms)
		}
	case *types.Union:
		// The term set of a union is the union of term sets of its terms.
		tset.terms = nil
		for t := range u.Terms() {
			var terms termlist
			switch t.Type().Underlying().(type) {
			case *types.Interface:
				tset2, err := computeTermSetInternal(t.Type(), seen, depth+1)
				if err != nil {
					return nil, err
				}
				terms = tset2.terms
			case *types.TypeParam, *types.Union:
				// A stand-alone type parameter or union is not permitted as union
				// term.
				return nil, fmt.Errorf("invalid union term %T", t)
			default:
				if t.Type() == types.Typ[types.Invalid] {
					continue
				}
				terms = termlist{{t.Tilde(), t.Type()}}
			}
			tset.terms = tset.terms.union(terms)
			if len(tset.terms) > maxTermCount {
				return nil, fmt.Errorf("exceeded max term count %d", maxTermCount)
			}
		}
	case *types.TypeParam:
		panic("unreachable")
	default:
		// For all other types, the term set is just a single non-tilde term
		// holding the type itself.
		if u != types.Typ[types.Invalid] {
			tset.terms = termlist{{false, t}}
		}
	}
	return tset, nil
}

// under is a facade for the go/types internal function of the same name. It is
// used by typeterm.go.
func under(t types.Type) types.Type {
	return t.Underlying()
}
