// Copyright 2024 The Go Authors. All rights reserved.
// Use of this source code is governed by a BSD-style
// license that can be found in the LICENSE file.

package typeparams

import (
	"go/types"
)

// Free is a memoization of the set of free type parameters within a
// type. It makes a sequence of calls to [Free.Has] for overlapping
// types more efficient. The zero value is ready for use.
//
// NOTE: Adapted from go/types/infer.go. If it is later exported, factor.
type Free struct {
	seen map[types.Type]bool
}

// Has reports whether the specified type has a free type parameter.
func (w *Free) Has(typ types.Type) (res bool) {
	// detect cycles
	if x, ok := w.seen[typ]; ok {
		return x
	}
	if w.seen == nil {
		w.seen = make(map[types.Type]bool)
	}
	w.seen[typ] = false
	defer func() {
		w.seen[typ] = res
	}()

	switch t := typ.(type) {
	case nil, *types.Basic: // TODO(gri) should nil be handled here?
		break

	case *types.Alias:
		if t.TypeParams().Len() > t.TypeArgs().Len() {
			return true // This is an uninstantiated Alias.
		}
		// The expansion of an alias can have free type parameters,
		// whether or not the alias itself has type parameters:
		//
		//   func _[K comparable]() {
		//     type Set      = map[K]bool // free(Set)      = {K}
		//     type MapTo[V] = map[K]V    // free(Map[foo]) = {V}
		//   }
		//
		// So, we must Unalias.
		return w.Has(types.Unalias(t))

	case *types.Array:
		return w.Has(t.Elem())

	case *types.Slice:
		return w.Has(t.Elem())

	case *types.Struct:
		for i, n := 0, t.NumFields(); i < n; i++ {
			if w.Has(t.Field(i).Type()) {
				return true
			}
		}

	case *types.Pointer:
		return w.Has(t.Elem())

	case *types.Tuple:
		n := t.Len()
		for i := range n {
			if w.Has(t.At(i).Type()) {
				return true
			}
		}

	case *types.Signature:
		// t.tparams may not be nil if we are looking at a signature
		// of a generic function type (or an interface method) that is
		// part of the type we're testing. We don't care about these type
		// parameters.
		// Similarly, the receiver of a method may declare (rather than
		// use) type parameters, we don't care about those either.
		// Thus, we only need to look at the input and result parameters.
		return w.Has(t.Params()) || w.Has(t.Results())

	case *types.Interface:
		for i, n := 0, t.NumMethods(); i < n; i++ {
			if w.Has(t.Method(i).Type()) {
				return true
			}
		}
		terms, err := InterfaceTermSet(t)
		if err != nil {
			return false // ill typed
		}
		for _, term := range terms {
			if w.Has(term.Type()) {
				return true
			}
		}

	case *types.Map:
		return w.Has(t.Key()) || w.Has(t.Elem())

	case *types.Chan:
		return w.Has(t.Elem())

	case *types.Named:
		args := t.TypeArgs()
		if params := t.TypeParams(); params.Len() > args.Len() {
			return true // this is an uninstantiated named type.
		}
		for i, n := 0, args.Len(); i < n; i++ {
			if w.Has(args.At(i)) {
				return true
			}
		}
		return w.Has(t.Underlying()) // recurse for types local to parameterized functions

	case *types.TypeParam:
		return true

	default:
		panic(t) // unreachable
	}

	return false
}
