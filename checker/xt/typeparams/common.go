// Copyright 2021 The Go Authors. All rights reserved.
// Use of this source code is governed by a BSD-style
// license that can be found in the LICENSE file.

// Package typeparams contains common utilities for writing tools that
// interact with generic Go code, as introduced with Go 1.18. It
// supplements the standard library APIs. Notably, the StructuralTerms
// API computes a minimal representation of the structural
// restrictions on a type parameter.
//
// An external version of these APIs is available in the
// golang.org/x/exp/typeparams module.
package typeparams

import (
	"go/ast"
	"go/token"
	"go/types"
)

// UnpackIndexExpr extracts data from AST nodes that represent index
// expressions.
//
// For an ast.IndexExpr, the resulting indices slice will contain exactly one
// index expression. For an ast.IndexListExpr (go1.18+), it may have a variable
// number of index expressions.
//
// For nodes that don't represent index expressions, the first return value of
// UnpackIndexExpr will be nil.
func UnpackIndexExpr(n ast.Node) (x ast.Expr, lbrack token.Pos, indices []ast.Expr, rbrack token.Pos) {
	switch e := n.(type) {
	case *ast.IndexExpr:
		return e.X, e.Lbrack, []ast.Expr{e.Index}, e.Rbrack
	case *ast.IndexListExpr:
		return e.X, e.Lbrack, e.Indices, e.Rbrack
	}
	return nil, token.NoPos, nil, token.NoPos
}

// PackIndexExpr returns an *ast.IndexExpr or *ast.IndexListExpr, depending on
// the cardinality of indices. Calling PackIndexExpr with len(indices) == 0
// will panic.
func PackIndexExpr(x ast.Expr, lbrack token.Pos, indices []ast.Expr, rbrack token.Pos) ast.Expr {
	switch len(indices) {
	case 0:
		panic("empty indices")
	case 1:
		return &ast.IndexExpr{
			X:      x,
			Lbrack: lbrack,
			Index:  indices[0],
			Rbrack: rbrack,
		}
	default:
		return &ast.IndexListExpr{
			X:       x,
			Lbrack:  lbrack,
			Indices: indices,
			Rbrack:  rbrack,
		}
	}
}

// IsTypeParam reports whether t is a type parameter (or an alias of one).
func IsTypeParam(t types.Type) bool {
	_, ok := types.Unalias(t).(*types.TypeParam)
	return ok
}
