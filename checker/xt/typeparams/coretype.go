// Copyright 2022 The Go Authors. All rights reserved.
// Use of this source code is governed by a BSD-style
// license that can be found in the LICENSE file.

package typeparams

import (
	"fmt"
	"go/types"
)

// CoreType returns the core type of T or nil if T does not have a core type.
//
// As of Go1.25, the notion of a core type has been removed from the language spec.
// See https://go.dev/blog/coretypes for more details.
// TODO(mkalil): We should eventually consider removing all uses of CoreType.
func CoreType(T types.Type) types.Type {
	U := T.Underlying()
	if _, ok := U.(*types.Interface); !ok {
		return U // for non-interface types,
	}

	terms, err := NormalTerms(U)
	if len(terms) == 0 || err != nil {
		// len(terms) -> empty type set of interface.
		// err != nil => U is invalid, exceeds complexity bounds, or has an empty type set.
		return nil // no core type.
	}

	U = terms[0].Type().Underlying()
	var identical int // i in [0,identical) => Identical(U, terms[i].Type().Underlying())
	for identical = 1; identical < len(terms); identical++ {
		if !types.Identical(U, terms[identical].Type().Underlying()) {
			break
		}
	}

	if identical == len(terms) {
		// From the deprecated core types spec:
		// "There is a single type U which is the underlying type of all types in the type set of T"
		return U
	}
	ch, ok := U.(*types.Chan)
	if !ok {
		return nil // no core type as identical < len(terms) and U is not a channel.
	}
	// From the deprecated core types spec:
	// "the type chan E if T contains only bidirectional channels, or the type chan<- E or
	// <-chan E depending on the direction of the directional channels present."
	for chans := identical; chans < len(terms); chans++ {
		curr, ok := terms[chans].Type().Underlying().(*types.Chan)
		if !ok {
			return nil
		}
		if !types.Identical(ch.Elem(), curr.Elem()) {
			return nil // channel elements are not identical.
		}
		if ch.Dir() == types.SendRecv {
			// ch is bidirectional. We can safely always use curr's direction.
			ch = curr
		} else if curr.Dir() != types.SendRecv && ch.Dir() != curr.Dir() {
			// ch and curr are not bidirectional and not the same direction.
			return nil
		}
	}
	return ch
}

// NormalTerms returns a slice of terms representing the normalized structural
// type restrictions of a type, if any.
//
// For all types other than *types.TypeParam, *types.Interface, and
// *types.Union, this is just a single term with Tilde() == false and
// Type() == typ. For *types.TypeParam, *types.Interface, and *types.Union, see
// below.
//
// Structural type restrictions of a type parameter are created via
// non-interface types embedded in its constraint interface (directly, or via a
// chain of interface embeddings). For example, in the declaration type
// T[P interface{~int; m()}] int the structural restriction of the type
// parameter P is ~int.
//
// With interface embedding and unions, the specification of structural type
// restrictions may be arbitrarily complex. For example, consider the
// following:
//
//	type A interface{ ~string|~[]byte }
//
//	type B interface{ int|string }
//
//	type C interface { ~string|~int }
//
//	type T[P interface{ A|B; C }] int
//
// In this example, the structural type restriction of P is ~string|int: A|B
// expands to ~string|~[]byte|int|string, which reduces to ~string|~[]byte|int,
// which when intersected with C (~string|~int) yields ~string|int.
//
// NormalTerms computes these expansions and reductions, producing a
// "normalized" form of the embeddings. A structural restriction is normalized
// if it is a single union containing no interface terms, and is minimal in the
// sense that removing any term changes the set of types satisfying the
// constraint. It is left as a proof for the reader that, modulo sorting, there
// is exactly one such normalized form.
//
// Because the minimal representation always takes this form, NormalTerms
// returns a slice of tilde terms corresponding to the terms of the union in
// the normalized structural restriction. An error is returned if the type is
// invalid, exceeds complexity bounds, or has an empty type set. In the latter
// case, NormalTerms returns ErrEmptyTypeSet.
//
// NormalTerms makes no guarantees about the order of terms, except that it
// is deterministic.
func NormalTerms(T types.Type) ([]*types.Term, error) {
	// typeSetOf(T) == typeSetOf(Unalias(T))
	typ := types.Unalias(T)
	if named, ok := typ.(*types.Named); ok {
		typ = named.Underlying()
	}
	switch typ := typ.(type) {
	case *types.TypeParam:
		return StructuralTerms(typ)
	case *types.Union:
		return UnionTermSet(typ)
	case *types.Interface:
		return InterfaceTermSet(typ)
	default:
		return []*types.Term{types.NewTerm(false, T)}, nil
	}
}

// Deref returns the type of the variable pointed to by t,
// if t's core type is a pointer; otherwise it returns t.
//
// Do not assume that Deref(T)==T implies T is not a pointer:
// consider "type T *T", for example.
//
// TODO(adonovan): ideally this would live in typesinternal, but that
// creates an import cycle. Move there when we melt this package down.
func Deref(t types.Type) types.Type {
	if ptr, ok := CoreType(t).(*types.Pointer); ok {
		return ptr.Elem()
	}
	return t
}

// MustDeref returns the type of the variable pointed to by t.
// It panics if t's core type is not a pointer.
//
// TODO(adonovan): ideally this would live in typesinternal, but that
// creates an import cycle. Move there when we melt this package down.
func MustDeref(t types.Type) types.Type {
	if ptr, ok := CoreType(t).(*types.Pointer); ok {
		return ptr.Elem()
	}
	panic(fmt.Sprintf("%v is not a pointer", t))
}
