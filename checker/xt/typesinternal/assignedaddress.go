// Copyright 2026 The Go Authors. All rights reserved.
// Use of this source code is governed by a BSD-style
// license that can be found in the LICENSE file.

package typesinternal

import (
	"go/ast"
	"go/token"
	"go/types"

	"golang.org/x/tools/go/ast/edge"
	"golang.org/x/tools/go/ast/inspector"
)

// IsAssignedOrAddressTaken reports whether the expression cur denotes a
// variable and appears in a context that assigns it or that takes its address,
// potentially leading to indirect assignment.
//
// These examples cause IsAssignedOrAddressTaken on the identifier for x to
// return true:
//
//		x = 1
//		x++
//		x[i] = 1	   (assume x is an array)
//		x.a[i] = 1	 (assume x.a is a non-pointer struct field)
//	  use(&x)
//
// whereas these cause it to return false:
//
//	y = x
//	f(x)
//	use(x.a[i])
//	use(*x)
//
// The expression may itself be a compound, for example:
//
//	use(&(*ptr))  => IsAssignedOrAddressTaken("*ptr") = true
//	x.a[i] = 1    => IsAssignedOrAddressTaken("x.a")  = true
//	_ = x.a[i]    => IsAssignedOrAddressTaken("x.a")  = false
//
// A variable's declaration is not considered to be an assignment:
//
//	var x int     => IsAssignedOrAddressTaken(x) = false
//	x := 1        => IsAssignedOrAddressTaken(x) = false
//
// TODO(adonovan): revisit the surprising behavior for declarations.
func IsAssignedOrAddressTaken(info *types.Info, cur inspector.Cursor) bool {
	// Unfortunately we can't simply use info.Types[e].Assignable()
	// as it is always true for a variable even when that variable is
	// used only as an r-value. So we must inspect enclosing syntax.
outer:
	// Ascend to outermost aggregate of which
	// original cur is a part:
	//    x -> (x) | x.f | x[i] | x[i:j]
	for cur = range cur.Enclosing() {
		switch cur.ParentEdgeKind() {
		case edge.ParenExpr_X:
			// If x is an lvalue, then (x) is an lvalue.
		case edge.SelectorExpr_X:
			// If x is an lvalue, then x.f is an lvalue iff
			// the selection does not traverse a pointer.
			sel := cur.Parent().Node().(*ast.SelectorExpr)
			if seln, ok := info.Selections[sel]; ok {
				// Note: there is a bug in Indirect() where it spuriously returns true
				// when both the selection receiver and parameter are pointers. However,
				// it's okay in this case because there is no address taken when a
				// pointer receiver method is called on a pointer type.
				if seln.Indirect() {
					return false
				}
				if seln.Kind() == types.MethodVal {
					sig := seln.Obj().Type().(*types.Signature)
					if is[*types.Pointer](sig.Recv().Type().Underlying()) {
						t := seln.Recv()
						// The receiver may be an embedded field, so we need
						// to get the inner-most type (right before the method
						// call in seln.Index())
						for _, idx := range seln.Index()[:len(seln.Index())-1] {
							t = t.Underlying().(*types.Struct).Field(idx).Type()
						}
						if !is[*types.Pointer](t.Underlying()) {
							return true // takes address of receiver
						}
					}
					return false
				}
			}
		case edge.IndexExpr_X, edge.SliceExpr_X:
			// If x[i] or x[i:j] is an lvalue,
			// then x is an lvalue iff x is an array.
			if !is[*types.Array](info.TypeOf(cur.Node().(ast.Expr)).Underlying()) {
				return false
			}
		default:
			break outer
		}
	}
	switch cur.ParentEdgeKind() {
	case edge.AssignStmt_Lhs:
		assign := cur.Parent().Node().(*ast.AssignStmt)
		if assign.Tok != token.DEFINE {
			return true // x = j or x += j
		}
		id := cur.Node().(*ast.Ident)
		// Re-assigned identifiers are recorded in the Uses map.
		if _, ok := info.Uses[id]; ok {
			return true // reassignment of x (x, y := 1, 2)
		}
	case edge.RangeStmt_Key, edge.RangeStmt_Value:
		rng := cur.Parent().Node().(*ast.RangeStmt)
		if rng.Tok == token.ASSIGN {
			return true // "for k, v = range x" is like an AssignStmt to k, v
		}
	case edge.IncDecStmt_X:
		return true // x++, x--
	case edge.UnaryExpr_X:
		if cur.Parent().Node().(*ast.UnaryExpr).Op == token.AND {
			return true // &x
		}
	}
	return false
}

func is[T any](x any) bool {
	_, ok := x.(T)
	return ok
}
