// Copyright 2020 The Go Authors. All rights reserved.
// Use of this source code is governed by a BSD-style
// license that can be found in the LICENSE file.

package typesinternal

//go:generate stringer -type=ErrorCode

type ErrorCode int

// This file defines the error codes that can be produced during type-checking.
// Collectively, these codes provide an identifier that may be used to
// implement special handling for certain types of errors.
//
// Error codes should be fine-grained enough that the exact nature of the error
// can be easily determined, but coarse enough that they are not an
// implementation detail of the type checking algorithm. As a rule-of-thumb,
// errors should be considered equivalent if there is a theoretical refactoring
// of the type checker in which they are emitted in exactly one place. For
// example, the type checker emits different error messages for "too many
// arguments" and "too few arguments", but one can imagine an alternative type
// checker where this check instead just emits a single "wrong number of
// arguments", so these errors should have the same code.
//
// Error code names should be as brief as possible while retaining accuracy and
// distinctiveness. In most cases names should start with an adjective
// describing the nature of the error (e.g. "invalid", "unused", "misplaced"),
// and end with a noun identifying the relevant language object. For example,
// "DuplicateDecl" or "InvalidSliceExpr". For brevity, naming follows the
// convention that "bad" implies a problem with syntax, and "invalid" implies a
// problem with types.

const (
	// InvalidSyntaxTree occurs if an invalid syntax tree is provided
	// to the type checker. It should never happen.
	InvalidSyntaxTree ErrorCode = -1
)

const (
	_ ErrorCode = iota

	// Test is reserved for errors that only apply while in self-test mode.
	Test

	/* package names */

	// BlankPkgName occurs when a package name is the blank identifier "_".
	//
	// Per the spec:
	//  "The PackageName must not be the blank identifier."
	BlankPkgName

	// MismatchedPkgName occurs when a file's package name doesn't match the
	// package name already established by other files.
	MismatchedPkgName

	// InvalidPkgUse occurs when a package identifier is used outside of a
	// selector expression.
	//
	// Example:
	//  import "fmt"
	//
	//  var _ = fmt
	InvalidPkgUse

	/* imports */

	// BadImportPath occurs when an import path is not valid.
	BadImportPath

	// BrokenImport occurs when importing a package fails.
	//
	// Example:
	//  import "amissingpackage"
	BrokenImport

	// ImportCRenamed occurs when the special import "C" is renamed. "C" is a
	// pseudo-package, and must not be renamed.
	//
	// Example:
	//  import _ "C"
	ImportCRenamed

	// UnusedImport occurs when an import is unused.
	//
	// Example:
	//  import "fmt"
	//
	//  func main() {}
	UnusedImport

	/* initialization */

	// InvalidInitCycle occurs when an invalid cycle is detected within the
	// initialization graph.
	//
	// Example:
	//  var x int = f()
	//
	//  func f() int { return x }
	InvalidInitCycle

	/* decls */

	// DuplicateDecl occurs when an identifier is declared multiple times.
	//
	// Example:
	//  var x = 1
	//  var x = 2
	DuplicateDecl

	// InvalidDeclCycle occurs when a declaration cycle is not valid.
	//
	// Example:
	//  import "unsafe"
	//
	//  type T struct {
	//  	a [n]int
	//  }
	//
	//  var n = unsafe.Sizeof(T{})
	InvalidDeclCycle

	// InvalidTypeCycle occurs when a cycle in type definitions results in a
	// type that is not well-defined.
	//
	// Example:
	//  import "unsafe"
	//
	//  type T [unsafe.Sizeof(T{})]int
	InvalidTypeCycle

	/* decls > const */

	// InvalidConstInit occurs when a const declaration has a non-constant
	// initializer.
	//
	// Example:
	//  var x int
	//  const _ = x
	InvalidConstInit

	// InvalidConstVal occurs when a const value cannot be converted to its
	// target type.
	//
	// TODO(findleyr): this error code and example are not very clear. Consider
	// removing it.
	//
	// Example:
	//  const _ = 1 << "hello"
	InvalidConstVal

	// InvalidConstType occurs when the underlying type in a const declaration
	// is not a valid constant type.
	//
	// Example:
	//  const c *int = 4
	InvalidConstType

	/* decls > var (+ other variable assignment codes) */

	// UntypedNilUse occurs when the predeclared (untyped) value nil is used to
	// initialize a variable declared without an explicit type.
	//
	// Example:
	//  var x = nil
	UntypedNilUse

	// WrongAssignCount occurs when the number of values on the right-hand side
	// of an assignment or initialization expression does not match the number
	// of variables on the left-hand side.
	//
	// Example:
	//  var x = 1, 2
	WrongAssignCount

	// UnassignableOperand occurs when the left-hand side of an assignment is
	// not assignable.
	//
	// Example:
	//  func f() {
	//  	const c = 1
	//  	c = 2
	//  }
	UnassignableOperand

	// NoNewVar occurs when a short variable declaration (':=') does not declare
	// new variables.
	//
	// Example:
	//  func f() {
	//  	x := 1
	//  	x := 2
	//  }
	NoNewVar

	// MultiValAssignOp occurs when an assignment operation (+=, *=, etc) does
	// not have single-valued left-hand or right-hand side.
	//
	// Per the spec:
	//  "In assignment operations, both the left- and right-hand expression lists
	//  must contain exactly one single-valued expression"
	//
	// Example:
	//  func f() int {
	//  	x, y := 1, 2
	//  	x, y += 1
	//  	return x + y
	//  }
	MultiValAssignOp

	// InvalidIfaceAssign occurs when a value of type T is used as an
	// interface, but T does not implement a method of the expected interface.
	//
	// Example:
	//  type I interface {
	//  	f()
	//  }
	//
	//  type T int
	//
	//  var x I = T(1)
	InvalidIfaceAssign

	// InvalidChanAssign occurs when a chan assignment is invalid.
	//
	// Per the spec, a value x is assignable to a channel type T if:
	//  "x is a bidirectional channel value, T is a channel type, x's type V and
	//  T have identical element types, and at least one of V or T is not a
	//  defined type."
	//
	// Example:
	//  type T1 chan int
	//  type T2 chan int
	//
	//  var x T1
	//  // Invalid assignment because both types are named
	//  var _ T2 = x
	InvalidChanAssign

	// IncompatibleAssign occurs when the type of the right-hand side expression
	// in an assignment cannot be assigned to the type of the variable being
	// assigned.
	//
	// Example:
	//  var x []int
	//  var _ int = x
	IncompatibleAssign

	// UnaddressableFieldAssign occurs when trying to assign to a struct field
	// in a map value.
	//
	// Example:
	//  func f() {
	//  	m := make(map[string]struct{i int})
	//  	m["foo"].i = 42
	//  }
	UnaddressableFieldAssign

	/* decls > type (+ other type expression codes) */

	// NotAType occurs when the identifier used as the underlying type in a type
	// declaration or the right-hand side of a type alias does not denote a type.
	//
	// Example:
	//  var S = 2
	//
	//  type T S
	NotAType

	// InvalidArrayLen occurs when an array length is not a constant value.
	//
	// Example:
	//  var n = 3
	//  var _ = [n]int{}
	InvalidArrayLen

	// BlankIfaceMethod occurs when a method name is '_'.
	//
	// Per the spec:
	//  "The name of each explicitly specified method must be unique and not
	//  blank."
	//
	// Example:
	//  type T interface {
	//  	_(int)
	//  }
	BlankIfaceMethod

	// IncomparableMapKey occurs when a map key type does not support the == and
	// != operators.
	//
	// Per the spec:
	//  "The comparison operators == and != must be fully defined for operands of
	//  the key type; thus the key type must not be a function, map, or slice."
	//
	// Example:
	//  var x map[T]int
	//
	//  type T []int
	IncomparableMapKey

	// InvalidIfaceEmbed occurs when a non-interface type is embedded in an
	// interface.
	//
	// Example:
	//  type T struct {}
	//
	//  func (T) m()
	//
	//  type I interface {
	//  	T
	//  }
	InvalidIfaceEmbed

	// InvalidPtrEmbed occurs when an embedded field is of the pointer form *T,
	// and T itself is itself a pointer, an unsafe.Pointer, or an interface.
	//
	// Per the spec:
	//  "An embedded field must be specified as a type name T or as a pointer to
	//  a non-interface type name *T, and T itself may not be a pointer type."
	//
	// Example:
	//  type T *int
	//
	//  type S struct {
	//  	*T
	//  }
	InvalidPtrEmbed

	/* decls > func and method */

	// BadRecv occurs when a method declaration does not have exactly one
	// receiver parameter.
	//
	// Example:
	//  func () _() {}
	BadRecv

	// InvalidRecv occurs when a receiver type expression is not of the form T
	// or *T, or T is a pointer type.
	//
	// Example:
	//  type T struct {}
	//
	//  func (**T) m() {}
	InvalidRecv

	// DuplicateFieldAndMethod occurs when an identifier appears as both a field
	// and method name.
	//
	// Example:
	//  type T struct {
	//  	m int
	//  }
	//
	//  func (T) m() {}
	DuplicateFieldAndMethod

	// DuplicateMethod occurs when two methods on the same receiver type have
	// the same name.
	//
	// Example:
	//  type T struct {}
	//  func (T) m() {}
	//  func (T) m(i int) int { return i }
	DuplicateMethod

	/* decls > special */

	// InvalidBlank occurs when a blank identifier is used as a value or type.
	//
	// Per the spec:
	//  "The blank identifier may appear as an operand only on the left-hand side
	//  of an assignment."
	//
	// Example:
	//  var x = _
	InvalidBlank

	// InvalidIota occurs when the predeclared identifier iota is used outside
	// of a constant declaration.
	//
	// Example:
	//  var x = iota
	InvalidIota

	// MissingInitBody occurs when an init function is missing its body.
	//
	// Example:
	//  func init()
	MissingInitBody

	// InvalidInitSig occurs when an init function declares parameters or
	// results.
	//
	// Example:
	//  func init() int { return 1 }
	InvalidInitSig

	// InvalidInitDecl occurs when init is declared as anything other than a
	// function.
	//
	// Example:
	//  var init = 1
	InvalidInitDecl

	// InvalidMainDecl occurs when main is declared as anything other than a
	// function, in a main package.
	InvalidMainDecl

	/* exprs */

	// TooManyValues occurs when a function returns too many values for the
	// expression context in which it is used.
	//
	// Example:
	//  func ReturnTwo() (int, int) {
	//  	return 1, 2
	//  }
	//
	//  var x = ReturnTwo()
	TooManyValues

	// NotAnExpr occurs when a type expression is used where a value expression
	// is expected.
	//
	// Example:
	//  type T struct {}
	//
	//  func f() {
	//  	T
	//  }
	NotAnExpr

	/* exprs > const */

	// TruncatedFloat occurs when a float constant is truncated to an integer
	// value.
	//
	// Example:
	//  var _ int = 98.6
	TruncatedFloat

	// NumericOverflow occurs when a numeric constant overflows its target type.
	//
	// Example:
	//  var x int8 = 1000
	NumericOverflow

	/* exprs > operation */

	// UndefinedOp occurs when an operator is not defined for the type(s) used
	// in an operation.
	//
	// Example:
	//  var c = "a" - "b"
	UndefinedOp

	// MismatchedTypes occurs when operand types are incompatible in a binary
	// operation.
	//
	// Example:
	//  var a = "hello"
	//  var b = 1
	//  var c = a - b
	MismatchedTypes

	// DivByZero occurs when a division operation is provable at compile
	// time to be a division by zero.
	//
	// Example:
	//  const divisor = 0
	//  var x int = 1/divisor
	DivByZero

	// NonNumericIncDec occurs when an increment or decrement operator is
	// applied to a non-numeric value.
	//
	// Example:
	//  func f() {
	//  	var c = "c"
	//  	c++
	//  }
	NonNumericIncDec

	/* exprs > ptr */

	// UnaddressableOperand occurs when the & operator is applied to an
	// unaddressable expression.
	//
	// Example:
	//  var x = &1
	UnaddressableOperand

	// InvalidIndirection occurs when a non-pointer value is indirected via the
	// '*' operator.
	//
	// Example:
	//  var x int
	//  var y = *x
	InvalidIndirection

	/* exprs > [] */

	// NonIndexableOperand occurs when an index operation is applied to a value
	// that cannot be indexed.
	//
	// Example:
	//  var x = 1
	//  var y = x[1]
	NonIndexableOperand

	// InvalidIndex occurs when an index argument is not of integer type,
	// negative, or out-of-bounds.
	//
	// Example:
	//  var s = [...]int{1,2,3}
	//  var x = s[5]
	//
	// Example:
	//  var s = []int{1,2,3}
	//  var _ = s[-1]
	//
	// Example:
	//  var s = []int{1,2,3}
	//  var i string
	//  var _ = s[i]
	InvalidIndex

	// SwappedSliceIndices occurs when constant indices in a slice expression
	// are decreasing in value.
	//
	// Example:
	//  var _ = []int{1,2,3}[2:1]
	SwappedSliceIndices

	/* operators > slice */

	// NonSliceableOperand occurs when a slice operation is applied to a value
	// whose type is not sliceable, or is unaddressable.
	//
	// Example:
	//  var x = [...]int{1, 2, 3}[:1]
	//
	// Example:
	//  var x = 1
	//  var y = 1[:1]
	NonSliceableOperand

	// InvalidSliceExpr occurs when a three-index slice expression (a[x:y:z]) is
	// applied to a string.
	//
	// Example:
	//  var s = "hello"
	//  var x = s[1:2:3]
	InvalidSliceExpr

	/* exprs > shift */

	// InvalidShiftCount occurs when the right-hand side of a shift operation is
	// either non-integer, negative, or too large.
	//
	// Example:
	//  var (
	//  	x string
	//  	y int = 1 << x
	//  )
	InvalidShiftCount

	// InvalidShiftOperand occurs when the shifted operand is not an integer.
	//
	// Example:
	//  var s = "hello"
	//  var x = s << 2
	InvalidShiftOperand

	/* exprs > chan */

	// InvalidReceive occurs when there is a channel receive from a value that
	// is either not a channel, or is a send-only channel.
	//
	// Example:
	//  func f() {
	//  	var x = 1
	//  	<-x
	//  }
	InvalidReceive

	// InvalidSend occurs when there is a channel send to a value that is not a
	// channel, or is a receive-only channel.
	//
	// Example:
	//  func f() {
	//  	var x = 1
	//  	x <- "hello!"
	//  }
	InvalidSend

	/* exprs > literal */

	// DuplicateLitKey occurs when an index is duplicated in a slice, array, or
	// map literal.
	//
	// Example:
	//  var _ = []int{0:1, 0:2}
	//
	// Example:
	//  var _ = map[string]int{"a": 1, "a": 2}
	DuplicateLitKey

	// MissingLitKey occurs when a map literal is missing a key expression.
	//
	// Example:
	//  var _ = map[string]int{1}
	MissingLitKey

	// InvalidLitIndex occurs when the key in a key-value element of a slice or
	// array literal is not an integer constant.
	//
	// Example:
	//  var i = 0
	//  var x = []string{i: "world"}
	InvalidLitIndex

	// OversizeArrayLit occurs when an array literal exceeds its length.
	//
	// Example:
	//  var _ = [2]int{1,2,3}
	OversizeArrayLit

	// MixedStructLit occurs when a struct literal contains a mix of positional
	// and named elements.
	//
	// Example:
	//  var _ = struct{i, j int}{i: 1, 2}
	MixedStructLit

	// InvalidStructLit occurs when a positional struct literal has an incorrect
	// number of values.
	//
	// Example:
	//  var _ = struct{i, j int}{1,2,3}
	InvalidStructLit

	// MissingLitField occurs when a struct literal refers to a field that does
	// not exist on the struct type.
	//
	// Example:
	//  var _ = struct{i int}{j: 2}
	MissingLitField

	// DuplicateLitField occurs when a struct literal contains duplicated
	// fields.
	//
	// Example:
	//  var _ = struct{i int}{i: 1, i: 2}
	DuplicateLitField

	// UnexportedLitField occurs when a positional struct literal implicitly
	// assigns an unexported field of an imported type.
	UnexportedLitField

	// InvalidLitField occurs when a field name is not a valid identifier.
	//
	// Example:
	//  var _ = struct{i int}{1: 1}
	InvalidLitField

	// UntypedLit occurs when a composite literal omits a required type
	// identifier.
	//
	// Example:
	//  type outer struct{
	//  	inner struct { i int }
	//  }
	//
	//  var _ = outer{inner: {1}}
	UntypedLit

	// InvalidLit occurs when a composite literal expression does not match its
	// type.
	//
	// Example:
	//  type P *struct{
	//  	x int
	//  }
	//  var _ = P {}
	InvalidLit

	/* exprs > selector */

	// AmbiguousSelector occurs when a selector is ambiguous.
	//
	// Example:
	//  type E1 struct { i int }
	//  type E2 struct { i int }
	//  type T struct { E1; E2 }
	//
	//  var x T
	//  var _ = x.i
	AmbiguousSelector

	// UndeclaredImportedName occurs when a package-qualified identifier is
	// undeclared by the imported package.
	//
	// Example:
	//  import "go/types"
	//
	//  var _ = types.NotAnActualIdentifier
	UndeclaredImportedName

	// UnexportedName occurs when a selector refers to an unexported identifier
	// of an imported package.
	//
	// Example:
	//  import "reflect"
	//
	//  type _ reflect.flag
	UnexportedName

	// UndeclaredName occurs when an identifier is not declared in the current
	// scope.
	//
	// Example:
	//  var x T
	UndeclaredName

	// MissingFieldOrMethod occurs when a selector references a field or method
	// that does not exist.
	//
	// Example:
	//  type T struct {}
	//
	//  var x = T{}.f
	MissingFieldOrMethod

	/* exprs > ... */

	// BadDotDotDotSyntax occurs when a "..." occurs in a context where it is
	// not valid.
	//
	// Example:
	//  var _ = map[int][...]int{0: {}}
	BadDotDotDotSyntax

	// NonVariadicDotDotDot occurs when a "..." is used on the final argument to
	// a non-variadic function.
	//
	// Example:
	//  func printArgs(s []string) {
	//  	for _, a := range s {
	//  		println(a)
	//  	}
	//  }
	//
	//  func f() {
	//  	s := []string{"a", "b", "c"}
	//  	printArgs(s...)
	//  }
	NonVariadicDotDotDot

	// MisplacedDotDotDot occurs when a "..." is used somewhere other than the
	// final argument to a function call.
	//
	// Example:
	//  func printArgs(args ...int) {
	//  	for _, a := range args {
	//  		println(a)
	//  	}
	//  }
	//
	//  func f() {
	//  	a := []int{1,2,3}
	//  	printArgs(0, a...)
	//  }
	MisplacedDotDotDot

	// InvalidDotDotDotOperand occurs when a "..." operator is applied to a
	// single-valued operand.
	//
	// Example:
	//  func printArgs(args ...int) {
	//  	for _, a := range args {
	//  		println(a)
	//  	}
	//  }
	//
	//  func f() {
	//  	a := 1
	//  	printArgs(a...)
	//  }
	//
	// Example:
	//  func args() (int, int) {
	//  	return 1, 2
	//  }
	//
	//  func printArgs(args ...int) {
	//  	for _, a := range args {
	//  		println(a)
	//  	}
	//  }
	//
	//  func g() {
	//  	printArgs(args()...)
	//  }
	InvalidDotDotDotOperand

	// InvalidDotDotDot occurs when a "..." is used in a non-variadic built-in
	// function.
	//
	// Example:
	//  var s = []int{1, 2, 3}
	//  var l = len(s...)
	InvalidDotDotDot

	/* exprs > built-in */

	// UncalledBuiltin occurs when a built-in function is used as a
	// function-valued expression, instead of being called.
	//
	// Per the spec:
	//  "The built-in functions do not have standard Go types, so they can only
	//  appear in call expressions; they cannot be used as function values."
	//
	// Example:
	//  var _ = copy
	UncalledBuiltin

	// InvalidAppend occurs when append is called with a first argument that is
	// not a slice.
	//
	// Example:
	//  var _ = append(1, 2)
	InvalidAppend

	// InvalidCap occurs when an argument to the cap built-in function is not of
	// supported type.
	//
	// See https://golang.org/ref/spec#Length_and_capacity for information on
	// which underlying types are supported as arguments to cap and len.
	//
	// Example:
	//  var s = 2
	//  var x = cap(s)
	InvalidCap

	// InvalidClose occurs when close(...) is called with an argument that is
	// not of channel type, or that is a receive-only channel.
	//
	// Example:
	//  func f() {
	//  	var x int
	//  	close(x)
	//  }
	InvalidClose

	// InvalidCopy occurs when the arguments are not of slice type or do not
	// have compatible type.
	//
	// See https://golang.org/ref/spec#Appending_and_copying_slices for more
	// information on the type requirements for the copy built-in.
	//
	// Example:
	//  func f() {
	//  	var x []int
	//  	y := []int64{1,2,3}
	//  	copy(x, y)
	//  }
	InvalidCopy

	// InvalidComplex occurs when the complex built-in function is called with
	// arguments with incompatible types.
	//
	// Example:
	//  var _ = complex(float32(1), float64(2))
	InvalidComplex

	// InvalidDelete occurs when the delete built-in function is called with a
	// first argument that is not a map.
	//
	// Example:
	//  func f() {
	//  	m := "hello"
	//  	delete(m, "e")
	//  }
	InvalidDelete

	// InvalidImag occurs when the imag built-in function is called with an
	// argument that does not have complex type.
	//
	// Example:
	//  var _ = imag(int(1))
	InvalidImag

	// InvalidLen occurs when an argument to the len built-in function is not of
	// supported type.
	//
	// See https://golang.org/ref/spec#Length_and_capacity for information on
	// which underlying types are supported as arguments to cap and len.
	//
	// Example:
	//  var s = 2
	//  var x = len(s)
	InvalidLen

	// SwappedMakeArgs occurs when make is called with three arguments, and its
	// length argument is larger than its capacity argument.
	//
	// Example:
	//  var x = make([]int, 3, 2)
	SwappedMakeArgs

	// InvalidMake occurs when make is called with an unsupported type argument.
	//
	// See https://golang.org/ref/spec#Making_slices_maps_and_channels for
	// information on the types that may be created using make.
	//
	// Example:
	//  var x = make(int)
	InvalidMake

	// InvalidReal occurs when the real built-in function is called with an
	// argument that does not have complex type.
	//
	// Example:
	//  var _ = real(int(1))
	InvalidReal

	/* exprs > assertion */

	// InvalidAssert occurs when a type assertion is applied to a
	// value that is not of interface type.
	//
	// Example:
	//  var x = 1
	//  var _ = x.(float64)
	InvalidAssert

	// ImpossibleAssert occurs for a type assertion x.(T) when the value x of
	// interface cannot have dynamic type T, due to a missing or mismatching
	// method on T.
	//
	// Example:
	//  type T int
	//
	//  func (t *T) m() int { return int(*t) }
	//
	//  type I interface { m() int }
	//
	//  var x I
	//  var _ = x.(T)
	ImpossibleAssert

	/* exprs > conversion */

	// InvalidConversion occurs when the argument type cannot be converted to the
	// target.
	//
	// See https://golang.org/ref/spec#Conversions for the rules of
	// convertibility.
	//
	// Example:
	//  var x float64
	//  var _ = string(x)
	InvalidConversion

	// InvalidUntypedConversion occurs when there is no valid implicit
	// conversion from an untyped value satisfying the type constraints of the
	// context in which it is used.
	//
	// Example:
	//  var _ = 1 + ""
	InvalidUntypedConversion

	/* offsetof */

	// BadOffsetofSyntax occurs when unsafe.Offsetof is called with an argument
	// that is not a selector expression.
	//
	// Example:
	//  import "unsafe"
	//
	//  var x int
	//  var _ = unsafe.Offsetof(x)
	BadOffsetofSyntax

	// InvalidOffsetof occurs when unsafe.Offsetof is called with a method
	// selector, rather than a field selector, or when the field is embedded via
	// a pointer.
	//
	// Per the spec:
	//
	//  "If f is an embedded field, it must be reachable without pointer
	//  indirections through fields of the struct. "
	//
	// Example:
	//  import "unsafe"
	//
	//  type T struct { f int }
	//  type S struct { *T }
	//  var s S
	//  var _ = unsafe.Offsetof(s.f)
	//
	// Example:
	//  import "unsafe"
	//
	//  type S struct{}
	//
	//  func (S) m() {}
	//
	//  var s S
	//  var _ = unsafe.Offsetof(s.m)
	InvalidOffsetof

	/* control flow > scope */

	// UnusedExpr occurs when a side-effect free expression is used as a
	// statement. Such a statement has no effect.
	//
	// Example:
	//  func f(i int) {
	//  	i*i
	//  }
	UnusedExpr

	// UnusedVar occurs when a variable is declared but unused.
	//
	// Example:
	//  func f() {
	//  	x := 1
	//  }
	UnusedVar

	// MissingReturn occurs when a function with results is missing a return
	// statement.
	//
	// Example:
	//  func f() int {}
	MissingReturn

	// WrongResultCount occurs when a return statement returns an incorrect
	// number of values.
	//
	// Example:
	//  func ReturnOne() int {
	//  	return 1, 2
	//  }
	WrongResultCount

	// OutOfScopeResult occurs when the name of a value implicitly returned by
	// an empty return statement is shadowed in a nested scope.
	//
	// Example:
	//  func factor(n int) (i int) {
	//  	for i := 2; i < n; i++ {
	//  		if n%i == 0 {
	//  			return
	//  		}
	//  	}
	//  	return 0
	//  }
	OutOfScopeResult

	/* control flow > if */

	// InvalidCond occurs when an if condition is not a boolean expression.
	//
	// Example:
	//  func checkReturn(i int) {
	//  	if i {
	//  		panic("non-zero return")
	//  	}
	//  }
	InvalidCond

	/* control flow > for */

	// InvalidPostDecl occurs when there is a declaration in a for-loop post
	// statement.
	//
	// Example:
	//  func f() {
	//  	for i := 0; i < 10; j := 0 {}
	//  }
	InvalidPostDecl

	// InvalidChanRange occurs when a send-only channel used in a range
	// expression.
	//
	// Example:
	//  func sum(c chan<- int) {
	//  	s := 0
	//  	for i := range c {
	//  		s += i
	//  	}
	//  }
	InvalidChanRange

	// InvalidIterVar occurs when two iteration variables are used while ranging
	// over a channel.
	//
	// Example:
	//  func f(c chan int) {
	//  	for k, v := range c {
	//  		println(k, v)
	//  	}
	//  }
	InvalidIterVar

	// InvalidRangeExpr occurs when the type of a range expression is not array,
	// slice, string, map, or channel.
	//
	// Example:
	//  func f(i int) {
	//  	for j := range i {
	//  		println(j)
	//  	}
	//  }
	InvalidRangeExpr

	/* control flow > switch */

	// MisplacedBreak occurs when a break statement is not within a for, switch,
	// or select statement of the innermost function definition.
	//
	// Example:
	//  func f() {
	//  	break
	//  }
	MisplacedBreak

	// MisplacedContinue occurs when a continue statement is not within a for
	// loop of the innermost function definition.
	//
	// Example:
	//  func sumeven(n int) int {
	//  	proceed := func() {
	//  		continue
	//  	}
	//  	sum := 0
	//  	for i := 1; i <= n; i++ {
	//  		if i % 2 != 0 {
	//  			proceed()
	//  		}
	//  		sum += i
	//  	}
	//  	return sum
	//  }
	MisplacedContinue

	// MisplacedFallthrough occurs when a fallthrough statement is not within an
	// expression switch.
	//
	// Example:
	//  func typename(i interface{}) string {
	//  	switch i.(type) {
	//  	case int64:
	//  		fallthrough
	//  	case int:
	//  		return "int"
	//  	}
	//  	return "unsupported"
	//  }
	MisplacedFallthrough

	// DuplicateCase occurs when a type or expression switch has duplicate
	// cases.
	//
	// Example:
	//  func printInt(i int) {
	//  	switch i {
	//  	case 1:
	//  		println("one")
	//  	case 1:
	//  		println("One")
	//  	}
	//  }
	DuplicateCase

	// DuplicateDefault occurs when a type or expression switch has multiple
	// default clauses.
	//
	// Example:
	//  func printInt(i int) {
	//  	switch i {
	//  	case 1:
	//  		println("one")
	//  	default:
	//  		println("One")
	//  	default:
	//  		println("1")
	//  	}
	//  }
	DuplicateDefault

	// BadTypeKeyword occurs when a .(type) expression is used anywhere other
	// than a type switch.
	//
	// Example:
	//  type I interface {
	//  	m()
	//  }
	//  var t I
	//  var _ = t.(type)
	BadTypeKeyword

	// InvalidTypeSwitch occurs when .(type) is used on an expression that is
	// not of interface type.
	//
	// Example:
	//  func f(i int) {
	//  	switch x := i.(type) {}
	//  }
	InvalidTypeSwitch

	// InvalidExprSwitch occurs when a switch expression is not comparable.
	//
	// Example:
	//  func _() {
	//  	var a struct{ _ func() }
	//  	switch a /* ERROR cannot switch on a */ {
	//  	}
	//  }
	InvalidExprSwitch

	/* control flow > select */

	// InvalidSelectCase occurs when a select case is not a channel send or
	// receive.
	//
	// Example:
	//  func checkChan(c <-chan int) bool {
	//  	select {
	//  	case c:
	//  		return true
	//  	default:
	//  		return false
	//  	}
	//  }
	InvalidSelectCase

	/* control flow > labels and jumps */

	// UndeclaredLabel occurs when an undeclared label is jumped to.
	//
	// Example:
	//  func f() {
	//  	goto L
	//  }
	UndeclaredLabel

	// DuplicateLabel occurs when a label is declared more than once.
	//
	// Example:
	//  func f() int {
	//  L:
	//  L:
	//  	return 1
	//  }
	DuplicateLabel

	// MisplacedLabel occurs when a break or continue label is not on a for,
	// switch, or select statement.
	//
	// Example:
	//  func f() {
	//  L:
	//  	a := []int{1,2,3}
	//  	for _, e := range a {
	//  		if e > 10 {
	//  			break L
	//  		}
	//  		println(a)
	//  	}
	//  }
	MisplacedLabel

	// UnusedLabel occurs when a label is declared but not used.
	//
	// Example:
	//  func f() {
	//  L:
	//  }
	UnusedLabel

	// JumpOverDecl occurs when a label jumps over a variable declaration.
	//
	// Example:
	//  func f() int {
	//  	goto L
	//  	x := 2
	//  L:
	//  	x++
	//  	return x
	//  }
	JumpOverDecl

	// JumpIntoBlock occurs when a forward jump goes to a label inside a nested
	// block.
	//
	// Example:
	//  func f(x int) {
	//  	goto L
	//  	if x > 0 {
	//  	L:
	//  		print("inside block")
	//  	}
	// }
	JumpIntoBlock

	/* control flow > calls */

	// InvalidMethodExpr occurs when a pointer method is called but the argument
	// is not addressable.
	//
	// Example:
	//  type T struct {}
	//
	//  func (*T) m() int { return 1 }
	//
	//  var _ = T.m(T{})
	InvalidMethodExpr

	// WrongArgCount occurs when too few or too many arguments are passed by a
	// function call.
	//
	// Example:
	//  func f(i int) {}
	//  var x = f()
	WrongArgCount

	// InvalidCall occurs when an expression is called that is not of function
	// type.
	//
	// Example:
	//  var x = "x"
	//  var y = x()
	InvalidCall

	/* control flow > suspended */

	// UnusedResults occurs when a restricted expression-only built-in function
	// is suspended via go or defer. Such a suspension discards the results of
	// these side-effect free built-in functions, and therefore is ineffectual.
	//
	// Example:
	//  func f(a []int) int {
	//  	defer len(a)
	//  	return i
	//  }
	UnusedResults

	// InvalidDefer occurs when a deferred expression is not a function call,
	// for example if the expression is a type conversion.
	//
	// Example:
	//  func f(i int) int {
	//  	defer int32(i)
	//  	return i
	//  }
	InvalidDefer

	// InvalidGo occurs when a go expression is not a function call, for example
	// if the expression is a type conversion.
	//
	// Example:
	//  func f(i int) int {
	//  	go int32(i)
	//  	return i
	//  }
	InvalidGo

	// All codes below were added in Go 1.17.

	/* decl */

	// BadDecl occurs when a declaration has invalid syntax.
	BadDecl

	// RepeatedDecl occurs when an identifier occurs more than once on the left
	// hand side of a short variable declaration.
	//
	// Example:
	//  func _() {
	//  	x, y, y := 1, 2, 3
	//  }
	RepeatedDecl

	/* unsafe */

	// InvalidUnsafeAdd occurs when unsafe.Add is called with a
	// length argument that is not of integer type.
	//
	// Example:
	//  import "unsafe"
	//
	//  var p unsafe.Pointer
	//  var _ = unsafe.Add(p, float64(1))
	InvalidUnsafeAdd

	// InvalidUnsafeSlice occurs when unsafe.Slice is called with a
	// pointer argument that is not of pointer type or a length argument
	// that is not of integer type, negative, or out of bounds.
	//
	// Example:
	//  import "unsafe"
	//
	//  var x int
	//  var _ = unsafe.Slice(x, 1)
	//
	// Example:
	//  import "unsafe"
	//
	//  var x int
	//  var _ = unsafe.Slice(&x, float64(1))
	//
	// Example:
	//  import "unsafe"
	//
	//  var x int
	//  var _ = unsafe.Slice(&x, -1)
	//
	// Example:
	//  import "unsafe"
	//
	//  var x int
	//  var _ = unsafe.Slice(&x, uint64(1) << 63)
	InvalidUnsafeSlice

	// All codes below were added in Go 1.18.

	/* features */

	// UnsupportedFeature occurs when a language feature is used that is not
	// supported at this Go version.
	UnsupportedFeature

	/* type params */

	// NotAGenericType occurs when a non-generic type is used where a generic
	// type is expected: in type or function instantiation.
	//
	// Example:
	//  type T int
	//
	//  var _ T[int]
	NotAGenericType

	// WrongTypeArgCount occurs when a type or function is instantiated with an
	// incorrect number of type arguments, including when a generic type or
	// function is used without instantiation.
	//
	// Errors involving failed type inference are assigned other error codes.
	//
	// Example:
	//  type T[p any] int
	//
	//  var _ T[int, string]
	//
	// Example:
	//  func f[T any]() {}
	//
	//  var x = f
	WrongTypeArgCount

	// CannotInferTypeArgs occurs when type or function type argument inference
	// fails to infer all type arguments.
	//
	// Example:
	//  func f[T any]() {}
	//
	//  func _() {
	//  	f()
	//  }
	//
	// Example:
	//   type N[P, Q any] struct{}
	//
	//   var _ N[int]
	CannotInferTypeArgs

	// InvalidTypeArg occurs when a type argument does not satisfy its
	// corresponding type parameter constraints.
	//
	// Example:
	//  type T[P ~int] struct{}
	//
	//  var _ T[string]
	InvalidTypeArg // arguments? InferenceFailed

	// InvalidInstanceCycle occurs when an invalid cycle is detected
	// within the instantiation graph.
	//
	// Example:
	//  func f[T any]() { f[*T]() }
	InvalidInstanceCycle

	// InvalidUnion occurs when an embedded union or approximation element is
	// not valid.
	//
	// Example:
	//  type _ interface {
	//   	~int | interface{ m() }
	//  }
	InvalidUnion

	// MisplacedConstraintIface occurs when a constraint-type interface is used
	// outside of constraint position.
	//
	// Example:
	//   type I interface { ~int }
	//
	//   var _ I
	MisplacedConstraintIface

	// InvalidMethodTypeParams occurs when methods have type parameters.
	//
	// It cannot be encountered with an AST parsed using go/parser.
	InvalidMethodTypeParams

	// MisplacedTypeParam occurs when a type parameter is used in a place where
	// it is not permitted.
	//
	// Example:
	//  type T[P any] P
	//
	// Example:
	//  type T[P any] struct{ *P }
	MisplacedTypeParam

	// InvalidUnsafeSliceData occurs when unsafe.SliceData is called with
	// an argument that is not of slice type. It also occurs if it is used
	// in a package compiled for a language version before go1.20.
	//
	// Example:
	//  import "unsafe"
	//
	//  var x int
	//  var _ = unsafe.SliceData(x)
	InvalidUnsafeSliceData

	// InvalidUnsafeString occurs when unsafe.String is called with
	// a length argument that is not of integer type, negative, or
	// out of bounds. It also occurs if it is used in a package
	// compiled for a language version before go1.20.
	//
	// Example:
	//  import "unsafe"
	//
	//  var b [10]byte
	//  var _ = unsafe.String(&b[0], -1)
	InvalidUnsafeString

	// InvalidUnsafeStringData occurs if it is used in a package
	// compiled for a language version before go1.20.
	_ // not used anymore

)
