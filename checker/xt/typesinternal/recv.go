// Copyright 2024 The Go Authors. All rights reserved.
// Use of this source code is governed by a BSD-style
// license that can be found in the LICENSE file.

package typesinternal

import (
	"go/types"
)

// ReceiverNamed returns the named type (if any) associated with the
// type of recv, which may be of the form N or *N, or aliases thereof.
// It also reports whether a Pointer was present.
//
// The named result may be nil if recv is from a method on an
// anonymous interface or struct types or in ill-typed code.
func ReceiverNamed(recv *types.Var) (isPtr bool, named *types.Named) {
	t := recv.Type()
	if ptr, ok := types.Unalias(t).(*types.Pointer); ok {
		isPtr = true
		t = ptr.Elem()
	}
	named, _ = types.Unalias(t).(*types.Named)
	return
}

// Unpointer returns T given *T or an alias thereof.
// For all other types it is the identity function.
// It does not look at underlying types.
// The result may be an alias.
//
// Use this function to strip off the optional pointer on a receiver
// in a field or method selection, without losing the named type
// (which is needed to compute the method set).
//
// See also [typeparams.MustDeref], which removes one level of
// indirection from the type, regardless of named types (analogous to
// a LOAD instruction).
func Unpointer(t types.Type) types.Type {
	if ptr, ok := types.Unalias(t).(*types.Pointer); ok {
		return ptr.Elem()
	}
	return t
}
