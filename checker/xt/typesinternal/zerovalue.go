// Copyright 2024 The Go Authors. All rights reserved.
// Use of this source code is governed by a BSD-style
// license that can be found in the LICENSE file.

package typesinternal

import (
	"fmt"
	"go/ast"
	"go/token"
	"go/types"
	"strings"
)

// ZeroString returns the string representation of the zero value for any type t.
// The boolean result indicates whether the type is or contains an invalid type
// or a non-basic (constraint) interface type.
//
// Even for invalid input types, ZeroString may return a partially correct
// string representation. The caller should use the returned isValid boolean
// to determine the validity of the expression.
//
// When assigning to a wider type (such as 'any'), it's the caller's
// responsibility to handle any necessary type conversions.
//
// This string can be used on the right-hand side of an assignment where the
// left-hand side has that explicit type.
// References to named types are qualified by an appropriate (optional)
// qualifier function.
// Exception: This does not apply to tuples. Their string representation is
// informational only and cannot be used in an assignment.
//
// See [ZeroExpr] for a variant that returns an [ast.Expr].
func ZeroString(t types.Type, qual types.Qualifier) (_ string, isValid bool) {
	switch t := t.(type) {
	case *types.Basic:
		switch {
		case t.Info()&types.IsBoolean != 0:
			return "false", true
		case t.Info()&types.IsNumeric != 0:
			return "0", true
		case t.Info()&types.IsString != 0:
			return `""`, true
		case t.Kind() == types.UnsafePointer:
			fallthrough
		case t.Kind() == types.UntypedNil:
			return "nil", true
		case t.Kind() == types.Invalid:
			return "invalid", false
		default:
			panic(fmt.Sprintf("ZeroString for unexpected type %v", t))
		}

	case *types.Pointer, *types.Slice, *types.Chan, *types.Map, *types.Signature:
		return "nil", true

	case *types.Interface:
		if !t.IsMethodSet() {
			return "invalid", false
		}
		return "nil", true

	case *types.Named:
		switch under := t.Underlying().(type) {
		case *types.Struct, *types.Array:
			return types.TypeString(t, qual) + "{}", true
		default:
			return ZeroString(under, qual)
		}

	case *types.Alias:
		switch t.Underlying().(type) {
		case *types.Struct, *types.Array:
			return types.TypeString(t, qual) + "{}", true
		default:
			// A type parameter can have alias but alias type's underlying type
			// can never be a type parameter.
			// Use types.Unalias to preserve the info of type parameter instead
			// of call Underlying() going right through and get the underlying
			// type of the type parameter which is always an interface.
			return ZeroString(types.Unalias(t), qual)
		}

	case *types.Array, *types.Struct:
		return types.TypeString(t, qual) + "{}", true

	case *types.TypeParam:
		// Assumes func new is not shadowed.
		return "*new(" + types.TypeString(t, qual) + ")", true

	case *types.Tuple:
		// Tuples are not normal values.
		// We are currently format as "(t[0], ..., t[n])". Could be something else.
		isValid := true
		components := make([]string, t.Len())
		for i := 0; i < t.Len(); i++ {
			comp, ok := ZeroString(t.At(i).Type(), qual)

			components[i] = comp
			isValid = isValid && ok
		}
		return "(" + strings.Join(components, ", ") + ")", isValid

	case *types.Union:
		// Variables of these types cannot be created, so it makes
		// no sense to ask for their zero value.
		panic(fmt.Sprintf("invalid type for a variable: %v", t))

	default:
		panic(t) // unreachable.
	}
}

// ZeroExpr returns the ast.Expr representation of the zero value for any type t.
// The boolean result indicates whether the type is or contains an invalid type
// or a non-basic (constraint) interface type.
//
// Even for invalid input types, ZeroExpr may return a partially correct ast.Expr
// representation. The caller should use the returned isValid boolean to determine
// the validity of the expression.
//
// This function is designed for types suitable for variables and should not be
// used with Tuple or Union types.References to named types are qualified by an
// appropriate (optional) qualifier function.
//
// See [ZeroString] for a variant that returns a string.
func ZeroExpr(t types.Type, qual types.Qualifier) (_ ast.Expr, isValid bool) {
	switch t := t.(type) {
	case *types.Basic:
		switch {
		case t.Info()&types.IsBoolean != 0:
			return &ast.Ident{Name: "false"}, true
		case t.Info()&types.IsNumeric != 0:
			return &ast.BasicLit{Kind: token.INT, Value: "0"}, true
		case t.Info()&types.IsString != 0:
			return &ast.BasicLit{Kind: token.STRING, Value: `""`}, true
		case t.Kind() == types.UnsafePointer:
			fallthrough
		case t.Kind() == types.UntypedNil:
			return ast.NewIdent("nil"), true
		case t.Kind() == types.Invalid:
			return &ast.BasicLit{Kind: token.STRING, Value: `"invalid"`}, false
		default:
			panic(fmt.Sprintf("ZeroExpr for unexpected type %v", t))
		}

	case *types.Pointer, *types.Slice, *types.Chan, *types.Map, *types.Signature:
		return ast.NewIdent("nil"), true

	case *types.Interface:
		if !t.IsMethodSet() {
			return &ast.BasicLit{Kind: token.STRING, Value: `"invalid"`}, false
		}
		return ast.NewIdent("nil"), true

	case *types.Named:
		switch under := t.Underlying().(type) {
		case *types.Struct, *types.Array:
			return &ast.CompositeLit{
				Type: TypeExpr(t, qual),
			}, true
		default:
			return ZeroExpr(under, qual)
		}

	case *types.Alias:
		switch t.Underlying().(type) {
		case *types.Struct, *types.Array:
			return &ast.CompositeLit{
				Type: TypeExpr(t, qual),
			}, true
		default:
			return ZeroExpr(types.Unalias(t), qual)
		}

	case *types.Array, *types.Struct:
		return &ast.CompositeLit{
			Type: TypeExpr(t, qual),
		}, true

	case *types.TypeParam:
		return &ast.StarExpr{ // *new(T)
			X: &ast.CallExpr{
				// Assumes func new is not shadowed.
				Fun: ast.NewIdent("new"),
				Args: []ast.Expr{
					ast.NewIdent(t.Obj().Name()),
				},
			},
		}, true

	case *types.Tuple:
		// Unlike ZeroString, there is no ast.Expr can express tuple by
		// "(t[0], ..., t[n])".
		panic(fmt.Sprintf("invalid type for a variable: %v", t))

	case *types.Union:
		// Variables of these types cannot be created, so it makes
		// no sense to ask for their zero value.
		panic(fmt.Sprintf("invalid type for a variable: %v", t))

	default:
		panic(t) // unreachable.
	}
}

// TypeExpr returns syntax for the specified type. References to named types
// are qualified by an appropriate (optional) qualifier function.
// It may panic for types such as Tuple or Union.
//
// See also https://go.dev/issues/75604, which will provide a robust
// Type-to-valid-Go-syntax formatter.
func TypeExpr(t types.Type, qual types.Qualifier) ast.Expr {
	switch t := t.(type) {
	case *types.Basic:
		switch t.Kind() {
		case types.UnsafePointer:
			return &ast.SelectorExpr{X: ast.NewIdent(qual(types.NewPackage("unsafe", "unsafe"))), Sel: ast.NewIdent("Pointer")}
		default:
			return ast.NewIdent(t.Name())
		}

	case *types.Pointer:
		return &ast.UnaryExpr{
			Op: token.MUL,
			X:  TypeExpr(t.Elem(), qual),
		}

	case *types.Array:
		return &ast.ArrayType{
			Len: &ast.BasicLit{
				Kind:  token.INT,
				Value: fmt.Sprintf("%d", t.Len()),
			},
			Elt: TypeExpr(t.Elem(), qual),
		}

	case *types.Slice:
		return &ast.ArrayType{
			Elt: TypeExpr(t.Elem(), qual),
		}

	case *types.Map:
		return &ast.MapType{
			Key:   TypeExpr(t.Key(), qual),
			Value: TypeExpr(t.Elem(), qual),
		}

	case *types.Chan:
		dir := ast.ChanDir(t.Dir())
		if t.Dir() == types.SendRecv {
			dir = ast.SEND | ast.RECV
		}
		return &ast.ChanType{
			Dir:   dir,
			Value: TypeExpr(t.Elem(), qual),
		}

	case *types.Signature:
		var params []*ast.Field
		for v := range t.Params().Variables() {
			var names []*ast.Ident
			if v.Name() != "" {
				names = []*ast.Ident{ast.NewIdent(v.Name())}
			}
			params = append(params, &ast.Field{
				Type:  TypeExpr(v.Type(), qual),
				Names: names,
			})
		}
		if t.Variadic() {
			last := params[len(params)-1]
			last.Type = &ast.Ellipsis{Elt: last.Type.(*ast.ArrayType).Elt}
		}
		var returns []*ast.Field
		for v := range t.Results().Variables() {
			returns = append(returns, &ast.Field{
				Type: TypeExpr(v.Type(), qual),
			})
		}
		return &ast.FuncType{
			Params: &ast.FieldList{
				List: params,
			},
			Results: &ast.FieldList{
				List: returns,
			},
		}

	case *types.TypeParam:
		pkgName := qual(t.Obj().Pkg())
		if pkgName == "" || t.Obj().Pkg() == nil {
			return ast.NewIdent(t.Obj().Name())
		}
		return &ast.SelectorExpr{
			X:   ast.NewIdent(pkgName),
			Sel: ast.NewIdent(t.Obj().Name()),
		}

	// types.TypeParam also implements interface NamedOrAlias. To differentiate,
	// case TypeParam need to be present before case NamedOrAlias.
	// TODO(hxjiang): remove this comment once TypeArgs() is added to interface
	// NamedOrAlias.
	case NamedOrAlias:
		var expr ast.Expr = ast.NewIdent(t.Obj().Name())
		if pkgName := qual(t.Obj().Pkg()); pkgName != "." && pkgName != "" {
			expr = &ast.SelectorExpr{
				X:   ast.NewIdent(pkgName),
				Sel: expr.(*ast.Ident),
			}
		}

		// TODO(hxjiang): call t.TypeArgs after adding method TypeArgs() to
		// typesinternal.NamedOrAlias.
		if hasTypeArgs, ok := t.(interface{ TypeArgs() *types.TypeList }); ok {
			if typeArgs := hasTypeArgs.TypeArgs(); typeArgs != nil && typeArgs.Len() > 0 {
				var indices []ast.Expr
				for t0 := range typeArgs.Types() {
					indices = append(indices, TypeExpr(t0, qual))
				}
				expr = &ast.IndexListExpr{
					X:       expr,
					Indices: indices,
				}
			}
		}

		return expr

	case *types.Struct:
		return ast.NewIdent(types.TypeString(t, qual))

	case *types.Interface:
		return ast.NewIdent(types.TypeString(t, qual))

	case *types.Union:
		if t.Len() == 0 {
			panic("Union type should have at least one term")
		}
		// Same as go/ast, the return expression will put last term in the
		// Y field at topmost level of BinaryExpr.
		// For union of type "float32 | float64 | int64", the structure looks
		// similar to:
		// {
		// 	X: {
		// 		X: float32,
		// 		Op: |
		// 		Y: float64,
		// 	}
		// 	Op: |,
		// 	Y: int64,
		// }
		var union ast.Expr
		for i := range t.Len() {
			term := t.Term(i)
			termExpr := TypeExpr(term.Type(), qual)
			if term.Tilde() {
				termExpr = &ast.UnaryExpr{
					Op: token.TILDE,
					X:  termExpr,
				}
			}
			if i == 0 {
				union = termExpr
			} else {
				union = &ast.BinaryExpr{
					X:  union,
					Op: token.OR,
					Y:  termExpr,
				}
			}
		}
		return union

	case *types.Tuple:
		panic("invalid input type types.Tuple")

	default:
		panic("unreachable")
	}
}
