// Copyright 2025 The Go Authors. All rights reserved.
// Use of this source code is governed by a BSD-style
// license that can be found in the LICENSE file.

package typesinternal

import (
	"go/types"
	"slices"
)

// IsTypeNamed reports whether t is (or is an alias for) a
// package-level defined type with the given package path and one of
// the given names. It returns false if t is nil.
//
// This function avoids allocating the concatenation of "pkg.Name",
// which is important for the performance of syntax matching.
func IsTypeNamed(t types.Type, pkgPath string, names ...string) bool {
	if named, ok := types.Unalias(t).(*types.Named); ok {
		tname := named.Obj()
		return tname != nil &&
			IsPackageLevel(tname) &&
			tname.Pkg().Path() == pkgPath &&
			slices.Contains(names, tname.Name())
	}
	return false
}

// IsPointerToNamed reports whether t is (or is an alias for) a pointer to a
// package-level defined type with the given package path and one of the given
// names. It returns false if t is not a pointer type.
func IsPointerToNamed(t types.Type, pkgPath string, names ...string) bool {
	r := Unpointer(t)
	if r == t {
		return false
	}
	return IsTypeNamed(r, pkgPath, names...)
}

// IsFunctionNamed reports whether obj is a package-level function
// defined in the given package and has one of the given names.
// It returns false if obj is nil.
//
// This function avoids allocating the concatenation of "pkg.Name",
// which is important for the performance of syntax matching.
func IsFunctionNamed(obj types.Object, pkgPath string, names ...string) bool {
	f, ok := obj.(*types.Func)
	return ok &&
		IsPackageLevel(obj) &&
		f.Pkg().Path() == pkgPath &&
		f.Signature().Recv() == nil &&
		slices.Contains(names, f.Name())
}

// IsMethodNamed reports whether obj is a method defined on a
// package-level type with the given package and type name, and has
// one of the given names. It returns false if obj is nil.
//
// This function avoids allocating the concatenation of "pkg.TypeName.Name",
// which is important for the performance of syntax matching.
func IsMethodNamed(obj types.Object, pkgPath string, typeName string, names ...string) bool {
	if fn, ok := obj.(*types.Func); ok {
		if recv := fn.Signature().Recv(); recv != nil {
			_, T := ReceiverNamed(recv)
			return T != nil &&
				IsTypeNamed(T, pkgPath, typeName) &&
				slices.Contains(names, fn.Name())
		}
	}
	return false
}
