// Copyright 2018 The Go Authors. All rights reserved.
// Use of this source code is governed by a BSD-style
// license that can be found in the LICENSE file.

package typesinternal

import (
	"fmt"
	"go/ast"
	"go/types"
)

// CallKind describes the function position of an [*ast.CallExpr].
type CallKind int

const (
	CallStatic     CallKind = iota // static call to known function
	CallInterface                  // dynamic call through an interface method
	CallDynamic                    // dynamic call of a func value
	CallBuiltin                    // call to a builtin function
	CallConversion                 // a conversion (not a call)
)

var callKindNames = []string{
	"CallStatic",
	"CallInterface",
	"CallDynamic",
	"CallBuiltin",
	"CallConversion",
}

func (k CallKind) String() string {
	if i := int(k); i >= 0 && i < len(callKindNames) {
		return callKindNames[i]
	}
	return fmt.Sprintf("typeutil.CallKind(%d)", k)
}

// ClassifyCall classifies the function position of a call expression ([*ast.CallExpr]).
// It distinguishes among true function calls, calls to builtins, and type conversions,
// and further classifies function calls as static calls (where the function is known),
// dynamic interface calls, and other dynamic calls.
//
// For the declarations:
//
//	func f() {}
//	func g[T any]() {}
//	var v func()
//	var s []func()
//	type I interface { M() }
//	var i I
//
// ClassifyCall returns the following:
//
//	f()           CallStatic
//	g[int]()      CallStatic
//	i.M()         CallInterface
//	min(1, 2)     CallBuiltin
//	v()           CallDynamic
//	s[0]()        CallDynamic
//	int(x)        CallConversion
//	[]byte("")    CallConversion
func ClassifyCall(info *types.Info, call *ast.CallExpr) CallKind {
	if info.Types == nil {
		panic("ClassifyCall: info.Types is nil")
	}
	tv := info.Types[call.Fun]
	if tv.IsType() {
		return CallConversion
	}
	if tv.IsBuiltin() {
		return CallBuiltin
	}
	id := UsedIdent(info, call.Fun)
	if id == nil {
		return CallDynamic
	}
	obj := info.Uses[id]
	// Classify the call by the type of the object, if any.
	switch obj := obj.(type) {
	case *types.Func:
		if isInterfaceMethod(obj) {
			return CallInterface
		}
		return CallStatic
	default:
		return CallDynamic
	}
}

// UsedIdent returns the identifier such that info.Uses[UsedIdent(info, e)]
// is the [types.Object] used by e, if any.
//
// If e is one of various forms of reference:
//
//	f, c, v, T           lexical reference
//	pkg.X                qualified identifier
//	f[T] or pkg.F[K,V]   instantiations of the above kinds
//	expr.f               field or method value selector
//	T.f                  method expression selector
//
// UsedIdent returns the identifier whose is associated value in [types.Info.Uses]
// is the object to which it refers.
//
// For the declarations:
//
//	func F[T any] {...}
//	type I interface { M() }
//	var (
//	  x int
//	  s struct { f  int }
//	  a []int
//	  i I
//	)
//
// UsedIdent returns the following:
//
//	Expr          UsedIdent
//	x             x
//	s.f           f
//	F[int]        F
//	i.M           M
//	I.M           M
//	min           min
//	int           int
//	1             nil
//	a[0]          nil
//	[]byte        nil
//
// Note: if e is an instantiated function or method, UsedIdent returns
// the corresponding generic function or method on the generic type.
func UsedIdent(info *types.Info, e ast.Expr) *ast.Ident {
	if info.Types == nil || info.Uses == nil {
		panic("one of info.Types or info.Uses is nil; both must be populated")
	}
	// Look through type instantiation if necessary.
	switch d := ast.Unparen(e).(type) {
	case *ast.IndexExpr:
		if info.Types[d.Index].IsType() {
			e = d.X
		}
	case *ast.IndexListExpr:
		e = d.X
	}

	switch e := ast.Unparen(e).(type) {
	// info.Uses always has the object we want, even for selector expressions.
	// We don't need info.Selections.
	// See go/types/recording.go:recordSelection.
	case *ast.Ident:
		return e
	case *ast.SelectorExpr:
		return e.Sel
	}
	return nil
}

// See [golang.org/x/tools/go/types/typeutil.Callee].
func Callee(info *types.Info, call *ast.CallExpr) types.Object {
	id := UsedIdent(info, call.Fun)
	if id == nil {
		return nil
	}
	obj := info.Uses[id]
	if obj == nil {
		return nil
	}
	if _, ok := obj.(*types.TypeName); ok {
		return nil
	}
	if fn, ok := obj.(*types.Func); ok {
		return fn.Origin()
	}
	return obj
}

// See [golang.org/x/tools/go/types/typeutil.StaticCallee].
func StaticCallee(info *types.Info, call *ast.CallExpr) *types.Func {
	id := UsedIdent(info, call.Fun)
	if id == nil {
		return nil
	}
	obj := info.Uses[id]
	if obj == nil {
		return nil
	}
	fn, _ := obj.(*types.Func)
	if fn == nil || isInterfaceMethod(fn) {
		return nil
	}
	return fn.Origin()
}

// isInterfaceMethod reports whether its argument is a method of an interface.
func isInterfaceMethod(f *types.Func) bool {
	recv := f.Signature().Recv()
	return recv != nil && types.IsInterface(recv.Type())
}
