// Copyright 2024 The Go Authors. All rights reserved.
// Use of this source code is governed by a BSD-style
// license that can be found in the LICENSE file.

package typesinternal

import (
	"go/types"

	"decverif/xt/stdlib"
	"decverif/xt/versions"
)

// TooNewStdSymbols computes the set of package-level symbols
// exported by pkg that are not available at the specified version.
//
// The pkg is allowed to contain type errors.
func TooNewStdSymbols(pkg *types.Package, version string) map[types.Object]stdlib.Symbol {
	disallowed := make(map[types.Object]stdlib.Symbol)

	// Some symbols are accessible before their release but
	// only with specific build tags unknown to us here.
	// Avoid false positives in such cases.
	if pkg.Path() == "testing/synctest" && versions.AtLeast(version, "go1.24") {
		// requires go1.24 && goexperiment.synctest || go1.25
		return disallowed
	}
	if (pkg.Path() == "encoding/json/v2" || pkg.Path() == "encoding/json/jsontext") && versions.AtLeast(version, "go1.25") {
		// requires go1.25 && goexperiment.jsonv2 || go1.27
		return disallowed
	}

	// Pass 1: package-level symbols.
	symbols := stdlib.PackageSymbols[pkg.Path()]
	for _, sym := range symbols {
		if versions.Before(version, sym.Version.String()) {
			switch sym.Kind {
			case stdlib.Func, stdlib.Var, stdlib.Const, stdlib.Type:
				disallowed[pkg.Scope().Lookup(sym.Name)] = sym
			}
		}
	}

	// Pass 2: fields and methods.
	//
	// We allow fields and methods if their associated type is
	// disallowed, as otherwise we would report false positives
	// for compatibility shims. Consider:
	//
	//   //go:build go1.22
	//   type T struct { F std.Real } // correct new API
	//
	//   //go:build !go1.22
	//   type T struct { F fake } // shim
	//   type fake struct { ... }
	//   func (fake) M () {}
	//
	// These alternative declarations of T use either the std.Real
	// type, introduced in go1.22, or a fake type, for the field
	// F. (The fakery could be arbitrarily deep, involving more
	// nested fields and methods than are shown here.) Clients
	// that use the compatibility shim T will compile with any
	// version of go, whether older or newer than go1.22, but only
	// the newer version will use the std.Real implementation.
	//
	// Now consider a reference to method M in new(T).F.M() in a
	// module that requires a minimum of go1.21. The analysis may
	// occur using a version of Go higher than 1.21, selecting the
	// first version of T, so the method M is Real.M. This would
	// spuriously cause the analyzer to report a reference to a
	// too-new symbol even though this expression compiles just
	// fine (with the fake implementation) using go1.21.
	var noSym stdlib.Symbol
	depth := make(map[types.Object]int)
	for _, sym := range symbols {
		if !versions.Before(version, sym.Version.String()) {
			continue // allowed
		}

		var obj types.Object
		var indices []int
		switch sym.Kind {
		case stdlib.Field:
			typename, name := sym.SplitField()
			if t := pkg.Scope().Lookup(typename); t != nil && disallowed[t] == noSym {
				obj, indices, _ = types.LookupFieldOrMethod(t.Type(), false, pkg, name)
			}

		case stdlib.Method:
			ptr, recvname, name := sym.SplitMethod()
			if t := pkg.Scope().Lookup(recvname); t != nil && disallowed[t] == noSym {
				obj, indices, _ = types.LookupFieldOrMethod(t.Type(), ptr, pkg, name)
			}
		}
		if obj != nil {
			// In the presence of embedding, two or more "pkg.T.name"
			// strings may map to the same types.Object.
			// Prefer the Object with the shorter index path.
			if min, ok := depth[obj]; !ok || len(indices) < min {
				depth[obj] = len(indices)
				disallowed[obj] = sym
			}
		}
	}

	return disallowed
}
