// Copyright 2024 The Go Authors. All rights reserved.
// Use of this source code is governed by a BSD-style
// license that can be found in the LICENSE file.

//go:build !go1.25

package typesinternal

import "go/types"

type VarKind uint8

const (
	_          VarKind = iota // (not meaningful)
	PackageVar                // a package-level variable
	LocalVar                  // a local variable
	RecvVar                   // a method receiver variable
	ParamVar                  // a function parameter variable
	ResultVar                 // a function result variable
	FieldVar                  // a struct field
)

func (kind VarKind) String() string {
	return [...]string{
		0:          "VarKind(0)",
		PackageVar: "PackageVar",
		LocalVar:   "LocalVar",
		RecvVar:    "RecvVar",
		ParamVar:   "ParamVar",
		ResultVar:  "ResultVar",
		FieldVar:   "FieldVar",
	}[kind]
}

// GetVarKind returns an invalid VarKind.
func GetVarKind(v *types.Var) VarKind { return 0 }

// SetVarKind has no effect.
func SetVarKind(v *types.Var, kind VarKind) {}
