// Copyright 2025 The Go Authors. All rights reserved.
// Use of this source code is governed by a BSD-style
// license that can be found in the LICENSE file.

package typesinternal

import (
	"go/ast"
	"go/token"
	"go/types"
)

// NoEffects reports whether the expression has no side effects, i.e., it
// does not modify the memory state. This function is conservative: it may
// return false even when the expression has no effect.
func NoEffects(info *types.Info, expr ast.Expr) bool {
	noEffects := true
	ast.Inspect(expr, func(n ast.Node) bool {
		switch v := n.(type) {
		case nil, *ast.Ident, *ast.BasicLit, *ast.BinaryExpr, *ast.ParenExpr,
			*ast.SelectorExpr, *ast.IndexExpr, *ast.SliceExpr, *ast.TypeAssertExpr,
			*ast.StarExpr, *ast.CompositeLit,
			// non-expressions that may appear within expressions
			*ast.KeyValueExpr,
			*ast.FieldList,
			*ast.Field,
			*ast.Ellipsis,
			*ast.IndexListExpr:
			// No effect.

		case *ast.ArrayType,
			*ast.StructType,
			*ast.ChanType,
			*ast.FuncType,
			*ast.MapType,
			*ast.InterfaceType:
			// Type syntax: no effects, recursively.
			// Prune descent.
			return false

		case *ast.UnaryExpr:
			// Channel send <-ch has effects.
			if v.Op == token.ARROW {
				noEffects = false
			}

		case *ast.CallExpr:
			// Type conversion has no effects.
			if !info.Types[v.Fun].IsType() {
				if CallsPureBuiltin(info, v) {
					// A call such as len(e) has no effects of its
					// own, though the subexpression e might.
				} else {
					noEffects = false
				}
			}

		case *ast.FuncLit:
			// A FuncLit has no effects, but do not descend into it.
			return false

		default:
			// All other expressions have effects
			noEffects = false
		}

		return noEffects
	})
	return noEffects
}

// CallsPureBuiltin reports whether call is a call of a built-in
// function that is a pure computation over its operands (analogous to
// a + operator). Because it does not depend on program state, it may
// be evaluated at any point--though not necessarily at multiple
// points (consider new, make).
func CallsPureBuiltin(info *types.Info, call *ast.CallExpr) bool {
	if id, ok := ast.Unparen(call.Fun).(*ast.Ident); ok {
		if b, ok := info.ObjectOf(id).(*types.Builtin); ok {
			switch b.Name() {
			case "len", "cap", "complex", "imag", "real", "make", "new", "max", "min":
				return true
			}
			// Not: append clear close copy delete panic print println recover
		}
	}
	return false
}
