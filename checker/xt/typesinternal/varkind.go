// Copyright 2024 The Go Authors. All rights reserved.
// Use of this source code is governed by a BSD-style
// license that can be found in the LICENSE file.

//go:build go1.25

package typesinternal

import "go/types"

type VarKind = types.VarKind

const (
	PackageVar = types.PackageVar
	LocalVar   = types.LocalVar
	RecvVar    = types.RecvVar
	ParamVar   = types.ParamVar
	ResultVar  = types.ResultVar
	FieldVar   = types.FieldVar
)

func GetVarKind(v *types.Var) VarKind       { return v.Kind() }
func SetVarKind(v *types.Var, kind VarKind) { v.SetKind(kind) }
