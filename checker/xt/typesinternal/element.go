// Copyright 2024 The Go Authors. All rights reserved.
// Use of this source code is governed by a BSD-style
// license that can be found in the LICENSE file.

package typesinternal

import (
	"fmt"
	"go/types"
)

// ForEachElement calls f for type T and each type reachable from its
// type through reflection. It does this by recursively stripping off
// type constructors; in addition, for each named type N, the type *N
// is added to the result as it may have additional methods.
//
// The access argument passed to f indicates whether the type is
// inaccessible to reflection (for example, intermediate tuple types
// or underlying types of named types).
//
// The result of f indicates whether the caller has seen this type
// already, so we can prune the traversal.
//
// methodSetOf abstracts (*typeutil.MethodSetCache).MethodSet,
// avoiding an import cycle.
func ForEachElement(methodSetOf func(types.Type) *types.MethodSet, T types.Type, f func(T types.Type, access bool) bool) {
	var visit func(T types.Type, access bool)
	visit = func(T types.Type, access bool) {
		if f(T, access) {
			return // duplicate; prune descent
		}

		// Recursion over signatures of each method.
		tmset := methodSetOf(T)
		for method := range tmset.Methods() {
			sig := method.Type().(*types.Signature)
			if sig.TypeParams() != nil {
				continue // skip type-parameterized methods
			}

			// It is tempting to call visit(sig, false)
			// but, as noted in golang.org/cl/65450043,
			// the Signature.Recv field is ignored by
			// types.Identical and typeutil.Map, which
			// is confusing at best.
			//
			// More importantly, the true signature rtype
			// reachable from a method using reflection
			// has no receiver but an extra ordinary parameter.
			// For the Read method of io.Reader we want:
			//   func(Reader, []byte) (int, error)
			// but here sig is:
			//   func([]byte) (int, error)
			// with .Recv = Reader (though it is hard to
			// notice because it doesn't affect Signature.String
			// or types.Identical).
			//
			// TODO(adonovan): construct and visit the correct
			// non-method signature with an extra parameter
			// (though since unnamed func types have no methods
			// there is essentially no actual demand for this).
			//
			// TODO(adonovan): document whether or not it is
			// safe to skip non-exported methods (as RTA does).
			visit(sig.Params(), false)  // the Tuple is inaccessible
			visit(sig.Results(), false) // the Tuple is inaccessible
		}

		switch T := T.(type) {
		case *types.Alias:
			visit(types.Unalias(T), access) // emulates the pre-Alias behavior

		case *types.Basic:
			// nop

		case *types.Interface:
			// nop---handled by recursion over method set.

		case *types.Pointer:
			visit(T.Elem(), true)

		case *types.Slice:
			visit(T.Elem(), true)

		case *types.Chan:
			visit(T.Elem(), true)

		case *types.Map:
			visit(T.Key(), true)
			visit(T.Elem(), true)

		case *types.Signature:
			if T.Recv() != nil {
				panic(fmt.Sprintf("Signature %s has Recv %s", T, T.Recv()))
			}
			visit(T.Params(), false)  // the Tuple is inaccessible
			visit(T.Results(), false) // the Tuple is inaccessible

		case *types.Named:
			// A pointer-to-named type can be derived from a named
			// type via reflection.  It may have methods too.
			visit(types.NewPointer(T), true)

			// Consider 'type T struct{S}' where S has methods.
			// Reflection provides no way to get from T to struct{S},
			// only to S, so the method set of struct{S} is unwanted,
			// so mark it inaccessible during recursion.
			visit(T.Underlying(), false) // skip the unnamed type

		case *types.Array:
			visit(T.Elem(), true)

		case *types.Struct:
			for i, n := 0, T.NumFields(); i < n; i++ {
				// TODO(adonovan): document whether or not
				// it is safe to skip non-exported fields.
				visit(T.Field(i).Type(), true)
			}

		case *types.Tuple:
			for i, n := 0, T.Len(); i < n; i++ {
				visit(T.At(i).Type(), true)
			}

		case *types.TypeParam, *types.Union:
			// forEachReachable must not be called on parameterized types.
			panic(fmt.Sprintf("ForEachElement called on type containing %T", T))

		default:
			panic(fmt.Sprintf("ForEachElement called on unexpected type %T", T))
		}
	}
	visit(T, true)
}
