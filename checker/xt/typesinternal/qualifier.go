// Copyright 2024 The Go Authors. All rights reserved.
// Use of this source code is governed by a BSD-style
// license that can be found in the LICENSE file.

package typesinternal

import (
	"go/ast"
	"go/types"
	"strconv"
)

// FileQualifier returns a [types.Qualifier] function that qualifies
// imported symbols appropriately based on the import environment of a given
// file.
// If the same package is imported multiple times, the last appearance is
// recorded.
//
// TODO(adonovan): this function ignores the effect of shadowing. It
// should accept a [token.Pos] and a [types.Info] and compute only the
// set of imports that are not shadowed at that point, analogous to
// [analysis.AddImport]. It could also compute (as a side
// effect) the set of additional imports required to ensure that there
// is an accessible import for each necessary package, making it
// converge even more closely with AddImport.
func FileQualifier(f *ast.File, pkg *types.Package) types.Qualifier {
	// Construct mapping of import paths to their defined names.
	// It is only necessary to look at renaming imports.
	imports := make(map[string]string)
	for _, imp := range f.Imports {
		if imp.Name != nil && imp.Name.Name != "_" {
			path, _ := strconv.Unquote(imp.Path.Value)
			imports[path] = imp.Name.Name
		}
	}

	// Define qualifier to replace full package paths with names of the imports.
	return func(p *types.Package) string {
		if p == nil || p == pkg {
			return ""
		}

		if name, ok := imports[p.Path()]; ok {
			if name == "." {
				return ""
			} else {
				return name
			}
		}

		// If there is no local renaming, fall back to the package name.
		return p.Name()
	}
}
