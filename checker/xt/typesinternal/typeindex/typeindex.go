// Copyright 2025 The Go Authors. All rights reserved.
// Use of this source code is governed by a BSD-style
// license that can be found in the LICENSE file.

// Package typeindex provides an [Index] of type information for a
// package, allowing efficient lookup of, say, whether a given symbol
// is referenced and, if so, where from; or of the [inspector.Cursor] for
// the declaration of a particular [types.Object] symbol.
package typeindex

import (
	"encoding/binary"
	"go/ast"
	"go/types"
	"iter"

	"golang.org/x/tools/go/ast/edge"
	"golang.org/x/tools/go/ast/inspector"
	"golang.org/x/tools/go/types/typeutil"
	"decverif/xt/astutil"
	"decverif/xt/typesinternal"
)

// New constructs an Index for the package of type-annotated syntax
//
// TODO(adonovan): accept a FileSet too?
// We regret not requiring one in inspector.New.
func New(inspect *inspector.Inspector, pkg *types.Package, info *types.Info) *Index {
	ix := &Index{
		inspect:  inspect,
		info:     info,
		packages: make(map[string]*types.Package),
		def:      make(map[types.Object]inspector.Cursor),
		uses:     make(map[types.Object]*uses),
	}

	addPackage := func(pkg2 *types.Package) {
		if pkg2 != nil && pkg2 != pkg {
			ix.packages[pkg2.Path()] = pkg2
		}
	}

	for cur := range inspect.Root().Preorder((*ast.ImportSpec)(nil), (*ast.Ident)(nil)) {
		switch n := cur.Node().(type) {
		case *ast.ImportSpec:
			// Index direct imports, including blank ones.
			if pkgname := info.PkgNameOf(n); pkgname != nil {
				addPackage(pkgname.Imported())
			}

		case *ast.Ident:
			// Index all defining and using identifiers.
			if obj := info.Defs[n]; obj != nil {
				ix.def[obj] = cur
			}

			if obj := info.Uses[n]; obj != nil {
				// Index indirect dependencies (via fields and methods).
				if !typesinternal.IsPackageLevel(obj) {
					addPackage(obj.Pkg())
				}

				for {
					us, ok := ix.uses[obj]
					if !ok {
						us = &uses{}
						us.code = us.initial[:0]
						ix.uses[obj] = us
					}
					delta := cur.Index() - us.last
					if delta < 0 {
						panic("non-monotonic")
					}
					us.code = binary.AppendUvarint(us.code, uint64(delta))
					us.last = cur.Index()

					// If n is a selection of a field or method of an instantiated
					// type, also record a use of the generic field or method.
					obj, ok = objectOrigin(obj)
					if !ok {
						break
					}
				}
			}
		}
	}
	return ix
}

// objectOrigin returns the generic object for obj if it is a field or
// method of an instantied type; zero otherwise.
//
// (This operation is appropriate only for selections.
// Lexically resolved references always resolve to the generic.
// Although Named and Alias types also use Origin to express
// an instance/generic distinction, that's in the domain
// of Types; their TypeName objects always refer to the generic.)
func objectOrigin(obj types.Object) (types.Object, bool) {
	var origin types.Object
	switch obj := obj.(type) {
	case *types.Func:
		if obj.Signature().Recv() != nil {
			origin = obj.Origin() // G[int].method -> G[T].method
		}
	case *types.Var:
		if obj.IsField() {
			origin = obj.Origin() // G[int].field  -> G[T].field
		}
	}
	if origin != nil && origin != obj {
		return origin, true
	}
	return nil, false
}

// An Index holds an index mapping [types.Object] symbols to their syntax.
// In effect, it is the inverse of [types.Info].
type Index struct {
	inspect  *inspector.Inspector
	info     *types.Info
	packages map[string]*types.Package         // packages of all symbols referenced from this package
	def      map[types.Object]inspector.Cursor // Cursor of *ast.Ident that defines the Object
	uses     map[types.Object]*uses            // Cursors of *ast.Idents that use the Object
}

// A uses holds the list of Cursors of Idents that use a given symbol.
//
// The Uses map of [types.Info] is substantial, so it pays to compress
// its inverse mapping here, both in space and in CPU due to reduced
// allocation. A Cursor is 2 words; a Cursor.Index is 4 bytes; but
// since Cursors are naturally delivered in ascending order, we can
// use varint-encoded deltas at a cost of only ~1.7-2.2 bytes per use.
//
// Many variables have only one or two uses, so their encoded uses may
// fit in the 4 bytes of initial, saving further CPU and space
// essentially for free since the struct's size class is 4 words.
type uses struct {
	code    []byte  // varint-encoded deltas of successive Cursor.Index values
	last    int32   // most recent Cursor.Index value; used during encoding
	initial [4]byte // use slack in size class as initial space for code
}

// Uses returns the sequence of Cursors of [*ast.Ident]s in this package
// that refer to obj. If obj is nil, the sequence is empty.
//
// Uses, unlike the Uses field of [types.Info], records additional
// entries mapping fields and methods of generic types to references
// through their corresponding instantiated objects.
func (ix *Index) Uses(obj types.Object) iter.Seq[inspector.Cursor] {
	return func(yield func(inspector.Cursor) bool) {
		if uses := ix.uses[obj]; uses != nil {
			var last int32
			for code := uses.code; len(code) > 0; {
				delta, n := binary.Uvarint(code)
				last += int32(delta)
				if !yield(ix.inspect.At(last)) {
					return
				}
				code = code[n:]
			}
		}
	}
}

// Used reports whether any of the specified objects are used, in
// other words, obj != nil && Uses(obj) is non-empty for some obj in objs.
//
// (This treatment of nil allows Used to be called directly on the
// result of [Index.Object] so that analyzers can conveniently skip
// packages that don't use a symbol of interest.)
func (ix *Index) Used(objs ...types.Object) bool {
	for _, obj := range objs {
		if obj != nil && ix.uses[obj] != nil {
			return true
		}
	}
	return false
}

// Def returns the Cursor of the [*ast.Ident] in this package
// that declares the specified object, if any.
func (ix *Index) Def(obj types.Object) (inspector.Cursor, bool) {
	cur, ok := ix.def[obj]
	return cur, ok
}

// Package returns the package of the specified path,
// or nil if it is not referenced from this package.
func (ix *Index) Package(path string) *types.Package {
	return ix.packages[path]
}

// Object returns the package-level symbol name within the package of
// the specified path, or nil if the package or symbol does not exist
// or is not visible from this package.
func (ix *Index) Object(path, name string) types.Object {
	if pkg := ix.Package(path); pkg != nil {
		return pkg.Scope().Lookup(name)
	}
	return nil
}

// Selection returns the named method or field belonging to the
// package-level type returned by Object(path, typename).
func (ix *Index) Selection(path, typename, name string) types.Object {
	if obj := ix.Object(path, typename); obj != nil {
		if tname, ok := obj.(*types.TypeName); ok {
			obj, _, _ := types.LookupFieldOrMethod(tname.Type(), true, obj.Pkg(), name)
			return obj
		}
	}
	return nil
}

// Calls returns the sequence of cursors for *ast.CallExpr nodes that
// call the specified callee, as defined by [typeutil.Callee].
// If callee is nil, the sequence is empty.
func (ix *Index) Calls(callee types.Object) iter.Seq[inspector.Cursor] {
	return func(yield func(inspector.Cursor) bool) {
		for cur := range ix.Uses(callee) {
			// The call may be of the form f() or x.f(),
			// optionally with parens; ascend from f to call.
			// See logic in [typesinternal.UsedIdent], to which this is dual.
			//
			// It is tempting but wrong to use the first
			// CallExpr ancestor: we have to make sure the
			// ident is in the CallExpr.Fun position, otherwise
			// f(f, f) would have two spurious matches.
			// Avoiding Enclosing is also significantly faster.

			// inverse unparen: f -> (f)
			cur = astutil.UnparenEnclosingCursor(cur)

			// ascend selector (or qualified identifier): f -> x.f
			if cur.ParentEdgeKind() == edge.SelectorExpr_Sel {
				cur = astutil.UnparenEnclosingCursor(cur.Parent())
			}

			// ascend typeparams: f -> f[T]; f -> f[T1, T2]
			if ek := cur.ParentEdgeKind(); ek == edge.IndexExpr_X || ek == edge.IndexListExpr_X {
				cur = astutil.UnparenEnclosingCursor(cur.Parent())
			}

			// ascend from f or x.f to call
			if cur.ParentEdgeKind() == edge.CallExpr_Fun {
				curCall := cur.Parent()
				call := curCall.Node().(*ast.CallExpr)
				if typeutil.Callee(ix.info, call) == callee {
					if !yield(curCall) {
						return
					}
				}
			}
		}
	}
}
