// Copyright 2025 The Go Authors. All rights reserved.
// Use of this source code is governed by a BSD-style
// license that can be found in the LICENSE file.

package moreiters

import "iter"

// First returns the first value of seq and true.
// If seq is empty, it returns the zero value of T and false.
func First[T any](seq iter.Seq[T]) (z T, ok bool) {
	for t := range seq {
		return t, true
	}
	return z, false
}

// Contains reports whether x is an element of the sequence seq.
func Contains[T comparable](seq iter.Seq[T], x T) bool {
	for cand := range seq {
		if cand == x {
			return true
		}
	}
	return false
}

// Every reports whether every pred(t) for t in seq returns true,
// stopping at the first false element.
func Every[T any](seq iter.Seq[T], pred func(T) bool) bool {
	for t := range seq {
		if !pred(t) {
			return false
		}
	}
	return true
}

// Any reports whether any pred(t) for t in seq returns true.
func Any[T any](seq iter.Seq[T], pred func(T) bool) bool {
	for t := range seq {
		if pred(t) {
			return true
		}
	}
	return false
}

// Len returns the number of elements in the sequence (by iterating).
func Len[T any](seq iter.Seq[T]) (n int) {
	for range seq {
		n++
	}
	return
}

// Empty reports whether the sequence contains no elements.
func Empty[T any](seq iter.Seq[T]) bool {
	for range seq {
		return false
	}
	return true
}
