// Copyright 2023 The Go Authors. All rights reserved.
// Use of this source code is governed by a BSD-style
// license that can be found in the LICENSE file.

// This is a fork of internal/gover for use by x/tools until
// go1.21 and earlier are no longer supported by x/tools.

package versions

import "strings"

// A gover is a parsed Go gover: major[.Minor[.Patch]][kind[pre]]
// The numbers are the original decimal strings to avoid integer overflows
// and since there is very little actual math. (Probably overflow doesn't matter in practice,
// but at the time this code was written, there was an existing test that used
// go1.99999999999, which does not fit in an int on 32-bit platforms.
// The "big decimal" representation avoids the problem entirely.)
type gover struct {
	major string // decimal
	minor string // decimal or ""
	patch string // decimal or ""
	kind  string // "", "alpha", "beta", "rc"
	pre   string // decimal or ""
}

// compare returns -1, 0, or +1 depending on whether
// x < y, x == y, or x > y, interpreted as toolchain versions.
// The versions x and y must not begin with a "go" prefix: just "1.21" not "go1.21".
// Malformed versions compare less than well-formed versions and equal to each other.
// The language version "1.21" compares less than the release candidate and eventual releases "1.21rc1" and "1.21.0".
func compare(x, y string) int {
	vx := parse(x)
	vy := parse(y)

	if c := cmpInt(vx.major, vy.major); c != 0 {
		return c
	}
	if c := cmpInt(vx.minor, vy.minor); c != 0 {
		return c
	}
	if c := cmpInt(vx.patch, vy.patch); c != 0 {
		return c
	}
	if c := strings.Compare(vx.kind, vy.kind); c != 0 { // "" < alpha < beta < rc
		return c
	}
	if c := cmpInt(vx.pre, vy.pre); c != 0 {
		return c
	}
	return 0
}

// lang returns the Go language version. For example, lang("1.2.3") == "1.2".
func lang(x string) string {
	v := parse(x)
	if v.minor == "" || v.major == "1" && v.minor == "0" {
		return v.major
	}
	return v.major + "." + v.minor
}

// isValid reports whether the version x is valid.
func isValid(x string) bool {
	return parse(x) != gover{}
}

// parse parses the Go version string x into a version.
// It returns the zero version if x is malformed.
func parse(x string) gover {
	var v gover

	// Parse major version.
	var ok bool
	v.major, x, ok = cutInt(x)
	if !ok {
		return gover{}
	}
	if x == "" {
		// Interpret "1" as "1.0.0".
		v.minor = "0"
		v.patch = "0"
		return v
	}

	// Parse . before minor version.
	if x[0] != '.' {
		return gover{}
	}

	// Parse minor version.
	v.minor, x, ok = cutInt(x[1:])
	if !ok {
		return gover{}
	}
	if x == "" {
		// Patch missing is same as "0" for older versions.
		// Starting in Go 1.21, patch missing is different from explicit .0.
		if cmpInt(v.minor, "21") < 0 {
			v.patch = "0"
		}
		return v
	}

	// Parse patch if present.
	if x[0] == '.' {
		v.patch, x, ok = cutInt(x[1:])
		if !ok || x != "" {
			// Note that we are disallowing prereleases (alpha, beta, rc) for patch releases here (x != "").
			// Allowing them would be a bit confusing because we already have:
			//	1.21 < 1.21rc1
			// But a prerelease of a patch would have the opposite effect:
			//	1.21.3rc1 < 1.21.3
			// We've never needed them before, so let's not start now.
			return gover{}
		}
		return v
	}

	// Parse prerelease.
	i := 0
	for i < len(x) && (x[i] < '0' || '9' < x[i]) {
		if x[i] < 'a' || 'z' < x[i] {
			return gover{}
		}
		i++
	}
	if i == 0 {
		return gover{}
	}
	v.kind, x = x[:i], x[i:]
	if x == "" {
		return v
	}
	v.pre, x, ok = cutInt(x)
	if !ok || x != "" {
		return gover{}
	}

	return v
}

// cutInt scans the leading decimal number at the start of x to an integer
// and returns that value and the rest of the string.
func cutInt(x string) (n, rest string, ok bool) {
	i := 0
	for i < len(x) && '0' <= x[i] && x[i] <= '9' {
		i++
	}
	if i == 0 || x[0] == '0' && i != 1 { // no digits or unnecessary leading zero
		return "", "", false
	}
	return x[:i], x[i:], true
}

// cmpInt returns cmp.Compare(x, y) interpreting x and y as decimal numbers.
// (Copied from golang.org/x/mod/semver's compareInt.)
func cmpInt(x, y string) int {
	if x == y {
		return 0
	}
	if len(x) < len(y) {
		return -1
	}
	if len(x) > len(y) {
		return +1
	}
	if x < y {
		return -1
	} else {
		return +1
	}
}
