// Copyright 2023 The Go Authors. All rights reserved.
// Use of this source code is governed by a BSD-style
// license that can be found in the LICENSE file.

package versions

import (
	"go/ast"
	"go/types"
)

// FileVersion returns a file's Go version.
// The reported version is an unknown Future version if a
// version cannot be determined.
func FileVersion(info *types.Info, file *ast.File) string {
	// In tools built with Go >= 1.22, the Go version of a file
	// follow a cascades of sources:
	// 1) types.Info.FileVersion, which follows the cascade:
	//   1.a) file version (ast.File.GoVersion),
	//   1.b) the package version (types.Config.GoVersion), or
	// 2) is some unknown Future version.
	//
	// File versions require a valid package version to be provided to types
	// in Config.GoVersion. Config.GoVersion is either from the package's module
	// or the toolchain (go run). This value should be provided by go/packages
	// or unitchecker.Config.GoVersion.
	if v := info.FileVersions[file]; IsValid(v) {
		return v
	}
	// Note: we could instead return runtime.Version() [if valid].
	// This would act as a max version on what a tool can support.
	return Future
}
