// Copyright 2023 The Go Authors. All rights reserved.
// Use of this source code is governed by a BSD-style
// license that can be found in the LICENSE file.

package versions

import (
	"strings"
)

// Note: If we use build tags to use go/versions when go >=1.22,
// we run into go.dev/issue/53737. Under some operations users would see an
// import of "go/versions" even if they would not compile the file.
// For example, during `go get -u ./...` (go.dev/issue/64490) we do not try to include
// For this reason, this library just a clone of go/versions for the moment.

// Lang returns the Go language version for version x.
// If x is not a valid version, Lang returns the empty string.
// For example:
//
//	Lang("go1.21rc2") = "go1.21"
//	Lang("go1.21.2") = "go1.21"
//	Lang("go1.21") = "go1.21"
//	Lang("go1") = "go1"
//	Lang("bad") = ""
//	Lang("1.21") = ""
func Lang(x string) string {
	v := lang(stripGo(x))
	if v == "" {
		return ""
	}
	return x[:2+len(v)] // "go"+v without allocation
}

// Compare returns -1, 0, or +1 depending on whether
// x < y, x == y, or x > y, interpreted as Go versions.
// The versions x and y must begin with a "go" prefix: "go1.21" not "1.21".
// Invalid versions, including the empty string, compare less than
// valid versions and equal to each other.
// The language version "go1.21" compares less than the
// release candidate and eventual releases "go1.21rc1" and "go1.21.0".
// Custom toolchain suffixes are ignored during comparison:
// "go1.21.0" and "go1.21.0-bigcorp" are equal.
func Compare(x, y string) int { return compare(stripGo(x), stripGo(y)) }

// IsValid reports whether the version x is valid.
func IsValid(x string) bool { return isValid(stripGo(x)) }

// stripGo converts from a "go1.21" version to a "1.21" version.
// If v does not start with "go", stripGo returns the empty string (a known invalid version).
func stripGo(v string) string {
	v, _, _ = strings.Cut(v, "-") // strip -bigcorp suffix.
	if len(v) < 2 || v[:2] != "go" {
		return ""
	}
	return v[2:]
}
