// Copyright 2023 The Go Authors. All rights reserved.
// Use of this source code is governed by a BSD-style
// license that can be found in the LICENSE file.

package versions

// This file contains predicates for working with file versions to
// decide when a tool should consider a language feature enabled.

// named constants, to avoid misspelling
const (
	Go1_17 = "go1.17"
	Go1_18 = "go1.18"
	Go1_19 = "go1.19"
	Go1_20 = "go1.20"
	Go1_21 = "go1.21"
	Go1_22 = "go1.22"
	Go1_23 = "go1.23"
	Go1_24 = "go1.24"
	Go1_25 = "go1.25"
	Go1_26 = "go1.26"
	Go1_27 = "go1.27"
)

// Future is an invalid unknown Go version sometime in the future.
// Do not use directly with Compare.
const Future = ""

// AtLeast reports whether the file version v comes after a Go release.
//
// Use this predicate to enable a behavior once a certain Go release
// has happened (and stays enabled in the future).
func AtLeast(v, release string) bool {
	if v == Future {
		return true // an unknown future version is always after y.
	}
	return Compare(Lang(v), Lang(release)) >= 0
}

// Before reports whether the file version v is strictly before a Go release.
//
// Use this predicate to disable a behavior once a certain Go release
// has happened (and stays enabled in the future).
func Before(v, release string) bool {
	if v == Future {
		return false // an unknown future version happens after y.
	}
	return Compare(Lang(v), Lang(release)) < 0
}
