// Package normalize undoes helper extraction before the rules look at a tree.
//
// The rules are written against functions the pinned tree has (anchors by construct name, with
// fingerprint aliasing for renames). A refactoring that moves a block of such a function into a
// new unexported helper leaves behaviour unchanged but splits what a rule wants to see in one
// flow graph over two. This pass inlines every call of a function that the pinned tree does not
// know (new name, no pinned fingerprint) back into its callers, at source level, with the
// inliner of golang.org/x/tools (copied under decverif/xt), and hands the result to the loader
// as an overlay. The inliner is semantics-preserving by construction (it refuses or falls back
// to a function literal where a plain substitution would change evaluation order or effects).
// Nothing is executed.
package normalize

import (
	"bytes"
	"fmt"
	"go/ast"
	"go/format"
	"go/parser"
	"go/token"
	"go/types"
	"os"
	"sort"

	"golang.org/x/tools/go/packages"
	"golang.org/x/tools/go/types/typeutil"

	"decverif/xt/refactor/inline"
)

// OneRound inlines, in every file of pkgs, at most one call of a function for which isNew holds
// (the first in source order) and returns the new contents of the files it changed.
func OneRound(pkgs []*packages.Package, isNew func(*types.Func) bool, overlay map[string][]byte) (changed map[string][]byte, notes []string, err error) {
	changed = map[string][]byte{}
	content := func(fset *token.FileSet, f *ast.File) ([]byte, string, error) {
		name := fset.File(f.Pos()).Name()
		if b, ok := overlay[name]; ok {
			return b, name, nil
		}
		b, err := os.ReadFile(name)
		return b, name, err
	}
	// declarations of the new functions
	type declInfo struct {
		decl *ast.FuncDecl
		pkg  *packages.Package
		file *ast.File
	}
	decls := map[*types.Func]declInfo{}
	for _, p := range pkgs {
		for _, f := range p.Syntax {
			for _, d := range f.Decls {
				fd, ok := d.(*ast.FuncDecl)
				if !ok || fd.Body == nil {
					continue
				}
				if obj, ok := p.TypesInfo.Defs[fd.Name].(*types.Func); ok && isNew(obj) {
					decls[obj] = declInfo{fd, p, f}
				}
			}
		}
	}
	if len(decls) == 0 {
		return nil, nil, nil
	}
	callees := map[*types.Func]*inline.Callee{}
	for _, p := range pkgs {
		for _, f := range p.Syntax {
			// first call of a new function in this file that can be inlined (a call that cannot —
			// inside an expression and the helper has several returns, say — is passed over: the
			// other calls of the same helper may still be statements of their own)
			failed := map[token.Pos]bool{}
		retry:
			for tries := 0; tries < 64; tries++ {
				var target *ast.CallExpr
				var tfn *types.Func
				ast.Inspect(f, func(n ast.Node) bool {
					if target != nil {
						return false
					}
					call, ok := n.(*ast.CallExpr)
					if !ok {
						return true
					}
					if failed[call.Pos()] {
						return true
					}
					fn := typeutil.StaticCallee(p.TypesInfo, call)
					if fn == nil {
						return true
					}
					if _, ok := decls[fn]; ok {
						target, tfn = call, fn
						return false
					}
					return true
				})
				if target == nil {
					break retry
				}
				di := decls[tfn]
				// not a recursive call
				if di.file == f && target.Pos() >= di.decl.Pos() && target.End() <= di.decl.End() {
					failed[target.Pos()] = true
					continue retry
				}
				callee := callees[tfn]
				if callee == nil {
					cc, _, err := content(di.pkg.Fset, di.file)
					if err != nil {
						return nil, nil, err
					}
					callee, err = inline.AnalyzeCallee(func(string, ...any) {}, di.pkg.Fset, di.pkg.Types, di.pkg.TypesInfo, di.decl, cc)
					if err != nil {
						notes = append(notes, fmt.Sprintf("%s: not inlined (%v)", tfn.Name(), err))
						delete(decls, tfn)
						continue retry
					}
					callees[tfn] = callee
				}
				src, name, err := content(p.Fset, f)
				if err != nil {
					return nil, nil, err
				}
				caller := &inline.Caller{Fset: p.Fset, Types: p.Types, Info: p.TypesInfo, File: f, Call: target}
				res, err := inline.Inline(caller, callee, &inline.Options{Recover: true})
				if err != nil {
					notes = append(notes, fmt.Sprintf("%s: call at %s not inlined (%v)", tfn.Name(), p.Fset.Position(target.Pos()), err))
					failed[target.Pos()] = true
					continue retry
				}
				// apply the edits (sorted, non-overlapping) to the file content
				edits := res.Edits
				sort.Slice(edits, func(i, j int) bool { return edits[i].Pos < edits[j].Pos })
				tf := p.Fset.File(f.Pos())
				var out bytes.Buffer
				last := 0
				for _, e := range edits {
					s, en := tf.Offset(e.Pos), tf.Offset(e.End)
					if s < last || en < s || en > len(src) {
						return nil, nil, fmt.Errorf("inliner returned overlapping edits for %s", name)
					}
					out.Write(src[last:s])
					out.Write(e.NewText)
					last = en
				}
				out.Write(src[last:])
				how := "substituted"
				if res.Literalized {
					// a helper with several returns comes back as a function literal called on the
					// spot, which is no closer to the original shape than the call was. Where the call
					// is a statement of its own (x, err = h(..), x, err := h(..), return h(..), h(..))
					// the literal is opened up: parameters bound in a block, `return` turned into an
					// assignment to result temporaries and a break out of a labelled switch.
					flat, ok := openLiteral(out.Bytes(), name)
					if !ok {
						notes = append(notes, fmt.Sprintf("%s: left as a call at %s (the inliner needs a function literal there and the call is not a statement of its own)", tfn.Name(), p.Fset.Position(target.Pos())))
						failed[target.Pos()] = true
						continue retry
					}
					out.Reset()
					out.Write(flat)
					how = "opened up (several returns)"
				}
				changed[name] = out.Bytes()
				notes = append(notes, fmt.Sprintf("%s inlined into its caller at %s (%s)", tfn.Name(), p.Fset.Position(target.Pos()), how))
				break retry
			}
		}
	}
	return changed, notes, nil
}

// openLiteral finds, in src, the statement whose expression is a function literal called on the
// spot — func(params) results { body }(args) — and replaces it by straight code:
//
//	var dvOut1 T1; var dvOut2 T2
//	{
//		p1, p2 := a1, a2
//		var r1 T1; var r2 T2            (the literal's results, named or not)
//	dvL: switch { default: body' }      (return X, Y  =>  r1, r2 = X, Y; break dvL)
//		dvOut1, dvOut2 = r1, r2
//	}
//	lhs... = dvOut1, dvOut2             (or :=, or return)
//
// It gives up (ok=false) when there is not exactly one such call, when it is not the whole
// right-hand side of a statement in a statement list, or when the body defers or recovers.
func openLiteral(src []byte, filename string) ([]byte, bool) {
	fset := token.NewFileSet()
	f, err := parser.ParseFile(fset, filename, src, parser.ParseComments)
	if err != nil {
		return nil, false
	}
	// names introduced into the caller's scope are numbered by opening (two helpers opened in
	// one block, one label per function)
	uniq := fmt.Sprintf("%c_", 'a'+bytes.Count(src, []byte("dvL"))%26)
	if bytes.Count(src, []byte("dvL")) >= 26 {
		uniq = fmt.Sprintf("n%d_", bytes.Count(src, []byte("dvL")))
	}
	// the literal call and the statement list that holds its statement
	var lit *ast.FuncLit
	var call *ast.CallExpr
	n := 0
	// (a deferred or spawned literal — defer func() { … }() — is the program's own, not the
	// inliner's: those are left alone)
	own := map[*ast.CallExpr]bool{}
	ast.Inspect(f, func(nd ast.Node) bool {
		switch x := nd.(type) {
		case *ast.DeferStmt:
			own[x.Call] = true
		case *ast.GoStmt:
			own[x.Call] = true
		}
		return true
	})
	ast.Inspect(f, func(nd ast.Node) bool {
		if c, ok := nd.(*ast.CallExpr); ok && !own[c] {
			if l, ok := c.Fun.(*ast.FuncLit); ok {
				n++
				lit, call = l, c
				return false // literals inside it belong to it
			}
		}
		return true
	})
	if n != 1 {
		return nil, false
	}
	// `if v, err := h(..); err != nil { … }` (no else): hoist the init statement into a block of
	// its own so that the call becomes a statement of a list
	{
		hoisted := false
		var fix func(list []ast.Stmt) []ast.Stmt
		fix = func(list []ast.Stmt) []ast.Stmt {
			for i, st := range list {
				ifs, ok := st.(*ast.IfStmt)
				if !ok || ifs.Init == nil || ifs.Else != nil {
					continue
				}
				as, ok := ifs.Init.(*ast.AssignStmt)
				if !ok || len(as.Rhs) != 1 || as.Rhs[0] != ast.Expr(call) {
					continue
				}
				// `if x, err = h(..); err == nil { S }` followed by a plain return is
				// `x, err = h(..); if err != nil { return }; S` in front of that return: the
				// failing way out gets an exit of its own instead of meeting the others
				if be, isB := ifs.Cond.(*ast.BinaryExpr); isB && be.Op == token.EQL && i+1 < len(list) {
					yid, yok := be.Y.(*ast.Ident)
					_, xok := be.X.(*ast.Ident)
					if ret, isRet := list[i+1].(*ast.ReturnStmt); isRet && xok && yok && yid.Name == "nil" {
						simple := true
						for _, rv := range ret.Results {
							switch rv.(type) {
							case *ast.Ident, *ast.BasicLit:
							default:
								simple = false
							}
						}
						if simple {
							guard := &ast.IfStmt{Cond: &ast.BinaryExpr{X: be.X, Op: token.NEQ, Y: be.Y}, Body: &ast.BlockStmt{List: []ast.Stmt{&ast.ReturnStmt{Results: ret.Results}}}}
							ifs.Init = nil
							// (the return is repeated at the end of the block, so that a helper opened
							// as the last statement of S is in tail position; the one behind the block
							// is then unreachable)
							blk := append([]ast.Stmt{as, guard}, ifs.Body.List...)
							blk = append(blk, &ast.ReturnStmt{Results: ret.Results})
							list[i] = &ast.BlockStmt{List: blk}
							hoisted = true
							continue
						}
					}
				}
				ifs.Init = nil
				list[i] = &ast.BlockStmt{List: []ast.Stmt{as, ifs}}
				hoisted = true
			}
			return list
		}
		ast.Inspect(f, func(nd ast.Node) bool {
			if hoisted {
				return false
			}
			switch x := nd.(type) {
			case *ast.BlockStmt:
				x.List = fix(x.List)
			case *ast.CaseClause:
				x.Body = fix(x.Body)
			}
			return !hoisted
		})
	}
	bad := false
	ast.Inspect(lit.Body, func(nd ast.Node) bool {
		switch x := nd.(type) {
		case *ast.DeferStmt:
			bad = true
		case *ast.CallExpr:
			if id, ok := x.Fun.(*ast.Ident); ok && id.Name == "recover" {
				bad = true
			}
		case *ast.BranchStmt:
			if x.Tok == token.GOTO {
				bad = true
			}
		}
		return true
	})
	if lit.Type.TypeParams != nil {
		return nil, false
	}
	if bad {
		// a body that defers or recovers can still take the place of a function whose whole body
		// is `return literal(args)`: the deferred calls then run when that function returns,
		// which is when they ran before
		return replaceWholeBody(fset, f, lit, call)
	}
	// give the literal's parameters and named results names of their own (dv_<name>), so that
	// nothing the block declares can shadow a variable of the enclosing function; identifiers are
	// matched by the parser's object resolution (local scopes only, which is all that is needed)
	ren := map[*ast.Object]string{}
	mark := func(fl *ast.FieldList) {
		if fl == nil {
			return
		}
		for _, fd := range fl.List {
			for _, nm := range fd.Names {
				if nm.Name != "_" && nm.Obj != nil {
					ren[nm.Obj] = "dv_" + nm.Name
				}
			}
		}
	}
	mark(lit.Type.Params)
	mark(lit.Type.Results)
	// … and so do the variables declared inside its body: one of them may have the name of a
	// variable the call assigns to
	ast.Inspect(lit.Body, func(nd ast.Node) bool {
		if id, ok := nd.(*ast.Ident); ok && id.Obj != nil && id.Obj.Kind == ast.Var && id.Name != "_" {
			if p := id.Obj.Pos(); p >= lit.Pos() && p <= lit.End() {
				if _, done := ren[id.Obj]; !done {
					ren[id.Obj] = "dv_" + id.Name
				}
			}
		}
		return true
	})
	ast.Inspect(lit, func(nd ast.Node) bool {
		if id, ok := nd.(*ast.Ident); ok && id.Obj != nil {
			if nn, ok := ren[id.Obj]; ok {
				id.Name = nn
			}
		}
		return true
	})
	// result temporaries
	var resNames []string
	var resTypes []ast.Expr
	named := false
	if lit.Type.Results != nil {
		for _, fl := range lit.Type.Results.List {
			if len(fl.Names) == 0 {
				resNames = append(resNames, fmt.Sprintf("dvRes%d", len(resNames)+1))
				resTypes = append(resTypes, fl.Type)
				continue
			}
			named = true
			for _, nm := range fl.Names {
				nn := nm.Name
				if nn == "_" {
					nn = fmt.Sprintf("dvRes%d", len(resNames)+1)
				}
				resNames = append(resNames, nn)
				resTypes = append(resTypes, fl.Type)
			}
		}
	}
	_ = named
	outNames := make([]string, len(resNames))
	for i := range outNames {
		outNames[i] = fmt.Sprintf("dvOut%s%d", uniq, i+1)
	}
	// parameters
	var pNames []ast.Expr
	var pUse []ast.Stmt
	if lit.Type.Params != nil {
		for _, fl := range lit.Type.Params.List {
			if _, variadic := fl.Type.(*ast.Ellipsis); variadic {
				return nil, false
			}
			if len(fl.Names) == 0 {
				pNames = append(pNames, ast.NewIdent("_"))
				continue
			}
			for _, nm := range fl.Names {
				pNames = append(pNames, ast.NewIdent(nm.Name))
				if nm.Name != "_" {
					pUse = append(pUse, &ast.AssignStmt{Lhs: []ast.Expr{ast.NewIdent("_")}, Tok: token.ASSIGN, Rhs: []ast.Expr{ast.NewIdent(nm.Name)}})
				}
			}
		}
	}
	if len(pNames) != len(call.Args) {
		return nil, false
	}
	// rewrite the returns that belong to the literal
	label := "dvL" + uniq
	var rewrite func(list []ast.Stmt) []ast.Stmt
	var rewriteStmt func(st ast.Stmt) ast.Stmt
	// tail: when the statement that follows the call is a return (or the call is itself the operand
	// of one), every `return X, Y` of the literal becomes `lhs = X, Y; return …` on the spot, so
	// that the exits stay apart instead of meeting in one join
	var tailLhs []ast.Expr
	var tailRet *ast.ReturnStmt
	retStmts := func(r *ast.ReturnStmt) []ast.Stmt {
		var out []ast.Stmt
		if tailRet != nil {
			vals := r.Results
			if len(vals) == 0 {
				vals = make([]ast.Expr, len(resNames))
				for i, nn := range resNames {
					vals[i] = ast.NewIdent(nn)
				}
			}
			if tailLhs != nil {
				if len(vals) != len(tailLhs) {
					return nil
				}
				out = append(out, &ast.AssignStmt{Lhs: tailLhs, Tok: token.ASSIGN, Rhs: vals})
				out = append(out, &ast.ReturnStmt{Results: tailRet.Results})
			} else {
				out = append(out, &ast.ReturnStmt{Results: vals})
			}
			return out
		}
		// join form: the results go to the temporaries declared in front of the switch. (The
		// literal's own result variables live inside the switch clause, in one scope with the
		// body's statements, as they did in the function: a top-level `q, r := f()` of the body
		// that assigns a named result must go on assigning it, not declare a new one.)
		if len(resNames) > 0 {
			lhs := make([]ast.Expr, len(outNames))
			for i, nn := range outNames {
				lhs[i] = ast.NewIdent(nn)
			}
			vals := r.Results
			if len(vals) == 0 {
				vals = make([]ast.Expr, len(resNames))
				for i, nn := range resNames {
					vals[i] = ast.NewIdent(nn)
				}
			}
			if len(vals) != len(lhs) {
				return nil
			}
			out = append(out, &ast.AssignStmt{Lhs: lhs, Tok: token.ASSIGN, Rhs: vals})
		}
		out = append(out, &ast.BranchStmt{Tok: token.BREAK, Label: ast.NewIdent(label)})
		return out
	}
	// is the call in tail position? find its statement and the one after it
	{
		var find func(list []ast.Stmt)
		find = func(list []ast.Stmt) {
			for i, st := range list {
				switch x := st.(type) {
				case *ast.ReturnStmt:
					if len(x.Results) == 1 && x.Results[0] == ast.Expr(call) {
						tailRet, tailLhs = &ast.ReturnStmt{}, nil
					}
				case *ast.AssignStmt:
					if len(x.Rhs) == 1 && x.Rhs[0] == ast.Expr(call) && x.Tok == token.ASSIGN && i+1 < len(list) {
						if r, ok := list[i+1].(*ast.ReturnStmt); ok {
							tailRet, tailLhs = r, x.Lhs
						}
					}
				}
			}
		}
		ast.Inspect(f, func(nd ast.Node) bool {
			switch x := nd.(type) {
			case *ast.BlockStmt:
				find(x.List)
			case *ast.CaseClause:
				find(x.Body)
			}
			return true
		})
	}
	// error propagation: `v, err := h(..)` (or =) followed by `if err != nil { return … }`. When
	// every return of the literal gives, for that error result, either the literal nil or a freshly
	// made error (errors.New / fmt.Errorf), the failing returns take the body of that if on the
	// spot and the succeeding ones go on behind it: the shape the code had before the helper was
	// split off, with the exits apart.
	var epLhs []ast.Expr // the assignment's left-hand sides
	var epTok token.Token
	var epBody []ast.Stmt // body of the if
	epIdx := -1           // index of the error among the results
	if tailRet == nil {
		isErrCtor := func(e ast.Expr) bool {
			c, ok := e.(*ast.CallExpr)
			if !ok {
				return false
			}
			sel, ok := c.Fun.(*ast.SelectorExpr)
			if !ok {
				return false
			}
			pk, ok := sel.X.(*ast.Ident)
			return ok && ((pk.Name == "errors" && sel.Sel.Name == "New") || (pk.Name == "fmt" && sel.Sel.Name == "Errorf"))
		}
		var find func(list []ast.Stmt)
		find = func(list []ast.Stmt) {
			for i, st := range list {
				as, ok := st.(*ast.AssignStmt)
				if !ok || len(as.Rhs) != 1 || as.Rhs[0] != ast.Expr(call) || i+1 >= len(list) {
					continue
				}
				ifs, ok := list[i+1].(*ast.IfStmt)
				if !ok || ifs.Init != nil || ifs.Else != nil || len(ifs.Body.List) == 0 {
					continue
				}
				if _, ok := ifs.Body.List[len(ifs.Body.List)-1].(*ast.ReturnStmt); !ok {
					continue
				}
				be, ok := ifs.Cond.(*ast.BinaryExpr)
				if !ok || be.Op != token.NEQ {
					continue
				}
				ev, ok1 := be.X.(*ast.Ident)
				nl, ok2 := be.Y.(*ast.Ident)
				if !ok1 || !ok2 || nl.Name != "nil" {
					continue
				}
				for k, l := range as.Lhs {
					if id, ok := l.(*ast.Ident); ok && id.Name == ev.Name {
						epIdx = k
					}
				}
				if epIdx < 0 {
					continue
				}
				epLhs, epTok, epBody = as.Lhs, as.Tok, ifs.Body.List
			}
		}
		ast.Inspect(f, func(nd ast.Node) bool {
			switch x := nd.(type) {
			case *ast.BlockStmt:
				find(x.List)
			case *ast.CaseClause:
				find(x.Body)
			}
			return true
		})
		if epLhs != nil {
			// every return of the literal classified?
			okAll := true
			var chk func(nd ast.Node) bool
			chk = func(nd ast.Node) bool {
				switch x := nd.(type) {
				case *ast.FuncLit:
					return x == lit
				case *ast.ReturnStmt:
					if len(x.Results) != len(epLhs) {
						okAll = false
						return true
					}
					e := x.Results[epIdx]
					if id, ok := e.(*ast.Ident); ok && id.Name == "nil" {
						return true
					}
					if !isErrCtor(e) {
						okAll = false
					}
				}
				return true
			}
			ast.Inspect(lit, chk)
			if !okAll {
				epLhs, epBody, epIdx = nil, nil, -1
			}
		}
	}
	if epLhs != nil {
		plain := retStmts
		retStmts = func(r *ast.ReturnStmt) []ast.Stmt {
			e := r.Results[epIdx]
			if id, ok := e.(*ast.Ident); ok && id.Name == "nil" {
				// success: assign the caller's variables and leave the switch
				return []ast.Stmt{
					&ast.AssignStmt{Lhs: epLhs, Tok: token.ASSIGN, Rhs: r.Results},
					&ast.BranchStmt{Tok: token.BREAK, Label: ast.NewIdent(label)},
				}
			}
			out := []ast.Stmt{&ast.AssignStmt{Lhs: epLhs, Tok: token.ASSIGN, Rhs: r.Results}}
			return append(out, epBody...)
		}
		_ = plain
	}
	giveUpRet := false
	rewrite = func(list []ast.Stmt) []ast.Stmt {
		var out []ast.Stmt
		for _, st := range list {
			if r, ok := st.(*ast.ReturnStmt); ok {
				rs := retStmts(r)
				if rs == nil {
					giveUpRet = true
				}
				out = append(out, rs...)
				continue
			}
			out = append(out, rewriteStmt(st))
		}
		return out
	}
	rewriteStmt = func(st ast.Stmt) ast.Stmt {
		switch x := st.(type) {
		case *ast.BlockStmt:
			x.List = rewrite(x.List)
		case *ast.IfStmt:
			x.Body.List = rewrite(x.Body.List)
			if x.Else != nil {
				x.Else = rewriteStmt(x.Else)
			}
		case *ast.ForStmt:
			x.Body.List = rewrite(x.Body.List)
		case *ast.RangeStmt:
			x.Body.List = rewrite(x.Body.List)
		case *ast.SwitchStmt:
			for _, c := range x.Body.List {
				cc := c.(*ast.CaseClause)
				cc.Body = rewrite(cc.Body)
			}
		case *ast.TypeSwitchStmt:
			for _, c := range x.Body.List {
				cc := c.(*ast.CaseClause)
				cc.Body = rewrite(cc.Body)
			}
		case *ast.SelectStmt:
			for _, c := range x.Body.List {
				cc := c.(*ast.CommClause)
				cc.Body = rewrite(cc.Body)
			}
		case *ast.LabeledStmt:
			x.Stmt = rewriteStmt(x.Stmt)
		case *ast.ReturnStmt:
			rs := retStmts(x)
			if rs == nil {
				giveUpRet = true
			}
			return &ast.BlockStmt{List: rs}
		}
		return st
	}
	body := rewrite(lit.Body.List)
	if giveUpRet {
		return nil, false // a return whose values cannot be told apart (return g() of a multi-value g)
	}
	// a single result assigned from a multi-value call (return g(x)) cannot be split: give up
	for _, fl := range []*ast.BlockStmt{lit.Body} {
		giveUp := false
		ast.Inspect(fl, func(nd ast.Node) bool {
			if _, ok := nd.(*ast.FuncLit); ok && nd != ast.Node(lit) {
				return false
			}
			return true
		})
		if giveUp {
			return nil, false
		}
	}
	var inner []ast.Stmt
	if len(pNames) > 0 {
		allBlank := true
		for _, p := range pNames {
			if p.(*ast.Ident).Name != "_" {
				allBlank = false
			}
		}
		tok := token.DEFINE
		if allBlank {
			tok = token.ASSIGN
		}
		inner = append(inner, &ast.AssignStmt{Lhs: pNames, Tok: tok, Rhs: call.Args})
		inner = append(inner, pUse...)
	}
	for i, nn := range resNames {
		inner = append(inner, &ast.DeclStmt{Decl: &ast.GenDecl{Tok: token.VAR, Specs: []ast.Spec{&ast.ValueSpec{Names: []*ast.Ident{ast.NewIdent(nn)}, Type: resTypes[i]}}}})
		inner = append(inner, &ast.AssignStmt{Lhs: []ast.Expr{ast.NewIdent("_")}, Tok: token.ASSIGN, Rhs: []ast.Expr{ast.NewIdent(nn)}})
	}
	if tailRet != nil {
		inner = append(inner, body...)
	} else {
		// declarations and body in one scope (the switch clause)
		clause := append(inner, body...)
		inner = []ast.Stmt{&ast.LabeledStmt{Label: ast.NewIdent(label), Stmt: &ast.SwitchStmt{Body: &ast.BlockStmt{List: []ast.Stmt{&ast.CaseClause{Body: clause}}}}}}
	}
	var pre []ast.Stmt
	if epLhs != nil && epTok == token.DEFINE {
		for i, l := range epLhs {
			id, ok := l.(*ast.Ident)
			if !ok {
				return nil, false
			}
			if id.Name == "_" {
				epLhs[i] = ast.NewIdent(fmt.Sprintf("dvIgn%s%d", uniq, i+1))
				id = epLhs[i].(*ast.Ident)
			}
			pre = append(pre, &ast.DeclStmt{Decl: &ast.GenDecl{Tok: token.VAR, Specs: []ast.Spec{&ast.ValueSpec{Names: []*ast.Ident{ast.NewIdent(id.Name)}, Type: resTypes[i]}}}})
			pre = append(pre, &ast.AssignStmt{Lhs: []ast.Expr{ast.NewIdent("_")}, Tok: token.ASSIGN, Rhs: []ast.Expr{ast.NewIdent(id.Name)}})
		}
	}
	for i, on := range outNames {
		if tailRet != nil || epLhs != nil {
			break
		}
		pre = append(pre, &ast.DeclStmt{Decl: &ast.GenDecl{Tok: token.VAR, Specs: []ast.Spec{&ast.ValueSpec{Names: []*ast.Ident{ast.NewIdent(on)}, Type: resTypes[i]}}}})
	}
	pre = append(pre, &ast.BlockStmt{List: inner})
	outExprs := func() []ast.Expr {
		r := make([]ast.Expr, len(outNames))
		for i, on := range outNames {
			r[i] = ast.NewIdent(on)
		}
		return r
	}
	// splice into the statement list that holds the call's statement
	done := false
	var splice func(list []ast.Stmt) []ast.Stmt
	splice = func(list []ast.Stmt) []ast.Stmt {
		for i, st := range list {
			var repl []ast.Stmt
			switch x := st.(type) {
			case *ast.ExprStmt:
				if x.X == ast.Expr(call) {
					repl = pre
				}
			case *ast.AssignStmt:
				if len(x.Rhs) == 1 && x.Rhs[0] == ast.Expr(call) && len(x.Lhs) == len(outNames) {
					repl = append(append([]ast.Stmt{}, pre...), &ast.AssignStmt{Lhs: x.Lhs, Tok: x.Tok, Rhs: outExprs()})
				}
			case *ast.ReturnStmt:
				if len(x.Results) == 1 && x.Results[0] == ast.Expr(call) {
					repl = append(append([]ast.Stmt{}, pre...), &ast.ReturnStmt{Results: outExprs()})
				}
			}
			if repl != nil && epLhs != nil {
				done = true
				out := append([]ast.Stmt{}, list[:i]...)
				out = append(out, pre...)
				return append(out, list[i+2:]...) // the error test that followed is decided at each return now
			}
			if repl != nil && tailRet != nil {
				done = true
				out := append([]ast.Stmt{}, list[:i]...)
				out = append(out, pre...)
				rest := list[i+1:]
				if tailLhs != nil && len(rest) > 0 {
					rest = rest[1:] // the return that followed: every path of the block returns now
				}
				return append(out, rest...)
			}
			if repl != nil {
				done = true
				out := append([]ast.Stmt{}, list[:i]...)
				// keep the new declarations out of the way of later ones of the same name
				out = append(out, &ast.BlockStmt{List: nil})
				out = out[:len(out)-1]
				out = append(out, repl...)
				return append(out, list[i+1:]...)
			}
		}
		return list
	}
	ast.Inspect(f, func(nd ast.Node) bool {
		if done {
			return false
		}
		switch x := nd.(type) {
		case *ast.BlockStmt:
			x.List = splice(x.List)
		case *ast.CaseClause:
			x.Body = splice(x.Body)
		case *ast.CommClause:
			x.Body = splice(x.Body)
		}
		return !done
	})
	if !done {
		return nil, false
	}
	// positions of the new nodes are meaningless: keep only the comments in front of the package
	// clause (build constraints), print and reformat
	var keep []*ast.CommentGroup
	for _, cg := range f.Comments {
		if cg.End() < f.Package {
			keep = append(keep, cg)
		}
	}
	f.Comments = keep
	ast.Inspect(f, func(nd ast.Node) bool {
		switch x := nd.(type) {
		case *ast.FuncDecl:
			x.Doc = nil
		case *ast.GenDecl:
			x.Doc = nil
		case *ast.ValueSpec:
			x.Doc, x.Comment = nil, nil
		case *ast.TypeSpec:
			x.Doc, x.Comment = nil, nil
		case *ast.Field:
			x.Doc, x.Comment = nil, nil
		case *ast.ImportSpec:
			x.Doc, x.Comment = nil, nil
		}
		return true
	})
	var buf bytes.Buffer
	if err := format.Node(&buf, fset, f); err != nil {
		return nil, false
	}
	outSrc, err := format.Source(buf.Bytes())
	if err != nil {
		return nil, false
	}
	return outSrc, true
}

// replaceWholeBody: the enclosing function is  func F(...) (results) { return func(p...) (r...) { body }(args...) }.
// Its body becomes  p... := args...; body  with the literal's named results renamed to F's (which
// are given names if they have none), so that a deferred closure that assigns a result assigns
// F's result.
func replaceWholeBody(fset *token.FileSet, f *ast.File, lit *ast.FuncLit, call *ast.CallExpr) ([]byte, bool) {
	var fd *ast.FuncDecl
	for _, d := range f.Decls {
		x, ok := d.(*ast.FuncDecl)
		if !ok || x.Body == nil || len(x.Body.List) != 1 {
			continue
		}
		r, ok := x.Body.List[0].(*ast.ReturnStmt)
		if ok && len(r.Results) == 1 && r.Results[0] == ast.Expr(call) {
			fd = x
		}
	}
	if fd == nil || fd.Type.TypeParams != nil {
		return nil, false
	}
	// results
	var litRes []*ast.Ident
	litNamed := false
	if lit.Type.Results != nil {
		for _, fl := range lit.Type.Results.List {
			if len(fl.Names) == 0 {
				litRes = append(litRes, nil)
				continue
			}
			litNamed = true
			for _, nm := range fl.Names {
				litRes = append(litRes, nm)
			}
		}
	}
	var enclNames []string
	enclNamed := false
	var enclTypes []ast.Expr
	if fd.Type.Results != nil {
		for _, fl := range fd.Type.Results.List {
			if len(fl.Names) == 0 {
				enclNames = append(enclNames, "")
				enclTypes = append(enclTypes, fl.Type)
				continue
			}
			enclNamed = true
			for _, nm := range fl.Names {
				enclNames = append(enclNames, nm.Name)
				enclTypes = append(enclTypes, fl.Type)
			}
		}
	}
	if len(enclNames) != len(litRes) {
		return nil, false
	}
	if litNamed {
		for _, id := range litRes {
			if id == nil || id.Name == "_" || id.Obj == nil {
				return nil, false
			}
		}
		ren := map[*ast.Object]string{}
		if enclNamed {
			for i, id := range litRes {
				if enclNames[i] == "" || enclNames[i] == "_" {
					return nil, false
				}
				ren[id.Obj] = enclNames[i]
			}
		} else {
			var fields []*ast.Field
			for i, id := range litRes {
				nn := "dvR_" + id.Name
				ren[id.Obj] = nn
				fields = append(fields, &ast.Field{Names: []*ast.Ident{ast.NewIdent(nn)}, Type: enclTypes[i]})
			}
			fd.Type.Results.List = fields
		}
		ast.Inspect(lit, func(nd ast.Node) bool {
			if id, ok := nd.(*ast.Ident); ok && id.Obj != nil {
				if nn, ok := ren[id.Obj]; ok {
					id.Name = nn
				}
			}
			return true
		})
	}
	// parameters
	var lhs []ast.Expr
	var use []ast.Stmt
	allBlank := true
	if lit.Type.Params != nil {
		for _, fl := range lit.Type.Params.List {
			if _, variadic := fl.Type.(*ast.Ellipsis); variadic {
				return nil, false
			}
			if len(fl.Names) == 0 {
				lhs = append(lhs, ast.NewIdent("_"))
				continue
			}
			for _, nm := range fl.Names {
				lhs = append(lhs, ast.NewIdent(nm.Name))
				if nm.Name != "_" {
					allBlank = false
					use = append(use, &ast.AssignStmt{Lhs: []ast.Expr{ast.NewIdent("_")}, Tok: token.ASSIGN, Rhs: []ast.Expr{ast.NewIdent(nm.Name)}})
				}
			}
		}
	}
	if len(lhs) != len(call.Args) {
		return nil, false
	}
	var body []ast.Stmt
	if len(lhs) > 0 {
		tok := token.DEFINE
		if allBlank {
			tok = token.ASSIGN
		}
		body = append(body, &ast.AssignStmt{Lhs: lhs, Tok: tok, Rhs: call.Args})
		body = append(body, use...)
	}
	body = append(body, lit.Body.List...)
	fd.Body.List = body
	var out bytes.Buffer
	if err := format.Node(&out, fset, f); err != nil {
		return nil, false
	}
	return out.Bytes(), true
}
