// Package ob holds the obligation record shared by all rules, the matching
// against /verif/known_findings.json and the evidence writer.
package ob

import (
	"encoding/json"
	"fmt"
	"os"
	"sort"
	"strings"
)

const (
	OK        = "ok"
	Violation = "violation"
	Known     = "known"
	Info      = "info" // listed for the reader, not an obligation (e.g. unconstrained table cell)
)

// Obligation is one rule instance: a rule applied to one construct.
type Obligation struct {
	Rule      string   `json:"rule"`
	Construct string   `json:"construct"` // never contains a line number
	Pos       string   `json:"pos,omitempty"`
	Verdict   string   `json:"verdict"`
	Detail    string   `json:"detail,omitempty"`
	Path      []string `json:"path,omitempty"`
	Config    string   `json:"config,omitempty"`
}

func (o Obligation) Key() string { return o.Rule + "/" + o.Construct }

// Set collects obligations of one run.
type Set struct {
	Config string
	List   []Obligation
}

func (s *Set) add(v, rule, construct, pos, detail string, path ...string) {
	s.List = append(s.List, Obligation{Rule: rule, Construct: construct, Pos: pos, Verdict: v, Detail: detail, Path: path, Config: s.Config})
}
func (s *Set) Ok(rule, construct, pos, detail string) { s.add(OK, rule, construct, pos, detail) }
func (s *Set) Bad(rule, construct, pos, detail string, path ...string) {
	s.add(Violation, rule, construct, pos, detail, path...)
}
func (s *Set) Note(rule, construct, pos, detail string) { s.add(Info, rule, construct, pos, detail) }

// Check adds an ok or violation obligation depending on cond.
func (s *Set) Check(cond bool, rule, construct, pos, okDetail, badDetail string) {
	if cond {
		s.Ok(rule, construct, pos, okDetail)
	} else {
		s.Bad(rule, construct, pos, badDetail)
	}
}

// Count returns the number of obligations (ok+violation) of a rule (prefix match on "RULE" or "RULE(").
func (s *Set) Count(rule string) int {
	n := 0
	for _, o := range s.List {
		if o.Verdict != Info && RuleMatches(o.Rule, rule) {
			n++
		}
	}
	return n
}

func RuleMatches(have, want string) bool {
	return have == want || strings.HasPrefix(have, want+"(") || strings.HasPrefix(have, want+"/") || strings.HasPrefix(have, want+":")
}

// ---------------------------------------------------------------- known findings

type Finding struct {
	Property  string `json:"property"`
	Rule      string `json:"rule"`
	Construct string `json:"construct"`
	Status    string `json:"status"` // known | fixed
	Commit    string `json:"commit,omitempty"`
	What      string `json:"what"`
}

func LoadFindings(path string) ([]Finding, error) {
	b, err := os.ReadFile(path)
	if err != nil {
		if os.IsNotExist(err) {
			return nil, nil
		}
		return nil, err
	}
	var f struct {
		Findings []Finding `json:"findings"`
	}
	if err := json.Unmarshal(b, &f); err != nil {
		return nil, err
	}
	return f.Findings, nil
}

// MatchKnown returns the known (not fixed) finding that names this violation, if any.
func MatchKnown(fs []Finding, prop string, o Obligation) *Finding {
	for i := range fs {
		f := &fs[i]
		if f.Status != "known" {
			continue
		}
		if f.Rule == o.Rule && f.Construct == o.Construct && (f.Property == prop || f.Property == "" || strings.Contains(f.Property, prop)) {
			return f
		}
	}
	return nil
}

// ---------------------------------------------------------------- evidence

type Evidence struct {
	PropertyID  string                 `json:"property_id"`
	Tier        string                 `json:"tier"`
	Seed        int64                  `json:"seed"`
	Level       string                 `json:"level"`
	Coverage    map[string]interface{} `json:"coverage"`
	Assumptions []string               `json:"assumptions"`
	WallS       float64                `json:"wall_s"`
	Violations  int                    `json:"violations"`
}

func WriteJSON(path string, v interface{}) error {
	b, err := json.MarshalIndent(v, "", " ")
	if err != nil {
		return err
	}
	tmp := path + ".tmp"
	if err := os.WriteFile(tmp, append(b, '\n'), 0o644); err != nil {
		return err
	}
	return os.Rename(tmp, path)
}

// Summarize groups obligations per rule: count, ok, violation.
func Summarize(list []Obligation) map[string]map[string]int {
	out := map[string]map[string]int{}
	for _, o := range list {
		r := o.Rule
		if i := strings.IndexAny(r, "(:"); i > 0 {
			r = r[:i]
		}
		if out[r] == nil {
			out[r] = map[string]int{}
		}
		out[r][o.Verdict]++
	}
	return out
}

// Distinct returns the number of distinct rule+construct keys among real obligations.
func Distinct(list []Obligation) int {
	seen := map[string]bool{}
	for _, o := range list {
		if o.Verdict != Info {
			seen[o.Key()] = true
		}
	}
	return len(seen)
}

// Samples picks a deterministic spread of obligations for the evidence file.
func Samples(list []Obligation, max int) []Obligation {
	var bad, rest []Obligation
	perRule := map[string]int{}
	for _, o := range list {
		if o.Verdict == Violation || o.Verdict == Known {
			bad = append(bad, o)
			continue
		}
		if perRule[o.Rule] < 2 {
			perRule[o.Rule]++
			rest = append(rest, o)
		}
	}
	out := append(bad, rest...)
	if len(out) > max {
		out = out[:max]
	}
	return out
}

func SortObligations(l []Obligation) {
	sort.SliceStable(l, func(i, j int) bool {
		if l[i].Rule != l[j].Rule {
			return l[i].Rule < l[j].Rule
		}
		if l[i].Construct != l[j].Construct {
			return l[i].Construct < l[j].Construct
		}
		return l[i].Config < l[j].Config
	})
}

func (o Obligation) String() string {
	return fmt.Sprintf("[%s] %s %s @%s: %s", o.Verdict, o.Rule, o.Construct, o.Pos, o.Detail)
}
