// Package props maps each property of /verif/properties.jsonl to the rules
// that decide its structural clauses, with the text that goes into the evidence.
package props

import "strings"

type Prop struct {
	ID         string
	Rules      []string // rule selectors: "RULE" or "RULE@substr1|substr2" (constructs containing one of the substrings)
	Uses       []string // selectors inherited from the layers the property's operations are built on (obligations count; their controls are run by the owning property)
	Decided    string   // clauses decided (goes to coverage.explanation)
	NotDecided string   // what the check does not decide
	Assume     []string // assumptions / trusted base
	Technique  string   // a few words naming the deciding method
	QuickCfgs  []string // configurations analysed in the quick tier (default: amd64)
}

var All = map[string]*Prop{}

// Pending gives the reason a property is (still) listed under not_applicable.
var Pending = map[string]string{}

var commonAssume = []string{
	"go/types and go/ssa (x/tools v0.50.0, built with go1.26.8) model the analysed build configuration faithfully (quick: amd64; thorough: amd64, amd64 with the pure-Go build tags, 386)",
	"nothing in /repo is executed; every verdict is a statement about the source as loaded at run time",
}

var cdaiAssume = []string{
	"E4 abstract interpreter: mantissas, lengths and all results of dec-layer functions are unknown (⊤); branches on them fork; opaque callees havoc exactly the fields their store summary says they may write",
	"pow2(n) is a finite positive value (n is bounded by a binary floating-point exponent); round() on a non-finite value only resets acc (checked by T-ROUND/nonfinite)",
	"a finite Decimal has a non-empty mantissa (so same()/alias() of one finite Decimal's mantissa with itself are true)",
}

var fxAssume = []string{
	"E1 effect summaries over-approximate writes and reads through statically resolved callees; *Decimal values never flow through interfaces or containers in this code base (an unknown reference makes the obligation fail, not pass)",
	"the vector kernels write only through their first slice parameter (axiom for the assembly bodies, backed by the E7 store-target lint; derived for the Go twins)",
}

const (
	techCDAI = "finite-domain abstract interpretation of the SSA form (constant propagation with branch pruning and path forking over enumerated operand classes/modes/digits), compared with IEEE 754 tables written from the standard"
	techFX   = "per-function forward dataflow on the SSA form with interprocedural effect summaries (write sets, slice roots, relation of prec/mode to their entry values, entry-value reads)"
)

// p registers a property. decided is a list of "RULE: clause" sentences.
func p(id string, rules []string, decided []string, notDecided, technique string, assume ...[]string) {
	a := append([]string{}, commonAssume...)
	for _, x := range assume {
		a = append(a, x...)
	}
	All[id] = &Prop{ID: id, Rules: rules, Decided: strings.Join(decided, " "), NotDecided: notDecided, Assume: a, Technique: technique}
}

// InheritedNote is the sentence that evidence and manifest add after the decided clauses.
func (p *Prop) InheritedNote() string {
	inh := p.AllRules()[len(p.Rules):]
	if len(inh) == 0 {
		return ""
	}
	return " Inherited (clauses of the layers this property's operations are built on — the rounding core, the unsigned operations, the dec layer, plain arithmetic — which are necessary conditions of this property as well; decided by the rules named, described under the properties that own them): " + strings.Join(inh, ", ") + "."
}

// AllRules: the property's own selectors followed by the inherited ones it does not already list.
func (p *Prop) AllRules() []string {
	out := append([]string{}, p.Rules...)
	own := map[string]bool{}
	for _, r := range p.Rules {
		own[r] = true
		if i := strings.Index(r, "@"); i < 0 {
			own[r+"@*"] = true // the whole rule is already there
		}
	}
	for _, u := range p.Uses {
		n := u
		if i := strings.Index(u, "@"); i >= 0 {
			n = u[:i]
		}
		if own[u] || own[n+"@*"] {
			continue
		}
		own[u] = true
		out = append(out, u)
	}
	return out
}

// The layers every value-producing operation is built on. A property whose operations pass
// through a layer inherits the layer's structural clauses: they are necessary conditions of the
// property too (a rounding that misplaces the carry word breaks parsing, Sqrt and the Context
// operations just as it breaks Add).
var (
	layerRound = []string{"T-ROUND", "T-SETEXP", "ROUNDSHAPE", "STICKY", "ENUM"}
	layerUops  = []string{"NORM@uadd|usub|umul|uquo|round|setExpAndRound", "MUSTUSE", "SHIFTDIR", "QUOLEN", "LOWCUT", "ROUNDONCE@umul|uquo|uadd|usub", "FX-OWN@uadd|usub|umul|uquo", "CMPSYM@ucmp", "EXP@uadd|usub|umul|uquo|setExpAndRound|round|limitExp", "MUSTFLOW", "SIGN@uadd|usub|umul|uquo"}
	layerDec   = []string{"CONST", "WORD", "WORDSUM", "DIVCORE", "SIBLING", "SPLITEVEN", "QHAT", "KLEN", "CARRY", "ALIASGUARD", "OVERLAP", "POOL", "INIT", "NORMARG", "DECNORM", "FILL"}
	layerArith = []string{"T-ARITH@Add(|Sub(|Mul(|Quo(", "PREC0@Add|Sub|Mul|Quo|Set", "ROUNDONCE@Add|Sub|Mul|Quo|Set", "T-UNARY@Set(|SetPrec("}
)

func uses(id string, layers ...[]string) {
	p := All[id]
	for _, l := range layers {
		p.Uses = append(p.Uses, l...)
	}
}

func init() {
	initProps()
	uses("C01", layerDec, []string{"PRECWRAP@SetPrec/clamp", "FX-OWN@uadd|usub|umul|uquo", "T-ARITH-ALIAS@Add(|Sub(|Mul(|Quo(", "FX-RAW@(*Decimal).Add|(*Decimal).Sub|(*Decimal).Mul|(*Decimal).Quo", "GUARD"})
	uses("C04", []string{"T-ARITH-ALIAS", "FX-RAW", "NORM", "DECNORM", "FX-IMMUT", "ALIASGUARD", "LOWCUT", "OUTPARAM@zero-sign"})
	uses("C06", []string{"LOWCUT", "MUSTFLOW@remainder", "QUOLEN"})
	uses("C17", layerRound, layerDec, []string{"T-UNARY@SetPrec(", "NORM", "SIGN@GobDecode", "FX-RBW@GobDecode"})
	uses("C02", layerRound, layerUops, layerDec, []string{"PRECWRAP@SetInt", "FX-ACC@Parse"})
	uses("C03", layerRound, layerUops, layerDec, []string{"CTX@.FMA|.apply"})
	uses("C05", layerRound, layerUops, layerDec, layerArith, []string{"CTX@.Sqrt"})
	uses("C08", layerRound, []string{"T-ARITH", "T-UNARY", "T-CONV", "FX-DEF", "FX-IMMUT"})
	uses("C10", []string{"FX-ACC", "FX-DEF", "NORM", "CTX@.Set"})
	uses("C11", layerRound, layerDec, layerUops, []string{"SHIFTW", "CONST", "SCANSHAPE", "DECNORM@dec.scan|mulAddWW|setWord", "NORM@scan", "T-UNARY@Set(|SetPrec(", "LOWCUT", "FX-RBW@(*Decimal).scan|(*Decimal).Parse|SetString|UnmarshalText|(*Decimal).Scan", "CTX@NewString"})
	uses("C12", layerRound, layerUops, layerDec, []string{"NORM@scan", "FMTSHAPE@infinity", "PRECWRAP@SetPrec/clamp"})
	uses("C13", layerRound, layerDec, []string{"T-UNARY@Set(|SetPrec(", "NORM@Set", "ROUNDONCE@Set"})
	uses("C14", layerRound, layerUops, layerDec, []string{"CTX@NewInt|NewUint64|NewRat", "FX-IMMUT@(*Decimal).Int|(*Decimal).Rat|(*Decimal).Uint64|decToNat"})
	uses("C15", layerRound, layerUops, layerDec, layerArith, []string{"CTX@NewFloat", "FX-RBW@(*Decimal).Quo|(*Decimal).Mul|SetFloat"})
	uses("C16", []string{"NORM", "DECNORM", "ROUNDSHAPE", "FX-IMMUT", "FX-OWN", "POOL", "FX-RBW@SetBitsExp", "EXP", "GOB@G2", "T-UNARY@SetBitsExp(", "FILL"})
	uses("C19", layerRound, layerUops, layerDec, layerArith, []string{"T-ARITH", "T-UNARY@Sqrt(", "FX-STICKY@(*Decimal).Sqrt|sqrtInverse", "MODE@Sqrt", "SQRTSHAPE", "PRECWRAP@/clamp", "NORM@SetFloat|SetInt|SetUint64|SetRat", "T-CONV@SetFloat64("})
	uses("C20", layerRound, layerDec, []string{"NORM@round|setExpAndRound"})
}

func initProps() {
	p("C01",
		[]string{"T-ROUND", "T-SETEXP", "T-ARITH@Add(|Sub(|Mul(|Quo(", "T-UNARY@Set(|SetPrec(|Neg(|Abs(", "SIGN", "EXP", "WORD", "CARRY", "MUSTFLOW", "NORM", "PREC0@Add|Sub|Mul|Quo|Set|Neg|Abs|SetPrec", "LOWCUT", "SHIFTDIR", "QUOLEN", "ROUNDSHAPE", "ROUNDONCE@Add|Sub|Mul|Quo|Set|Neg|Abs|umul|uquo|uadd|usub", "STICKY", "MUSTUSE", "CMPSYM@ucmp"},
		[]string{
			"T-ROUND: the rounding decision of round() equals the IEEE 754 direction table for all 6 modes x 2 signs x 10 rounding digits x sticky (argument or mantissa) x parity, with the all-nines carry stepping the exponent or overflowing to Inf.",
			"T-SETEXP: exponent underflow -> zero and overflow -> Inf of the result's sign before rounding; the caller's sticky bit is handed to round.",
			"T-ARITH: for every operand class pair and mode the sign is final and the operands are in the right order before the unsigned operation, the receiver's own precision is in force, a zero operand yields the other operand rounded under ITS final sign.",
			"T-UNARY: Set/SetPrec/Neg/Abs round exactly when the precision shrinks, with the documented sign.",
			"SIGN: no store to the sign after a call that may round the same object (except Neg/Abs, documented, which nothing in the package builds on, and the exact-zero fix-up); EXP: no wide integer becomes the int32 exponent outside a [MinExp, MaxExp] test, exp+1 is guarded, the int64 exponent sum cannot wrap; WORD: only kernel results and reduced values enter a mantissa (in particular in the division add-back that feeds the sticky bit); CARRY: the all-nines carry of round and the top carry of dec.add are consumed; MUSTFLOW: the dnorm shift reaches the exponent and the division remainder reaches the sticky bit; NORM: every computed mantissa is normalised, then rounded, before a success exit.",
			"LOWCUT: no low-order words of a mantissa are sliced away before rounding unless sticky(words*_DW) of exactly those words reaches the rounding (a shortened dividend or truncated operand loses digits the rounding must see); SHIFTDIR: in uadd/usub the alignment shift count is a difference proven positive by the enclosing comparison, and the operand shifted left is the one with the larger exponent.",
			"QUOLEN: the number of quotient words uquo asks for, a pure integer function n(prec), satisfies n(prec)*_DW > prec for every precision (room for the rounding digit) — decided by evaluating the closed formula over two periods of the word size and the top of the range; ROUNDSHAPE: every finite exit of round after a cut/increment passes the store that clears the digits below the precision; ROUNDONCE: no path of Add/Sub/Mul/Quo/Set/Neg/Abs and the unsigned helpers applies two rounding operations to the receiver.",
			"CMPSYM for ucmp: the magnitude comparison that orders the operands of a subtraction is symmetric (a<b -> -1 with a>b -> +1, a non-zero word only x has -> +1, only y has -> -1, 0 only when both mantissas are exhausted).",
			"STICKY: dec.sticky answers 0 only behind the scan of all lower words (or for an empty operand / a zero digit count); MUSTUSE: every exit of uadd/usub/umul/uquo follows a dec-layer operation on the mantissas of both operands (no `the other operand is negligible` shortcut); ROUNDSHAPE/carry-word: after the all-nines carry the word written is the top word of the cut mantissa.",
		},
		"that alignment shifts, digit positions, products and quotients are the right numbers (numeric core, not applicable to static analysis)",
		techCDAI, cdaiAssume)
	p("C02",
		[]string{"T-ROUND", "T-SETEXP", "T-ARITH@Add(|Sub(|Mul(|Quo(|FMA(", "T-UNARY@Set(|SetPrec(|SetInf(|SetMode(|SetInt|SetUint64(|NewDecimal(|SetMantExp(", "FX-ACC", "SIGN", "MUSTFLOW@remainder", "WORD@divBasic|divLarge|divRecursiveStep", "LOWCUT", "QUOLEN", "ROUNDONCE@SetRat|Quo|uquo", "STICKY"},
		[]string{
			"T-ROUND/T-SETEXP accuracy columns: acc = sign of (stored - exact) as a function of increment and sign; Exact iff rounding digit = 0 and no sticky; underflow/overflow accuracies.",
			"T-ARITH/T-UNARY: every special-value result is reported Exact, the exact-cancellation branch reports Exact, no rounding happens under a sign that is flipped afterwards.",
			"FX-ACC: every listed operation writes the accuracy on every success exit (also z.Set(z)), so no stale accuracy of an earlier operation survives.",
			"SIGN(b): an accuracy computed for +y is never reused for -y (nothing builds on Neg/Abs); MUSTFLOW: a non-zero division remainder sets the sticky bit; WORD: the remainder words are valid decimal words (so `len(r) > 0` means inexact).",
			"LOWCUT: digits dropped from an operand before the operation are accounted for in the sticky bit (otherwise an inexact result reports Exact).",
			"QUOLEN: a quotient of exactly prec digits (no rounding digit) would be taken for Exact by round whatever the remainder — the word count formula leaves room for prec+1 digits at every precision; ROUNDONCE: SetRat does not round the numerator into the receiver before dividing.",
			"STICKY: a sticky bit of 0 means every lower word was looked at (an early `return 0` reports inexact results as Exact).",
		},
		"that the sticky bit summarises exactly the discarded digits (numeric)",
		techCDAI, cdaiAssume, fxAssume)
	p("C03",
		[]string{"T-ARITH@FMA(", "T-ARITH-ALIAS@FMA(", "FX-RAW@(*Decimal).FMA", "FX-RBW@(*Decimal).FMA", "FX-STICKY@(*Decimal).FMA", "MUSTUSE@uadd|usub|umul"},
		[]string{
			"T-ARITH for FMA over {±0, ±finite, ±Inf}^3 x 6 modes x precision orderings: ErrNaN exactly for 0*Inf and Inf-Inf forms, IEEE zero-sum sign including a zero u, the product computed exactly (precision MaxPrec, restored afterwards) and rounded once, sign and operand order of the final unsigned add/sub.",
			"T-ARITH-ALIAS: the same table with the receiver bound to x, y, u and operands bound to each other.",
			"FX-RAW: no field of x, y or u is read after the same field of the receiver (or of the scratch object that may be the receiver) was written unless a pointer comparison proved them distinct; FX-RBW: nothing the receiver held before is read; FX-STICKY: the temporary precision MaxPrec is restored on every exit.",
			"MUSTUSE: the addition/subtraction FMA hands its unrounded product to combines both mantissas on every path (a fast path that rounds the wide product alone loses carries from the addend).",
		},
		"the numeric result for finite operands; whether an intermediate product outside the exponent range is handled exactly",
		techCDAI, cdaiAssume, fxAssume)
	p("C04",
		[]string{"T-ARITH", "T-UNARY@Sqrt(", "T-CONV@SetFloat", "PREC0", "FX-RBW", "PANIC", "ENUM", "GUARD", "WORD@divBasic|divLarge|divRecursiveStep|dec.sub|dec.add", "FX-DEF", "CMPSYM@ucmp"},
		[]string{
			"T-ARITH: every class combination of Add/Sub/Mul/Quo/FMA in every mode gives the IEEE form and sign or panics with ErrNaN, and nothing else panics with ErrNaN.",
			"T-UNARY: Sqrt special values (sqrt(±0)=±0, sqrt(+Inf)=+Inf, negative -> ErrNaN); T-CONV: SetFloat64(NaN) -> ErrNaN, no other class panics.",
			"PREC0: no exported operation can reach round with an unexamined (possibly zero) precision (index out of range in round); FX-RBW: no setter dispatches on the receiver's previous form.",
			"PANIC: census of all reachable panic sites: ErrNaN only in the seven documented operations, re-panics in package context, `unreachable` only behind switches that handle every enumerator (ENUM: form, mode and acc only ever receive declared enumerators), the rest tabled by (function, message) with its discharge argument — a new site fails; GUARD: every usub is dominated by a ucmp edge implying |a| >= |b| (dec.sub's underflow panic stays dead); WORD rules out the known cause of panic(\"impossible\").",
			"FX-DEF: every value-defining operation leaves form and sign defined by the call on every normal return (no stale sign on a zero result, no stale form after an early exit).",
			"CMPSYM for ucmp: the magnitude comparison that lets Add/Sub of opposite-signed operands recognise the exactly zero sum answers 0 only when both mantissas are exhausted, -1/+1 symmetrically, and a non-zero word that only x (only y) has decides +1 (-1).",
		},
		"absence of run-time panics (index, nil) in the numeric code paths in general; the cell (+0)+(-0) under ToNegativeInf is left unconstrained (the code follows math/big, see DESIGN §5 F15)",
		techCDAI, cdaiAssume, fxAssume)
	p("C05",
		[]string{"T-UNARY@Sqrt(", "FX-STICKY@(*Decimal).Sqrt|sqrtInverse", "FX-RBW@(*Decimal).Sqrt", "FX-RAW@(*Decimal).Sqrt|sqrtInverse", "FX-GLOBAL@oneHalf|three", "FX-IMMUT@(*Decimal).Sqrt|sqrtInverse", "MODE@Sqrt", "SQRTSHAPE", "PRECWRAP@sqrtInverse"},
		[]string{
			"T-UNARY for Sqrt: special values; the receiver's precision and rounding mode are the same after the call as before (also on the finite path, where the root computation is entered with the receiver's precision and mode and a non-negative value).",
			"FX-STICKY: precision and mode of the receiver are restored on every exit of Sqrt (through MantExp -> Copy).",
			"FX-RBW/FX-RAW/FX-IMMUT: Sqrt does not depend on the receiver's previous contents, has no read-after-write hazard for z == x, and never writes x; FX-GLOBAL: the shared constants oneHalf and three are only ever operands.",
			"SQRTSHAPE: the root is produced by an arithmetic method whose receiver is z itself (z.Mul(z, t)), so z's precision and rounding mode govern the single final rounding — a Set from a temporary would round first under the temporary's mode; the Newton iteration targets the receiver's precision plus a positive constant. MODE: Sqrt does not write the mode after a rounding step. PRECWRAP: uint32 arithmetic on the working precision that wraps near MaxPrec — this obligation FAILS on the tree for sqrtInverse and is the known finding F19.",
		},
		"that prec+2 working digits and the final multiplication give the correctly rounded root (numeric, not applicable)",
		techCDAI, cdaiAssume, fxAssume)
	p("C06",
		[]string{"WORD", "CARRY", "ALIASGUARD", "OVERLAP", "POOL", "INIT", "NORMARG", "FX-GLOBAL@Threshold|decLeafSize|decPool", "CONST@threshold", "FX-IMMUT@dec.|decBasic|decKaratsuba|decAddAt", "DECNORM", "FILL", "SIBLING", "SPLITEVEN", "QHAT"},
		[]string{
			"QHAT: the product the correction loop of divBasic tests is recomputed from the corrected estimate on every way back into the loop; the normalisation factor of divLarge is base/(top word+1); in divRecursiveStep every decrement of an estimate is behind cmp > 0 (strict) and completed on every way out by the subtraction of the divisor's low part from the product and the give-back of its high part to the dividend, the borrow goes into the upper words exactly where there are any, and the `impossible` panics are behind the strict comparison too.",
			"WORD: every value stored into a mantissa word and every scalar word handed to a decimal kernel in mul/sqr/div and their helpers is a kernel result, a reduced value, a loaded word or a constant below the base (exceptions tabled with a count); CARRY: every carry/borrow/remainder is consumed except at tabled sites (one more discard fails).",
			"ALIASGUARD/OVERLAP: result buffers are not reused while they overlap an operand; in-place kernel uses have matching offsets; POOL: scratch buffers are owned exclusively between getDec and putDec; INIT: accumulating routines start from cleared or fully produced buffers (any-range); NORMARG: dec.cmp only sees normalised operands.",
			"FX-GLOBAL/CONST: the tuning thresholds are written by nobody outside test code and are initialised to constants >= 2; FX-IMMUT: the dec-layer routines never write a source slice.",
			"DECNORM: every dec-layer function returns a normalised value (norm(), another such function's result, v[:0] or its own parameter) — callers compare lengths and index the top word.",
			"FILL: element-by-element definitions of a destination cover every index (no data-dependent early exit that leaves old words in place).",
			"SIBLING: twin helpers that differ only in add vs sub kernels (decKaratsubaAdd/decKaratsubaSub) pass slices with the same bounds to corresponding kernel calls; CARRY window: a carry is not propagated into a one-word window with its carry-out discarded (one tabled site: the add-back of divBasic).",
			"SPLITEVEN: the Karatsuba routines cut an operand into two halves of len>>1 words only behind a test that the length is even (the thresholds that decide when they are entered are variables and may be odd).",
		},
		"that Karatsuba, schoolbook and recursive code compute the same product/quotient (arithmetic), buffer-length contracts (len(z) >= 6n), the partial clear in mul, the numeric `impossible` guards: NOT APPLICABLE to static analysis",
		"provenance dataflow on stored words, use-def of kernel results, dominance of alias guards and initialisers, slice-root analysis", fxAssume)
	p("C08",
		[]string{"WORD", "NORM", "EXP", "PREC0", "ENUM", "FX-OWN", "GOB@G2|G4|G9", "SIGN@usub", "DECNORM", "LOWCUT", "ROUNDSHAPE"},
		[]string{
			"An inductive invariant over all operation sequences, one clause per rule, the induction step being per exported method: words < base (WORD, and GOB G2 for decoded words); a computed mantissa is normalised and rounded before it can be observed as finite (NORM); the exponent stays within [MinExp, MaxExp] (EXP); finite implies precision > 0 (PREC0 and GOB G2 digits<=prec; GOB G4: a receiver that keeps its own smaller precision gets the decoded value rounded into it through SetPrec, never a plain store of the precision); form, mode and acc hold declared enumerators only (ENUM); each Decimal owns its mantissa array (FX-OWN).",
			"ROUNDSHAPE: round clears the digits below the precision in the lowest kept word on every finite exit reached after a cut or an increment (also after the all-nines carry).",
			"GOB G9: no error return of GobDecode lies behind a write to a field of the receiver or into the array of its mantissa (a rejected buffer cannot leave unvalidated words in a finite receiver).",
		},
		"`no non-zero digit beyond the precision` (the arithmetic of round's lsd)",
		"typestate and provenance dataflow on the SSA form, dominance of range tests", fxAssume)
	p("C07",
		[]string{"CONST", "ASM", "ASM-PURE", "BUILDTAGS", "FX-IMMUT@_g/|VV/|VW/|VU/|WW/", "OVERLAP", "WORDSUM", "DIVCORE", "FILL@_g|VWlarge", "KLEN"},
		[]string{
			"E6-CONST: word-base constants (_DB=10^_DW, _DW, _DWb, _DMax), pow10tab, pow2digitsTab, decMaxPow32/64, pow5tab, the reciprocal constant mP of div10W_g, every pow10DivTab64/32 entry (exact-division criterion proved for every word-sized dividend), layout of struct magic, enumerator equality with math/big.",
			"E7-ASM: the TEXT symbols of dec_arith_amd64.s are exactly the body-less declarations; every name+off(FP) reference matches the Go signature's frame layout and every result slot is written; #define _DB/_DMax/_DW and the reciprocal immediate equal the Go constants; every memory store goes through R10, loaded exactly once from z+0(FP), or into a result slot (kernels write only their destination); the 4x unrolled bodies of add10VV, sub10VV, add10VW, sub10VW and decCpy equal their tail loop instantiated four times; the three inlined copies of div10W equal div10W.",
			"ASM-PURE (pure-Go configurations): every kernel wrapper forwards its own parameters in order to the _g twin of the same name and signature; BUILDTAGS: assembly declarations and wrappers are exact complements over all occurring tags, the .s file follows the declarations, nothing else is build-conditional and no code dispatches on the architecture at run time; FX-IMMUT: the portable twins write only their destination slice. KLEN: no source vector handed to a decimal vector kernel is definitely shorter than its destination (lengths as linear forms over parameter lengths, slice bounds and make sizes): the assembly kernels run over len(z) alone.",
			"OVERLAP: census of every in-place kernel call site into the overlap patterns the kernels are written for (same offset for elementwise kernels, safe direction for the shifts).",
			"WORDSUM: in the portable kernels a word loaded from a vector is added with plain + only to a constant or a 0/1 carry (second result of add10WWW/sub10WWW/bits.Add/bits.Sub); ASM carry/: in the assembly a consumed carry never comes from another carry materialisation (SBBQ R, R), and the hardware carry of `vector word + word parameter` (which can pass 2^64) is read before the flags are overwritten.",
			"DIVCORE / ASM divcore/: the scalar primitives that reduce a binary double word by the word base do so on every path to a result, in the portable version (every return behind div10W) and in the assembly (no result slot written on a path that avoids the multiplication by the reciprocal); FILL copy-rest: a carry kernel that stops early and copies the rest returns a carry of 0 there; OVERLAP direction/: a shift kernel called with a destination above (below) a possibly aliasing source walks descending (ascending), in both versions.",
			"FILL: the portable kernels define every destination word (no data-dependent early exit without copying the rest).",
		},
		"instruction-level equivalence of an assembly body and its portable twin (needs symbolic execution of x86 code, a different technique family); that either equals the mathematical definition",
		"lints over the assembly text and build constraints, sibling-congruence of unrolled/inlined code sequences, constant/table evaluation (go/types constants + math/big on source constants)", fxAssume)
	All["C07"].QuickCfgs = []string{"amd64", "purego"}
	p("C09",
		[]string{"FX-STICKY", "FX-IMMUT", "FX-OWN", "T-UNARY@Set(|SetInt|SetUint64(|NewDecimal(|Sqrt(", "T-ARITH@prec=[0", "T-CONV@SetFloat64(", "GOB@G9"},
		[]string{
			"FX-STICKY: for every function and every *Decimal result parameter, the precision is written only when it was 0, or temporarily and restored on every exit, and the rounding mode never, except in the operations documented to copy attributes (Copy, SetMantExp, MantExp's out-parameter, GobDecode, SetPrec/SetMode themselves, package context); with entry precision 0 every success exit of the setters/operations has assigned it.",
			"FX-IMMUT: no function writes a field or a mantissa word of a *Decimal parameter that is not its result parameter; FX-OWN: no two Decimals share a mantissa array.",
			"The value a zero precision takes (max of the operand precisions, 34, 17, x's) is decided by T-ARITH/T-UNARY/T-CONV with enumerated precision orderings.",
			"GOB G9: a GobDecode that returns an error has not yet stored the decoded precision or mode (no error return behind a write to the receiver).",
		},
		"the parse path's default of 34 is checked only as 'assigned on every success exit'",
		techFX+"; plus E4 tables", cdaiAssume, fxAssume)
	p("C10",
		[]string{"T-ARITH-ALIAS", "FX-RBW", "FX-RAW", "FX-OWN", "ALIASGUARD", "OVERLAP", "INIT", "FILL"},
		[]string{
			"T-ARITH-ALIAS: the dispatch tables of Add/Sub/Mul/Quo/FMA hold under every binding of the receiver to an operand and of operands to each other, with the receiver's previous form, sign and accuracy unknown.",
			"FX-RBW: no result-defining operation reads the form, sign, accuracy, exponent, mantissa words or mantissa length its receiver held on entry (no read, no dependence).",
			"FX-RAW: for every (result, operand) pair of every function, no operand field is read after the same field of the result was written unless distinctness was established; FX-OWN: every Decimal owns its mantissa array.",
			"ALIASGUARD: mul, sqr and divLarge test alias(result, source) and drop their buffer before letting a non-elementwise routine write into it; OVERLAP: kernels used in place get destination and source at the same offset, dec methods called in place are the in-place-safe ones; INIT: accumulating routines never see stale words of a reused buffer (any-range).",
			"FILL: a loop that defines a reused destination buffer word by word (for i < len(z) { z[i] = ... }) stores on every iteration and has no data-dependent exit unless the rest is cleared or copied: no stale word of the receiver's previous mantissa survives into the result.",
		},
		"stale words in a reused mantissa buffer (dec.make does not clear) beyond the INIT rule",
		techFX+"; plus E4 tables under aliasing", cdaiAssume, fxAssume)
	p("C11",
		[]string{"FMTSHAPE@MarshalText|shortest|infinity|exponent-marker|fmtB|fmtF|/emit|Append/digits", "FX-IMMUT@(*Decimal).Append|(*Decimal).Text|(*Decimal).String|(*Decimal).Format|(*Decimal).fmt|(*Decimal).toa|(*Decimal).MarshalText|(*Decimal).bufSizeForFmt", "CONST@pow10tab|decMaxPow", "EXP", "SCANSHAPE@exp-bits|exponent-consumed", "STALE@toa|exp10|Append|Text|bufSizeForFmt|fmt"},
		[]string{
			"FMTSHAPE: MarshalText (hence JSON) calls Append with a constant negative precision in a format Parse reads; on the negative-precision path Append makes no rounding copy; the infinity spelling Append writes is one Parse compares against and the exponent markers of the b and p formats are among those scanExponent accepts. Decision tables (E4 with named unknowns, DESIGN §9f): for every format and precision class Append hands fmtE/fmtF the digit counts strconv prescribes and makes its rounding copy exactly where the requested digit lies inside the digits (Append/digits); the digit writers append the point, the filling zeros, the exponent letter, its sign and the two-digit minimum behind the comparisons that justify them, and print the exponent that belongs to the digits (fmtE|fmtB|fmtP/emit).",
			"EXP(ii)/(iv): no int32 arithmetic on the exponent in the writers; SCANSHAPE/exp-bits: the reader parses the exponent field as a signed 64-bit integer — fmtE writes x.exp-1 and fmtB x.exp-prec, which fall below MinInt32 for values near MinExp, so a narrower parse cannot read back what the writer produced.",
			"FX-IMMUT: no formatter writes its operand; CONST: pow10tab and decMaxPow (digit grouping used by both the writer and the reader) equal their mathematical definition.",
			"STALE: the formatting code reads x.exp and x.mant only where x is known finite (or through helpers called with a finite receiver): the text of a zero or an infinity cannot contain digits or an exponent left over from an earlier value of the variable.",
		},
		"round-trip equality of digits and exponent: NOT APPLICABLE to static analysis (digit placement in fmtE/fmtF/itoa and digit accumulation in scan are loop arithmetic over run-time values); this check is a thin necessary-condition claim only",
		"shape rules over the SSA form of the writers and the reader (constants written vs constants compared), write-set analysis, table evaluation", fxAssume)
	p("C12",
		[]string{"ERRNIL", "ERRDROP", "SCANSHAPE", "CONST@decMaxPow", "FX-RBW@(*Decimal).scan|(*Decimal).Parse|SetString|UnmarshalText|(*Decimal).Scan", "PREC0@scan|Parse|SetString|UnmarshalText|(*Decimal).Scan", "FX-STICKY@(*Decimal).scan|(*Decimal).Parse", "FX-ACC@scan", "DECNORM@dec.scan|mulAddWW|setWord", "SHIFTW", "WORKPREC@scan|pow2|ParseDecimal|workPrec"},
		[]string{
			"ERRNIL: on every return (per φ edge) of scan, Parse, SetString, ParseDecimal and the context wrappers a possibly non-nil error comes with the nil *Decimal and a nil error with a non-nil one (SetString: flag true exactly with a non-nil result); Parse reports success only on paths where the reader returned io.EOF after the number (no trailing characters).",
			"ERRDROP: every error returned by a callee inside the scanners is consumed (the three explicit `_ = r.UnreadByte()` excepted).",
			"SCANSHAPE: the '_' gate handed to scanExponent is the one dec.scan applies (base == 0); fraction digits of base 2/8/16 mantissas contribute 1/3/4 binary exponent units, base-10 digits one decimal unit. scanExponent and scanSign, followed with every byte read as an unknown classified by the path's own comparisons, agree with the grammar of the exponent (letters, optional sign, digits with inner separators) in how many bytes they read, which one they put back, the base and the error (scanExponent/automaton, scanSign/automaton); the decimal and binary exponent contributions of Decimal.scan are the documented linear forms per mantissa and exponent base, applied by Mul/Quo/not at all according to the sign the path knows ((*Decimal).scan/exponents); dec.scan shifts by a whole word only for a chunk base equal to the word base.",
			"CONST: decMaxPow tables; FX-RBW/PREC0/FX-STICKY/FX-ACC: scan reads nothing of the old receiver, rounds only with an examined precision (34 for 0), keeps the mode, and defines the accuracy.",
			"DECNORM: dec.scan returns a normalised mantissa on every path (also when whole words of leading zeros were shifted in).",
			"SHIFTW: pow2 (the scale factor of a literal with a binary exponent) shifts 1 << n only behind n < width.",
			"WORKPREC: the temporaries of the parser take their precision from the receiver's, not from MinPrec().",
		},
		"rounding of long literals, accuracy of the binary-exponent path (pow2), and agreement of the accepted language with math/big (would need the upstream source as a frozen reference); the separator automata of dec.scan/scanExponent",
		"nil-ness facts from dominating branch edges on the SSA form, per return and φ edge; use-def checks on error results; shape rules on the radix switch", fxAssume)
	p("C13",
		[]string{"FMTSHAPE@Append|Format|fmtB|fmtF|/emit|writeMultiple", "FX-IMMUT@(*Decimal).Append|(*Decimal).Text|(*Decimal).String|(*Decimal).Format|(*Decimal).fmt|(*Decimal).toa", "LOWCUT", "STALE@toa|exp10|Append|Text|bufSizeForFmt|fmt", "WORKPREC@Append"},
		[]string{
			"FMTSHAPE: with an explicit precision Append rounds a fresh copy (never x) that was given x's rounding mode; the precision it requests must be provably non-zero (0 means `keep the operand's precision`, i.e. no rounding) — this obligation FAILS on the pinned tree and is the known finding F12; Format has a case for every documented verb (e E f F g G b p v s) and consults the flags + space 0 - and width/precision. Format's decision table (E4): every verb maps to the format byte and default precision fmt documents for floats (an unknown verb gives one %!verb report and nothing else), and for every combination of the four flags, first byte of the text, width class and infinity the sign, the split-off sign byte, the padding and the order of the writes are those of the fmt layout (Format/verb, Format/layout); Append/digits and the emit clauses as under C11.",
			"FX-IMMUT: formatting never writes its operand.",
			"STALE: every read of x.exp / x.mant in the formatting path is behind a finiteness test (the exponent thresholds of %g/%f applied to a zero use 0, not the exponent of whatever finite value the variable held before, DESIGN §5 F20).",
			"WORKPREC: the rounding copy made by Append takes the requested digit count, not a MinPrec()-derived one.",
		},
		"digit counts, %g exponent thresholds, padding and layout: NOT APPLICABLE to static analysis (arithmetic on run-time lengths); thin necessary-condition claim only",
		"shape rules on the SSA form of Append/Format (receiver chain of the rounding copy, dominance of the precision test, lower-bound reasoning on the requested precision)", fxAssume)
	p("C14",
		[]string{"T-CONV@Int64(|Uint64(|Int(|Rat(", "T-UNARY@SetInt|SetUint64(|NewDecimal(|MinPrec(|IsInt(", "FX-STICKY@SetInt|SetUint64|SetRat|setBits64", "PREC0@SetInt|SetUint64|SetRat|setBits64|NewDecimal", "EXP@setBits64|SetInt|limitExp", "NORM@setBits64|SetInt", "MUSTFLOW@setBits64|SetInt", "SIGN@SetInt|setBits64", "OUTPARAM@Int/|Rat/", "NATLEN", "ROUNDONCE@SetRat|SetInt|setBits64", "FX-DEF@SetInt|SetUint64|SetRat|setBits64", "STALE@Int|Uint64|Rat|intMant", "FILL@setNat|setUint64|decToNat", "PRECWRAP@SetInt"},
		[]string{
			"T-CONV: Int64/Uint64/Int/Rat for ±0, ±Inf and finite values by exponent class give the documented saturation values and accuracies. OUTPARAM also: a nil z is never dereferenced (the parameter is a receiver only behind a non-nil test) and Rat writes the numerator on every path. T-UNARY NewDecimal: the magnitude handed on is |x|. CTX(T6): the factories of the context package are c.New().SetX(x) of the argument as given on every way out.",
			"T-UNARY: SetInt/SetInt64/SetUint64/NewDecimal set the sign before rounding, +0 for a zero argument, keep a non-zero precision and choose the documented default otherwise; MinPrec/IsInt special cases.",
			"FX-STICKY/PREC0 for the integer setters.",
			"EXP(iii): NewDecimal's caller-supplied exponent is clamped before it enters the int64 sum (saturation to ±0/±Inf instead of wrap-around); NORM/MUSTFLOW/SIGN for the integer setters.",
			"EXP(iv): the clamp of limitExp lies in [2^34, 2^62] (wide enough that clamped offsets stay out of range, narrow enough that the int64 sum cannot wrap). OUTPARAM: a caller-supplied *big.Int / *big.Rat is completely redefined on every exit of Int and Rat that returns it (for Rat: the denominator is written, not only the numerator).",
			"NATLEN: the number of binary words decToNat allocates, a pure function w(d) of the digit count, satisfies w(d)*_W >= bitlen(10^d-1) — decided by evaluating the formula for d = 1..4000 and three larger values against exact powers of ten (Int and Rat would otherwise drop the top word silently); ROUNDONCE: SetRat converts numerator and denominator exactly (into temporaries) and rounds once in Quo.",
			"STALE: Int, Int64, Uint64, Rat, IsInt read the exponent and mantissa only for a finite x (a zero's or infinity's leftover fields never reach the result).",
			"FILL: setNat/setUint64 (SetInt, SetUint64, SetRat) write every word of the reused mantissa buffer.",
			"PRECWRAP SetInt/count: the digit-count estimate of SetInt is not computed by scaling the 32-bit bit length with a constant in 32-bit arithmetic (the product wraps for integers beyond some ten thousand digits and the mantissa buffer comes out too short).",
		},
		"exactness of the radix conversions and of SetInt's precision estimate (numeric)",
		techCDAI, cdaiAssume, fxAssume)
	p("C15",
		[]string{"T-CONV@SetFloat|Float32 |Float64 ", "FX-RBW@SetFloat", "FX-STICKY@SetFloat", "OUTPARAM@Float/", "PRECWRAP@SetFloat|pow2", "NATLEN", "STALE@Float", "SHIFTW", "WORKPREC"},
		[]string{
			"T-CONV: SetFloat64 and SetFloat dispatch on the ARGUMENT's class: NaN -> ErrNaN, ±0 and ±Inf map to themselves with the argument's sign and Exact accuracy, a finite value enters the scaling arithmetic with the argument's sign and is rounded last with the receiver's precision; Float32/Float64 return the accuracy of the big.Float -> float step, and that of the Decimal -> big.Float step exactly when the second step was exact.",
			"FX-RBW: neither reads the receiver's previous form/sign; FX-STICKY: the temporary precision increment is undone on every exit.",
			"T-CONV (guard digit): the scaling Mul/Quo by 2**n runs at a precision strictly above the final one (otherwise the value is rounded twice). OUTPARAM: a caller-supplied *big.Float is completely redefined on every exit of Float that returns it. PRECWRAP: the temporary extra digit is taken only on a path where prec < MaxPrec holds (z.prec++ at MaxPrec wraps to 0: F18, fixed).",
			"NATLEN: Float/Float64/Float32 go through decToNat: its word count formula leaves room for the largest integer of the operand's digit count.",
			"STALE: Float reads x.exp / x.mant only under `case finite`.",
			"SHIFTW: the power of two that scales a binary mantissa is built as 1 << n only behind n < width of the shifted type (at n = width the shift yields 0 and SetFloat64 maps a whole binade to 0 or Inf).",
			"WORKPREC: the precision of every temporary on the conversion paths (the big.Float powers of five in Float, the scaling Decimals of SetFloat/SetFloat64) is computed from a destination's Prec(), never from MinPrec() (the digits an operand happens to hold).",
		},
		"nearest/faithful rounding of the conversions, double rounding in Float32/Float64 (numeric, not applicable)",
		techCDAI, cdaiAssume, fxAssume)
	p("C16",
		[]string{"T-CMP", "FX-DEP", "CMPSYM", "STALE@ucmp|Cmp"},
		[]string{
			"T-CMP: Cmp over all 36 class pairs x the three possible results of ucmp: classes ordered -Inf < -finite < ±0 < +finite < +Inf, equal-sign finite values compared by exactly one ucmp in the right operand order, independent of precision/mode/accuracy of the operands; Sign, IsZero, IsInf, Signbit agree with the classification.",
			"FX-DEP: Cmp, ucmp, ord, Sign, Signbit, IsZero, IsInf write nothing and read no precision, mode or accuracy.",
			"CMPSYM: inside Cmp, ucmp and dec.cmp every `a < b -> -1` has the sibling `a > b -> +1` over the same operands (no one-sided or non-strict comparison), ucmp decides on the exponents before the mantissa words, answers 0 only when both mantissas are exhausted, and a non-zero word that only one operand has decides +1 for x and -1 for y.",
			"STALE: ucmp, which compares exponents and mantissa words without looking at the form, is called with finite receivers only (decided at the call sites in Add/Sub; for Cmp by T-CMP).",
		},
		"that ucmp's zero-padding loop compares the right words (loop arithmetic)",
		techCDAI, cdaiAssume, fxAssume)
	p("C17",
		[]string{"GOB", "FX-OWN@GobDecode", "MODE@GobDecode", "LOWCUT@GobEncode", "PRECWRAP@GobEncode", "STALE@GobEncode"},
		[]string{
			"GOB G1: every buf[k], buf[k:] and fixed-width read in GobDecode is dominated by a comparison establishing len(buf) >= what it needs (no panic on truncated input).",
			"G2: the decoded mode, accuracy and form are compared with the largest enumerator before being stored; the decoded mantissa is rejected unless non-empty, normalised (top word >= base/10), every word < base (a test inside a loop over the mantissa whose header dominates the store) and its digit count fits the decoded precision (so finite implies precision > 0); it is decoded into a fresh buffer.",
			"G3: GobEncode and GobDecode agree on (shift, mask, bias) of every header field and on the byte offsets of prec, exp and mantissa.",
			"G4: a receiver whose precision was not 0 gets its precision and mode back (every success exit passes the restoring block, which calls SetPrec(oldPrec), i.e. rounds); G5: the version is tested before anything is decoded.",
			"MODE: in GobDecode the receiver's own rounding mode is back in force before SetPrec rounds the decoded value into the receiver's precision (a mode written after the rounding call means the sender's mode did the rounding); LOWCUT: GobEncode encodes the top (most significant) words of the mantissa, never a prefix m[:n]. PRECWRAP: the number of words to encode is not computed in uint32 from the precision (it wrapped to 0 near MaxPrec: F17, fixed).",
			"STALE: GobEncode reads exponent and mantissa of a finite x only, so the encoding of a zero or infinity does not depend on earlier contents.",
			"G6/G7: the byte helpers index a byte slice at v-c only behind v >= c (or in a counted descent from len(buf)), and store only bytes of mantissa words; G8: every successful return of GobDecode has defined form and sign of the receiver — the empty encoding (a nil or default value on the other side) is the value 0, not whatever the receiver held; G9: no error return lies behind a write to the receiver (a rejected buffer leaves value, precision and mode as they were).",
		},
		"value equality after a round trip (word order inside dec.bytes/setBytes is loop arithmetic)",
		"dominance/interval analysis on the SSA form of GobDecode plus sibling agreement with GobEncode", fxAssume)
	p("C19",
		[]string{"CTX", "FX-IMMUT@context.", "MODE@context."},
		[]string{
			"CTX T1: every Context operation with a result parameter z tests c.err before any effect and, while latched, returns z from a block without calls or stores; T2: the decimal operation is applied to c.apply(z) (Set: c.apply(z.Copy(x))) and apply leaves z with c.mode and c.prec on every path.",
			"T3: every operation whose decimal counterpart may panic with ErrNaN (computed over the call graph) defers a handler that calls recover, latches into c.err only a value whose dynamic type was asserted to be decimal.ErrNaN, re-panics anything else with the original value, and sets the named result to z; T4: operations without a handler call only operations that cannot panic with ErrNaN.",
			"T5: c.err is written only by those handlers and by Err, which returns the value loaded before clearing; T6: the New* factories build on c.New(), which carries c.mode and c.prec; T7: SetMode/SetPrec/New store their (clamped) arguments. FX-IMMUT: operands of Context operations are never written. CTX(T2)/mode-before-rounding and MODE: apply installs the context's mode before SetPrec rounds (Context.Set and friends hand apply a z that already holds the value).",
		},
		"numeric correctness of the wrapped operation (C01); that NewFloat64(NaN) panics through a Context is recorded as an observation, not armed",
		"typestate rules on the SSA form of package context (dominance of the latch test, must-call of apply, shape of the deferred recover handlers)", fxAssume)
	p("C18",
		[]string{"FX-IMMUT", "FX-OWN", "FX-GLOBAL", "POOL", "ASM@stores/"},
		[]string{
			"A data race needs two accesses to one location, one of them a write. FX-IMMUT + FX-OWN: every function writes only memory rooted at its result parameter, fresh allocations or scratch buffers, never fields or mantissa words of an operand, and no two Decimals share an array.",
			"FX-GLOBAL: no package-level variable is written after init (the tuning thresholds only by test code), the shared Decimals oneHalf/three are only ever operands, decPool is a sync.Pool.",
			"POOL: a pooled scratch buffer is put back at most once on any path, never used afterwards, never returned or stored into a Decimal (temps[depth] released by its owner); ASM stores/: every assembly kernel stores only through its destination pointer or into result slots.",
		},
		"exclusive ownership of pooled scratch buffers between getDec and putDec (POOL rule) and the store targets of the assembly kernels (E7) where not yet listed; equality of concurrent and sequential results beyond 'no shared write'",
		techFX, fxAssume)
	p("C20",
		[]string{"T-UNARY@MantExp(|SetMantExp(|SetBitsExp(|BitsExp(", "PREC0@SetBitsExp|SetMantExp|MantExp", "FX-RBW@SetBitsExp|SetMantExp", "FX-RAW@MantExp|SetMantExp", "FX-OWN@BitsExp|SetBitsExp|MantExp|SetMantExp|Copy", "FX-STICKY@SetBitsExp", "EXP@SetBitsExp|SetMantExp|limitExp", "NORM@SetBitsExp|top-word", "MUSTFLOW@SetBitsExp", "SIGN@SetBitsExp", "LOWCUT", "FX-DEF@SetBitsExp|SetMantExp", "STALE@MantExp|BitsExp|MinPrec"},
		[]string{
			"T-UNARY: MantExp returns 0 and copies form/sign for ±0/±Inf, returns x's exponent and leaves mant with exponent 0 otherwise (also for mant nil and mant = x); SetMantExp copies zeros/infinities without scaling and enters setExpAndRound with exponent(mant)+exp and the sign already set, also for z = mant; SetBitsExp clears the sign before it rounds, gives an all-zero slice the exact value +0 and enters setExpAndRound exactly on the path that found the stripped mantissa non-empty; BitsExp never hands out the stale buffer of a zero or an infinity.",
			"PREC0: SetBitsExp/SetMantExp never round with precision 0; FX-RBW: nothing of the old receiver is read; FX-RAW: MantExp(x == mant) and SetMantExp(z == mant) have no read-after-write hazard; FX-OWN: the only functions that share a mantissa array with the caller are SetBitsExp and BitsExp (documented).",
			"EXP(iii)/(iv): the int64 exponent arithmetic of SetBitsExp/SetMantExp cannot wrap before the range check (caller's term clamped, with a clamp in [2^34, 2^62] so that offsets that cancel against the other summand still give the right in-range result); NORM + MUSTFLOW: SetBitsExp strips zero words, normalises, and both corrections reach the exponent.",
			"FX-DEF: SetBitsExp/SetMantExp define form and sign on every return (an all-zero slice gives +0 whatever sign the receiver had).",
			"STALE: MantExp and MinPrec read exponent/mantissa only for a finite x; BitsExp hands the raw fields out as documented (tabled).",
		},
		"the exponent-correction arithmetic of SetBitsExp/BitsExp (numeric)",
		techCDAI, cdaiAssume, fxAssume)
}
