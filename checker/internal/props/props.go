// Package props maps each property of /verif/properties.jsonl to the rules
// that decide its structural clauses, with the text that goes into the evidence.
package props

type Prop struct {
	ID         string
	Rules      []string // rule selectors: "RULE" or "RULE@substr1|substr2" (constructs containing one of the substrings)
	Decided    string   // clauses decided (goes to coverage.explanation)
	NotDecided string   // what the check does not decide
	Assume     []string // assumptions / trusted base
	Technique  string   // a few words naming the deciding method
}

var All = map[string]*Prop{}

// Pending gives the reason a property is (still) listed under not_applicable.
var Pending = map[string]string{}

func add(p *Prop) {
	p.Assume = append(append([]string{}, commonAssume...), p.Assume...)
	All[p.ID] = p
}

var commonAssume = []string{
	"go/types and go/ssa (x/tools v0.29.0) model the analysed build configuration faithfully (quick: amd64; thorough: amd64, amd64 with the pure-Go build tags, 386)",
	"nothing in /repo is executed; every verdict is a statement about the source as loaded at run time",
}

var cdaiAssume = []string{
	"E4 abstract interpreter: mantissas, lengths and all results of dec-layer functions are unknown (⊤); branches on them fork; opaque callees havoc exactly the fields their store summary says they may write",
	"pow2(n) is a finite positive value (n is bounded by a binary floating-point exponent); round() on a non-finite value only resets acc (checked by T-ROUND/nonfinite)",
	"a finite Decimal has a non-empty mantissa (so same()/alias() of one finite Decimal's mantissa with itself are true)",
}

const techCDAI = "finite-domain abstract interpretation of the SSA form (constant propagation with branch pruning and path forking over enumerated operand classes/modes/digits), compared with IEEE 754 tables written from the standard"

func init() {
	add(&Prop{ID: "C01",
		Rules:      []string{"T-ROUND", "T-SETEXP", "T-ARITH@Add(|Sub(|Mul(|Quo(", "T-UNARY@Set(|SetPrec(|Neg(|Abs("},
		Decided:    "T-ROUND: the rounding decision of round() equals the IEEE 754 direction table for all 6 modes x 2 signs x 10 rounding digits x sticky (argument or mantissa) x parity, with the all-nines carry stepping the exponent or overflowing to Inf; T-SETEXP: exponent underflow -> zero and overflow -> Inf of the result's sign before rounding, sticky bit handed to round; T-ARITH: for every operand class pair and mode the sign is final and the operands are in the right order before the unsigned operation, the receiver's own precision is in force, a zero operand yields the other operand rounded under ITS final sign; T-UNARY: Set/SetPrec/Neg/Abs round exactly when the precision shrinks and with the documented sign.",
		NotDecided: "that alignment shifts, digit positions, products and quotients are the right numbers (numeric core, not applicable to static analysis)",
		Assume:     cdaiAssume, Technique: techCDAI,
	})
	add(&Prop{ID: "C02",
		Rules:      []string{"T-ROUND", "T-SETEXP", "T-ARITH@Add(|Sub(|Mul(|Quo(|FMA(", "T-UNARY@Set(|SetPrec(|SetInf(|SetMode(|SetInt|SetUint64(|NewDecimal(|SetMantExp("},
		Decided:    "accuracy columns of T-ROUND (acc = sign of stored-exact as a function of increment and sign; Exact iff rounding digit = 0 and no sticky) and T-SETEXP (underflow/overflow accuracies); every special-value result of Add/Sub/Mul/Quo/FMA and of the setters is reported Exact; the exact-cancellation branch reports Exact; no rounding happens under a sign that is flipped afterwards.",
		NotDecided: "that the sticky bit summarises exactly the discarded digits (numeric)",
		Assume:     cdaiAssume, Technique: techCDAI,
	})
	add(&Prop{ID: "C03",
		Rules:      []string{"T-ARITH@FMA(", "T-ARITH-ALIAS@FMA("},
		Decided:    "T-ARITH for FMA over {±0, ±finite, ±Inf}^3 x 6 modes x precision orderings: ErrNaN exactly for 0*Inf and Inf-Inf forms, IEEE zero-sum sign including a zero u, the product computed exactly (precision MaxPrec, restored afterwards) and rounded once, sign and operand order of the final unsigned add/sub; T-ARITH-ALIAS: the same table with the receiver bound to x, y, u and operands bound to each other.",
		NotDecided: "the numeric result for finite operands; whether an intermediate product outside the exponent range is handled exactly",
		Assume:     cdaiAssume, Technique: techCDAI,
	})
	add(&Prop{ID: "C04",
		Rules:      []string{"T-ARITH", "T-UNARY@Sqrt(", "T-CONV@SetFloat"},
		Decided:    "T-ARITH: every class combination of Add/Sub/Mul/Quo/FMA in every mode gives the IEEE form and sign or panics with ErrNaN, and nothing else panics with ErrNaN; T-UNARY: Sqrt special values (sqrt(±0)=±0, sqrt(+Inf)=+Inf, negative -> ErrNaN); T-CONV: SetFloat64(NaN) -> ErrNaN, no other class panics.",
		NotDecided: "absence of run-time panics (index, nil) in the numeric code paths in general; the cell (+0)+(-0) under ToNegativeInf is left unconstrained (the code follows math/big, see DESIGN §5 F15)",
		Assume:     cdaiAssume, Technique: techCDAI,
	})
	add(&Prop{ID: "C05",
		Rules:      []string{"T-UNARY@Sqrt("},
		Decided:    "T-UNARY for Sqrt: special values; the receiver's precision and rounding mode are the same after the call as before (also on the finite path, where the root computation is entered with the receiver's precision and mode and a non-negative value).",
		NotDecided: "that prec+2 working digits and the final multiplication give the correctly rounded root (numeric, not applicable)",
		Assume:     cdaiAssume, Technique: techCDAI,
	})
	add(&Prop{ID: "C07",
		Rules:      []string{"CONST"},
		Decided:    "E6-CONST: word-base constants (_DB=10^_DW, _DW, _DWb, _DMax), pow10tab, pow2digitsTab, decMaxPow32/64, pow5tab, the reciprocal constant mP of div10W_g, every pow10DivTab64/32 entry (exact-division criterion proved for every word-sized dividend), layout of struct magic, enumerator equality with math/big.",
		NotDecided: "instruction-level equivalence of an assembly body and its portable twin (needs symbolic execution of x86 code, a different technique family)",
		Technique:  "constant/table evaluation against mathematical definitions (go/types constants + math/big on source constants)",
	})
	add(&Prop{ID: "C10",
		Rules:      []string{"T-ARITH-ALIAS"},
		Decided:    "T-ARITH-ALIAS: the dispatch tables of Add/Sub/Mul/Quo/FMA hold under every binding of the receiver to an operand and of operands to each other (z=x, z=y, x=y, z=x=y, z=u, x=u, y=u, all equal), with the receiver's previous form, sign and accuracy unknown.",
		NotDecided: "stale words in a reused mantissa buffer; field-level read-after-write hazards outside the dispatch code (FX rules, pending)",
		Assume:     cdaiAssume, Technique: techCDAI,
	})
	add(&Prop{ID: "C14",
		Rules:      []string{"T-CONV@Int64(|Uint64(|Int(|Rat(", "T-UNARY@SetInt|SetUint64(|NewDecimal(|MinPrec(|IsInt("},
		Decided:    "T-CONV: Int64/Uint64/Int/Rat for ±0, ±Inf and finite values by exponent class give the documented saturation values and accuracies; T-UNARY: SetInt/SetInt64/SetUint64/NewDecimal set sign before rounding, +0 for a zero argument, keep a non-zero precision and choose the documented default otherwise; MinPrec/IsInt special cases.",
		NotDecided: "exactness of the radix conversions and of SetInt's precision estimate (numeric)",
		Assume:     cdaiAssume, Technique: techCDAI,
	})
	add(&Prop{ID: "C15",
		Rules:      []string{"T-CONV@SetFloat"},
		Decided:    "T-CONV: SetFloat64 and SetFloat dispatch on the ARGUMENT's class: NaN -> ErrNaN, ±0 and ±Inf map to themselves with the argument's sign and Exact accuracy, a finite value enters the scaling arithmetic with the argument's sign and is rounded last with the receiver's precision.",
		NotDecided: "nearest/faithful rounding of the conversions, double rounding in Float32/Float64 (numeric, not applicable)",
		Assume:     cdaiAssume, Technique: techCDAI,
	})
	add(&Prop{ID: "C16",
		Rules:      []string{"T-CMP"},
		Decided:    "T-CMP: Cmp over all 36 class pairs x the three possible results of ucmp: classes ordered -Inf < -finite < ±0 < +finite < +Inf, equal-sign finite values compared by exactly one ucmp in the right operand order, independent of precision/mode/accuracy of the operands; Sign, IsZero, IsInf, Signbit agree with the classification.",
		NotDecided: "that ucmp's zero-padding loop compares the right words (loop arithmetic)",
		Assume:     cdaiAssume, Technique: techCDAI,
	})
	add(&Prop{ID: "C20",
		Rules:      []string{"T-UNARY@MantExp(|SetMantExp("},
		Decided:    "T-UNARY: MantExp returns 0 and copies form/sign for ±0/±Inf, returns x's exponent and leaves mant with exponent 0 otherwise (also for mant nil and mant = x); SetMantExp copies zeros/infinities without scaling and enters setExpAndRound with exponent(mant)+exp and the sign already set, also for z = mant.",
		NotDecided: "the exponent-correction arithmetic of SetBitsExp/BitsExp (numeric); PREC0/EXP/MUSTFLOW rules pending",
		Assume:     cdaiAssume, Technique: techCDAI,
	})
}
