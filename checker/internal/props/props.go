// Package props maps each property of /verif/properties.jsonl to the rules
// that decide its structural clauses, with the text that goes into the evidence.
package props

type Prop struct {
	ID         string
	Rules      []string
	Decided    string   // clauses decided (goes to coverage.explanation)
	NotDecided string   // what the check does not decide
	Assume     []string // assumptions / trusted base
	Technique  string   // a few words naming the deciding method
}

var All = map[string]*Prop{}

// Pending gives the reason a property is (still) listed under not_applicable.
var Pending = map[string]string{}

func add(p *Prop) { All[p.ID] = p }

var commonAssume = []string{
	"go/types and go/ssa (x/tools v0.29.0) model the analysed configuration faithfully; the three configurations analysed are amd64, amd64+pure-Go tags, 386",
	"nothing in /repo is executed; every verdict is a statement about the source as loaded at run time",
}

func init() {
	add(&Prop{ID: "C07",
		Rules:      []string{"CONST"},
		Decided:    "E6-CONST: word-base constants (_DB=10^_DW, _DW, _DWb, _DMax), pow10tab, pow2digitsTab, decMaxPow32/64, pow5tab, the reciprocal constant mP of div10W_g, every pow10DivTab64/32 entry (exact-division criterion proved for every word-sized dividend), layout of struct magic, enumerator equality with math/big.",
		NotDecided: "instruction-level equivalence of an assembly body and its portable twin (needs symbolic execution of x86 code, a different technique family)",
		Assume:     commonAssume,
		Technique:  "constant/table evaluation against mathematical definitions (go/types constants + math/big on source constants)",
	})
}
