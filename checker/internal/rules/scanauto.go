package rules

// SCANSHAPE scanExponent/automaton[…], scanSign/automaton — the exponent scanner as an automaton
// over character classes. The paths of the scanner are followed with every byte it reads as a
// named unknown (and every read either delivering a byte or the end of the input); a path's own
// comparisons say which class each byte is in. The same classes drive the grammar
//
//	exponent = ( "e" | "E" | "p" | "P" ) [ "+" | "-" ] digits      ("p" only where permitted)
//	digits   = digit { [ "_" ] digit }                              ("_" only where permitted)
//
// and the two are compared: how many bytes were read and whether the one that does not belong to
// the number was put back, the base, and the error (none, "no digits", "misplaced _", or
// whatever strconv.ParseInt says about the digits). A path is judged only where its comparisons
// answer the grammar's questions; a byte the path splits at a neighbouring value ('0' < ch for
// '0' <= ch) is a definite difference. Loops are followed for four rounds.

import (
	"fmt"
	"go/constant"
	"go/token"
	"math"
	"strings"

	"golang.org/x/tools/go/ssa"

	"decverif/internal/cdai"
	"decverif/internal/model"
	"decverif/internal/ob"
)

const (
	errNone = iota
	errNoDig
	errSep
	errParse
	errOther
)

func scanInterp(m *model.Model) *cdai.Interp {
	it := cdai.New(m)
	it.Budget = 2000000
	it.GlobalSyms = true
	it.Models["invoke.ReadByte"] = func(it *cdai.Interp, st *cdai.State, name string, args []cdai.Val) ([]cdai.Val, bool) {
		st.Counter["reads"]++
		c := cdai.Sym{Name: fmt.Sprintf("c%d", st.Counter["reads"])}
		return []cdai.Val{cdai.Tuple{c, cdai.Const{}}, cdai.Tuple{cdai.Int(0), cdai.Sym{Name: "global:io.EOF"}}}, true
	}
	it.Models["invoke.UnreadByte"] = func(it *cdai.Interp, st *cdai.State, name string, args []cdai.Val) ([]cdai.Val, bool) {
		return []cdai.Val{cdai.Const{}}, true
	}
	it.Models["builtin.append"] = func(it *cdai.Interp, st *cdai.State, name string, args []cdai.Val) ([]cdai.Val, bool) {
		return []cdai.Val{cdai.TopV}, true
	}
	it.Models["strconv.ParseInt"] = func(it *cdai.Interp, st *cdai.State, name string, args []cdai.Val) ([]cdai.Val, bool) {
		return []cdai.Val{cdai.Tuple{cdai.Sym{Name: "val"}, cdai.Const{}}, cdai.Tuple{cdai.Int(0), cdai.Sym{Name: "global:parse"}}}, true
	}
	isErr := func(v cdai.Val) (string, bool) {
		switch x := v.(type) {
		case cdai.Const:
			if x.V == nil {
				return "nil", true
			}
		case cdai.Sym:
			if strings.HasPrefix(x.Name, "global:") {
				return x.Name, true
			}
		case cdai.Iface:
			return "", false
		}
		return "", false
	}
	it.BinHook = linHook(func(n string) bool { return len(n) >= 2 && n[0] == 'c' && n[1] >= '0' && n[1] <= '9' }, func(op token.Token, a, b cdai.Val) (cdai.Val, bool) {
		if op != token.EQL && op != token.NEQ {
			return nil, false
		}
		na, oka := isErr(a)
		nb, okb := isErr(b)
		if !oka || !okb || (na == "nil" && nb == "nil") {
			return nil, false
		}
		return cdai.Bool((na == nb) == (op == token.EQL)), true
	})
	it.StHook = linStHook(func(n string) bool { return len(n) >= 2 && n[0] == 'c' && n[1] >= '0' && n[1] <= '9' }, nil)
	pureHelpers(it)
	return it
}

type scanRead struct {
	sym string // "" for end of input
	nd  int
}

func runScanAutomaton(m *model.Model, s *ob.Set) {
	const R = "SCANSHAPE"
	errClass := func(v cdai.Val) int {
		switch x := v.(type) {
		case cdai.Const:
			if x.V == nil {
				return errNone
			}
		case cdai.Sym:
			switch {
			case strings.HasSuffix(x.Name, ".errNoDigits"):
				return errNoDig
			case strings.HasSuffix(x.Name, ".errInvalSep"):
				return errSep
			case x.Name == "global:parse":
				return errParse
			}
		}
		return errOther
	}
	errName := []string{"no error", "the no-digits error", "the misplaced-separator error", "strconv.ParseInt's error", "another error"}
	if fn := m.TryLookup("scanExponent"); fn != nil && len(fn.Params) == 3 {
		pos := m.Pos(fn.Pos())
		for _, b2 := range []bool{false, true} {
			for _, sep := range []bool{false, true} {
				name := fmt.Sprintf("scanExponent/automaton[base2ok=%v,sepOk=%v]", b2, sep)
				it := scanInterp(m)
				var outs []cdai.Outcome
				why := ""
				func() {
					defer func() {
						if r := recover(); r != nil {
							why = fmt.Sprint(r)
						}
					}()
					outs = it.Run(fn, []cdai.Val{cdai.Sym{Name: "r"}, cdai.Bool(b2), cdai.Bool(sep)}, cdai.NewState())
				}()
				if why != "" || len(outs) == 0 {
					m.Blind("SCANSHAPE %s: the constant propagation does not finish (%s)", name, why)
					continue
				}
				var fails []string
				fail := func(f string) {
					for _, g := range fails {
						if g == f {
							return
						}
					}
					if len(fails) < 4 {
						fails = append(fails, f)
					}
				}
				judged := 0
				for _, o := range outs {
					if o.Kind != "return" || len(o.St.Imprec) > 0 || len(o.Vals) != 3 {
						continue
					}
					fs := factsOf(o.St.Decs)
					if fs.contradictory() || decidesOnUnknown(o.St.Decs) {
						continue
					}
					var reads []scanRead
					unreadAfter := map[int]int{} // number of reads made when an UnreadByte happened
					nUnread := 0
					var parse *cdai.Event
					for i := range o.St.Trace {
						ev := &o.St.Trace[i]
						switch ev.Fn {
						case "invoke.ReadByte":
							if t, ok := ev.Ret.(cdai.Tuple); ok && len(t) == 2 {
								if sy, ok := t[0].(cdai.Sym); ok {
									reads = append(reads, scanRead{sy.Name, ev.NDec})
								} else {
									reads = append(reads, scanRead{"", ev.NDec})
								}
							}
						case "invoke.UnreadByte":
							unreadAfter[len(reads)]++
							nUnread++
						case "strconv.ParseInt":
							parse = ev
						}
					}
					undecided, straddle := false, ""
					is := func(c string, op token.Token, k int64) bool {
						l := linF{t: map[string]int64{c: 1}, c: -k}
						kn, a := fs.ask(l, op)
						if !kn {
							undecided = true
							if f := fs["1*"+c]; f != nil && (f.lo != math.MinInt64 || f.hi != math.MaxInt64) && straddle == "" {
								straddle = fmt.Sprintf("byte %s is told apart at another value than the grammar does (the grammar asks %s %q; the path knows the byte only in [%s, %s])", c[1:], op, rune(k), boundStr(f.lo), boundStr(f.hi))
							}
						}
						return a
					}
					ri := 0
					next := func() (scanRead, bool) {
						if ri >= len(reads) {
							return scanRead{}, false
						}
						ri++
						return reads[ri-1], true
					}
					wantErr, wantBase, wantUnread := errNone, int64(10), -1 // wantUnread: index (reads made) at which the byte is put back
					short := false
					func() {
						r0, ok := next()
						if !ok {
							short = true
							return
						}
						if r0.sym == "" {
							return
						}
						isE := is(r0.sym, token.EQL, 'e') || is(r0.sym, token.EQL, 'E')
						isP := !isE && (is(r0.sym, token.EQL, 'p') || is(r0.sym, token.EQL, 'P'))
						switch {
						case isE:
						case isP && b2:
							wantBase = 2
						default:
							wantUnread = ri
							return
						}
						cur, ok := next()
						if !ok {
							short = true
							return
						}
						if cur.sym != "" && (is(cur.sym, token.EQL, '+') || is(cur.sym, token.EQL, '-')) {
							if cur, ok = next(); !ok {
								short = true
								return
							}
						}
						hasDigits, invalSep := false, false
						prev := byte('.')
						for cur.sym != "" {
							if is(cur.sym, token.GEQ, '0') && is(cur.sym, token.LEQ, '9') {
								hasDigits, prev = true, '0'
							} else if sep && is(cur.sym, token.EQL, '_') {
								if prev != '0' {
									invalSep = true
								}
								prev = '_'
							} else {
								wantUnread = ri
								break
							}
							if undecided {
								return
							}
							if cur, ok = next(); !ok {
								short = true
								return
							}
						}
						switch {
						case !hasDigits && parse != nil:
							// the digits are converted although there are none: the conversion of an empty
							// (or sign-only) text always fails — an error either way
							if t, ok := parse.Ret.(cdai.Tuple); ok && len(t) == 2 && errClass(t[1]) == errParse {
								wantErr = errParse
							} else {
								wantErr = -2 // no input takes this path
							}
						case !hasDigits:
							wantErr = errNoDig
						case parse == nil:
							wantErr = -1 // the digits must be converted
						default:
							if t, ok := parse.Ret.(cdai.Tuple); ok && len(t) == 2 && errClass(t[1]) == errParse {
								wantErr = errParse
							} else if invalSep || prev == '_' {
								wantErr = errSep
							}
						}
					}()
					if undecided {
						if straddle != "" {
							fail(straddle)
						}
						continue
					}
					if wantErr == -2 {
						continue
					}
					judged++
					if short {
						fail(fmt.Sprintf("the scanner stops reading after %d bytes where the grammar has to look at the next one", len(reads)))
						continue
					}
					if ri < len(reads) {
						fail(fmt.Sprintf("the scanner reads %d bytes where the number ends after %d (it consumes input that does not belong to the number)", len(reads), ri))
						continue
					}
					switch {
					case wantUnread < 0 && nUnread > 0:
						fail("a byte that belongs to the number (or the end of the input) is put back")
					case wantUnread >= 0 && nUnread == 0:
						fail("the byte that does not belong to the number is not put back: the caller never sees it (trailing characters go unnoticed, Scan loses a byte)")
					case wantUnread >= 0 && (nUnread != 1 || unreadAfter[wantUnread] != 1):
						fail("the byte that does not belong to the number is not put back exactly once, right after it was read")
					}
					got := errClass(o.Vals[2])
					if wantErr == -1 {
						fail("digits were read but never converted (strconv.ParseInt)")
					} else if got != wantErr && got != errOther {
						fail(fmt.Sprintf("the scanner returns %s where the grammar gives %s", errName[got], errName[wantErr]))
					}
					if k, ok := cdai.ConstInt(o.Vals[1]); ok && k != wantBase && (wantErr == errNone) {
						fail(fmt.Sprintf("the exponent base returned is %d, the letter read means %d", k, wantBase))
					}
					if wantErr == errNone && wantUnread != 1 && parse != nil {
						if sy, ok := o.Vals[0].(cdai.Sym); !ok || sy.Name != "val" {
							if k, isK := cdai.ConstInt(o.Vals[0]); isK {
								fail(fmt.Sprintf("the exponent returned is the constant %d, not the value of the digits", k))
							}
						}
					}
				}
				if judged == 0 {
					m.Blind("SCANSHAPE %s: no path could be judged", name)
					continue
				}
				if len(fails) > 0 {
					s.Bad(R, name, pos, fails[0], fails[1:]...)
				} else {
					s.Ok(R, name, pos, fmt.Sprintf("%d paths judged against the grammar", judged))
				}
			}
		}
	}
	// ---- scanSign: one byte; '-' → true, '+' → false, anything else is put back; an error reads as no sign
	if fn := m.TryLookup("scanSign"); fn != nil && len(fn.Params) == 1 {
		pos := m.Pos(fn.Pos())
		it := scanInterp(m)
		var outs []cdai.Outcome
		func() {
			defer func() { recover() }()
			outs = it.Run(fn, []cdai.Val{cdai.Sym{Name: "r"}}, cdai.NewState())
		}()
		var fails []string
		judged := 0
		for _, o := range outs {
			if o.Kind != "return" || len(o.Vals) != 2 {
				continue
			}
			fs := factsOf(o.St.Decs)
			if fs.contradictory() {
				continue
			}
			nread, eof, nunread := 0, false, 0
			for _, ev := range o.St.Trace {
				switch ev.Fn {
				case "invoke.ReadByte":
					nread++
					if t, ok := ev.Ret.(cdai.Tuple); ok && len(t) == 2 {
						if _, isSym := t[0].(cdai.Sym); !isSym {
							eof = true
						}
					}
				case "invoke.UnreadByte":
					nunread++
				}
			}
			if nread != 1 {
				fails = append(fails, fmt.Sprintf("scanSign reads %d bytes, a sign is one byte", nread))
				continue
			}
			neg, negK := cdai.ConstBool(o.Vals[0])
			if eof {
				judged++
				if negK && neg {
					fails = append(fails, "a failed read is reported as a minus sign")
				}
				if nunread != 0 {
					fails = append(fails, "a byte is put back although none was read")
				}
				continue
			}
			c := linF{t: map[string]int64{"c1": 1}}
			km, isMinus := fs.ask(c.add(linConst('-'), -1), token.EQL)
			kp, isPlus := fs.ask(c.add(linConst('+'), -1), token.EQL)
			if !km || (!isMinus && !kp) {
				continue
			}
			judged++
			switch {
			case isMinus && negK && !neg:
				fails = append(fails, "'-' is not reported as a minus sign")
			case !isMinus && negK && neg:
				fails = append(fails, "a byte other than '-' is reported as a minus sign")
			case (isMinus || isPlus) && nunread != 0:
				fails = append(fails, "the sign byte is put back after it was accepted")
			case !isMinus && !isPlus && nunread != 1:
				fails = append(fails, "a byte that is no sign is not put back exactly once")
			}
		}
		if judged == 0 {
			m.Blind("SCANSHAPE scanSign/automaton: no path could be judged")
		} else if len(fails) > 0 {
			s.Bad(R, "scanSign/automaton", pos, fails[0], fails[1:]...)
		} else {
			s.Ok(R, "scanSign/automaton", pos, fmt.Sprintf("%d paths judged", judged))
		}
	}
}

// decidesOnUnknown: the path forked on a comparison with an operand the propagation knows nothing
// about (the result of a call it does not follow): which inputs take the path cannot be told.
func decidesOnUnknown(decs []cdai.Decision) bool {
	for _, d := range decs {
		if cdai.IsTop(d.X) || (d.Op != token.ILLEGAL && cdai.IsTop(d.Y)) {
			return true
		}
	}
	return false
}

// SCANSHAPE (*Decimal).scan/exponents[b=…,ebase=…] — where the pieces of a literal's exponent
// go. With the mantissa base b, the exponent base and the presence of fraction digits fixed, the
// decimal exponent stored and the power of two applied are linear forms of named unknowns: the
// word count Lm and normalisation shift dn of the mantissa, the (negative) fraction digit count
// fc and the exponent field ex:
//
//	decimal exponent = Lm·_DW − dn  [+ fc if b = 10]  [+ ex if ebase = 10]
//	binary exponent  = [fc·1|3|4 for b = 2|8|16]      [+ ex if ebase = 2]
//
// the binary exponent is applied by Mul with 2**e when known positive, by Quo with 2**(−e) when
// known negative, and the value is only rounded when it is known to be 0; an empty mantissa is the
// exact value 0 of the scanned sign.
func runScanExponents(m *model.Model, s *ob.Set) {
	const R = "SCANSHAPE"
	fn := m.TryLookup("(*Decimal).scan")
	if fn == nil || m.TryLookup("dec.scan") == nil || m.TryLookup("scanExponent") == nil || m.TryLookup("scanSign") == nil || m.TryLookup("dnorm") == nil {
		return
	}
	_ = m.Pos(fn.Pos())
	en := getEnums(m)
	F := m.F
	dw, _ := constant.Int64Val(m.PkgConst("_DW"))
	sym := func(n string) linF { return linF{t: map[string]int64{n: 1}} }
	isInt := func(n string) bool {
		switch n {
		case "Lm", "dn", "fc", "ex":
			return true
		}
		return false
	}
	for _, b := range []int64{10, 2, 8, 16} {
		for _, eb := range []int64{10, 2} {
			name := fmt.Sprintf("(*Decimal).scan/exponents[b=%d,ebase=%d]", b, eb)
			it := stdInterp(m)
			it.Traced["(*Decimal).pow2"] = true
			bb, ebb := b, eb
			it.Models["scanSign"] = func(*cdai.Interp, *cdai.State, string, []cdai.Val) ([]cdai.Val, bool) {
				return []cdai.Val{cdai.Tuple{cdai.Bool(true), cdai.Const{}}}, true
			}
			it.Models["dec.scan"] = func(*cdai.Interp, *cdai.State, string, []cdai.Val) ([]cdai.Val, bool) {
				return []cdai.Val{cdai.Tuple{cdai.Sym{Name: "mant"}, cdai.Int(bb), cdai.Sym{Name: "fc"}, cdai.Const{}}}, true
			}
			it.Models["scanExponent"] = func(*cdai.Interp, *cdai.State, string, []cdai.Val) ([]cdai.Val, bool) {
				return []cdai.Val{cdai.Tuple{cdai.Sym{Name: "ex"}, cdai.Int(ebb), cdai.Const{}}}, true
			}
			it.Models["dnorm"] = func(*cdai.Interp, *cdai.State, string, []cdai.Val) ([]cdai.Val, bool) {
				return []cdai.Val{cdai.Sym{Name: "dn"}}, true
			}
			it.Models["builtin.len"] = func(it *cdai.Interp, st *cdai.State, name string, args []cdai.Val) ([]cdai.Val, bool) {
				if sy, ok := args[0].(cdai.Sym); ok && sy.Name == "mant" {
					return []cdai.Val{cdai.Sym{Name: "Lm"}}, true
				}
				return nil, false
			}
			it.BinHook = linHook(isInt, nil)
			it.StHook = linStHook(isInt, func(fs linFacts) { fs.assume(sym("Lm"), token.GEQ) })
			st := cdai.NewState()
			z := mkDec(m, st, decSpec{form: i64(en.inf), neg: bptr(false), prec: i64(9), mode: i64(en.nearAway), acc: i64(en.above), exp: i64(77)})
			cell(m, s, R, name, fn, it, st, []cdai.Val{z, cdai.Sym{Name: "r"}, cdai.Int(0)}, z, func(o cdai.Outcome) string {
				if o.Kind != "return" || len(o.Vals) != 3 {
					return ""
				}
				if c, ok := o.Vals[2].(cdai.Const); !ok || c.V != nil {
					return "" // an error exit: the value is undefined
				}
				fs := factsOf(o.St.Decs)
				fs.assume(sym("Lm"), token.GEQ)
				if fs.contradictory() || decidesOnUnknown(o.St.Decs) {
					return ""
				}
				kz, empty := fs.ask(sym("Lm"), token.EQL)
				if !kz {
					return ""
				}
				if empty {
					return first(wantField(m, o, z, F.Form, en.zero, "form (no mantissa digits but zeros)"), wantField(m, o, z, F.Acc, en.exact, "acc (a literal zero is exact)"), wantNeg(m, o, z, true), wantField(m, o, z, F.Prec, 9, "prec"))
				}
				kf, frac := fs.ask(sym("fc"), token.LSS)
				if !kf {
					return ""
				}
				want10 := sym("Lm").scale(dw).add(sym("dn"), -1)
				want2 := linConst(0)
				if frac {
					switch bb {
					case 10:
						want10 = want10.add(sym("fc"), 1)
					case 2:
						want2 = want2.add(sym("fc"), 1)
					case 8:
						want2 = want2.add(sym("fc").scale(3), 1)
					case 16:
						want2 = want2.add(sym("fc").scale(4), 1)
					}
				}
				if ebb == 10 {
					want10 = want10.add(sym("ex"), 1)
				} else {
					want2 = want2.add(sym("ex"), 1)
				}
				// the decimal exponent: as stored when the arithmetic (or the final rounding) is entered
				evs := findEvents(o.St, "(*Decimal).Quo", "(*Decimal).Mul", "(*Decimal).round")
				var got cdai.Val
				for _, ev := range evs {
					if sameObj(ev.Args[0], z) {
						got = ev.Recv[F.Exp]
						if f, ok := evRecvInt(m, ev, F.Form); !ok || f != en.finite {
							return ev.Fn + " is entered before the form was set to finite"
						}
						if bn, ok := evRecvBool(m, ev, F.Neg); !ok || !bn {
							return ev.Fn + " is entered before the scanned sign was stored (the rounding direction depends on it)"
						}
						if p, ok := evRecvInt(m, ev, F.Prec); !ok || p != 9 {
							return ev.Fn + " is entered with another precision than the receiver's"
						}
						break
					}
				}
				if got == nil {
					return "a non-zero mantissa is neither rounded nor scaled"
				}
				if l, ok := linOf(got); ok {
					if k, eq := fs.ask(l.add(want10, -1), token.EQL); k && !eq {
						return fmt.Sprintf("the decimal exponent stored is %s; the literal's is %s", l, want10)
					}
				}
				// the binary exponent
				var scal []cdai.Event
				var pows []linF
				powsKnown := true
				for _, ev := range o.St.Trace {
					switch ev.Fn {
					case "(*Decimal).Quo", "(*Decimal).Mul":
						if sameObj(ev.Args[0], z) {
							scal = append(scal, ev)
						}
					case "(*Decimal).pow2":
						if len(ev.Args) == 2 {
							if l, ok := linOf(ev.Args[1]); ok {
								pows = append(pows, l)
							} else {
								powsKnown = false
							}
						}
					}
				}
				if want2.isConst() && want2.c == 0 {
					if len(scal) > 0 {
						return "the value is scaled by a power of two although neither the mantissa base nor the exponent letter contributes a binary exponent"
					}
					return ""
				}
				kne, ne := fs.ask(want2, token.NEQ)
				if len(scal) == 0 {
					if kne && ne {
						return fmt.Sprintf("the binary exponent %s is not zero on this path, but the value is not scaled by it", want2)
					}
					if !kne {
						return fmt.Sprintf("the value is left unscaled on a path that has not established that the binary exponent %s is zero", want2)
					}
					return ""
				}
				if !(kne && ne) {
					return fmt.Sprintf("the value is scaled by a power of two on a path that has not established that the binary exponent %s is non-zero", want2)
				}
				if len(scal) != 1 {
					return "the value is scaled by a power of two more than once"
				}
				kneg, ng := fs.ask(want2, token.LSS)
				if scal[0].Fn == "(*Decimal).Quo" && !(kneg && ng) {
					return fmt.Sprintf("the value is divided by a power of two on a path where %s is not known to be negative", want2)
				}
				if scal[0].Fn == "(*Decimal).Mul" && !(kneg && !ng) {
					return fmt.Sprintf("the value is multiplied by a power of two on a path where %s is not known to be positive", want2)
				}
				if powsKnown && len(pows) == 1 {
					want := want2
					if scal[0].Fn == "(*Decimal).Quo" {
						want = want2.scale(-1)
					}
					if !pows[0].equal(want) {
						return fmt.Sprintf("the power of two applied is 2**(%s); the exponent to apply is %s", pows[0], want)
					}
				}
				return ""
			})
		}
	}
}

// SCANSHAPE dec.scan/full-word — a full chunk of digits enters the result either by shifting the
// result up one word and storing the chunk as the new low word, which is right exactly when the
// chunk base bn is the word base, or by multiplying with bn and adding the chunk, which is within
// the kernel's contract (multiplier below the base) exactly when bn is not the word base. Both
// sites sit behind the comparison of bn with the base, on their own edge.
func runScanFullWord(m *model.Model, s *ob.Set) {
	const R = "SCANSHAPE"
	fn := m.TryLookup("dec.scan")
	if fn == nil {
		return
	}
	base := m.PkgConst("_DB")
	live := m.Live(fn)
	isBase := func(v ssa.Value) bool {
		c, ok := stripConv(v).(*ssa.Const)
		return ok && c.Value != nil && c.Value.Kind() == constant.Int && constant.Compare(c.Value, token.EQL, base)
	}
	// the comparisons of some value with the base
	type cmp struct {
		b      *ssa.BasicBlock
		eqEdge int
		v      ssa.Value
	}
	var cmps []cmp
	for _, b := range fn.Blocks {
		if !live[b.Index] || len(b.Instrs) == 0 {
			continue
		}
		ifi, ok := b.Instrs[len(b.Instrs)-1].(*ssa.If)
		if !ok {
			continue
		}
		bo, ok := ifi.Cond.(*ssa.BinOp)
		if !ok || (bo.Op != token.EQL && bo.Op != token.NEQ) {
			continue
		}
		var v ssa.Value
		switch {
		case isBase(bo.Y):
			v = stripConv(bo.X)
		case isBase(bo.X):
			v = stripConv(bo.Y)
		default:
			continue
		}
		e := 0
		if bo.Op == token.NEQ {
			e = 1
		}
		cmps = append(cmps, cmp{b, e, v})
	}
	if len(cmps) == 0 {
		return // no word-shift fast path in this shape
	}
	onEdge := func(v ssa.Value, eq bool, at *ssa.BasicBlock) bool {
		for _, c := range cmps {
			if stripConv(v) != c.v && !structEq(stripConv(v), c.v, 3) {
				continue
			}
			e := c.eqEdge
			if !eq {
				e = 1 - e
			}
			if m.EdgeDominates(c.b, e, at) {
				return true
			}
		}
		return false
	}
	nMul, nShift := 0, 0
	bad := ""
	for _, b := range fn.Blocks {
		if !live[b.Index] {
			continue
		}
		for _, in := range b.Instrs {
			switch x := in.(type) {
			case *ssa.Call:
				cal := model.Unthunk(x.Call.StaticCallee())
				if cal == nil || m.FuncName(cal) != "dec.mulAddWW" || len(x.Call.Args) != 4 {
					continue
				}
				// the multiplier is one of the compared values?
				mul := stripConv(x.Call.Args[2])
				for _, c := range cmps {
					if mul == c.v || structEq(mul, c.v, 3) {
						nMul++
						if !onEdge(mul, false, b) && bad == "" {
							bad = m.InstrPos(in) + ": the result is multiplied by the chunk base on a path that has not found it different from the word base (a multiplier equal to the base is outside mulAddWW's contract: the product's high word is no longer below the base)"
						}
						break
					}
				}
			}
		}
	}
	// the shift: a copy into t[1:] of a fresh buffer one word longer
	for _, b := range fn.Blocks {
		if !live[b.Index] {
			continue
		}
		for _, in := range b.Instrs {
			c, ok := in.(*ssa.Call)
			if !ok || model.BuiltinName(&c.Call) != "copy" || !m.IsWordSlice(c.Call.Args[0].Type()) {
				continue
			}
			sl, ok := c.Call.Args[0].(*ssa.Slice)
			if !ok || sl.Low == nil {
				continue
			}
			if k, ok := model.ConstInt(sl.Low); !ok || k != 1 {
				continue
			}
			nShift++
			okShift := false
			for _, cm := range cmps {
				if m.EdgeDominates(cm.b, cm.eqEdge, b) {
					okShift = true
				}
			}
			if !okShift && bad == "" {
				bad = m.InstrPos(in) + ": the result is shifted up by a whole word for a chunk of digits on a path that has not found the chunk base equal to the word base (for any other base a word holds more than one chunk)"
			}
		}
	}
	if nMul+nShift == 0 {
		return
	}
	s.Check(bad == "", R, "dec.scan/full-word", m.Pos(fn.Pos()), fmt.Sprintf("%d multiply site(s) behind bn != base, %d word-shift site(s) behind bn == base", nMul, nShift), bad)
}

// runScanTokenFilter: where the fmt.Scanner adapter collects its input with ScanState.Token and a
// predicate before parsing it, the predicate is evaluated (constant propagation) on every byte the
// grammar of Parse can consume and Append can write: signs, digits, the point, the separator, the
// exponent markers, the base prefixes, hexadecimal digits and the letters of Inf. A byte it turns
// down cuts the token there: 1.5e+20 would be read as 1.5e.
func runScanTokenFilter(m *model.Model, s *ob.Set) {
	const R = "SCANSHAPE"
	fn := m.TryLookup("(*Decimal).Scan")
	if fn == nil {
		return
	}
	for _, b := range fn.Blocks {
		for _, in := range b.Instrs {
			call, ok := in.(*ssa.Call)
			if !ok || !call.Call.IsInvoke() || call.Call.Method.Name() != "Token" || len(call.Call.Args) != 2 {
				continue
			}
			var pred *ssa.Function
			switch x := call.Call.Args[1].(type) {
			case *ssa.MakeClosure:
				if len(x.Bindings) == 0 {
					pred, _ = x.Fn.(*ssa.Function)
				}
			case *ssa.Function:
				pred = x
			case *ssa.Const:
				if x.IsNil() {
					continue // nil predicate: fmt's default (non-space)
				}
			}
			cn := "(*Decimal).Scan/token-filter"
			if pred == nil || len(pred.Params) != 1 {
				s.Note(R, cn, m.InstrPos(call), "the token predicate is not a closure without captured variables (not decided)")
				continue
			}
			var rejected []string
			undecided := 0
			for _, c := range "+-0123456789._eEpPxXbBoOaAfFInf" {
				it := cdai.New(m)
				it.Budget = 5000
				var outs []cdai.Outcome
				func() {
					defer func() {
						if recover() != nil {
							outs = nil
						}
					}()
					outs = it.Run(pred, []cdai.Val{cdai.Int(int64(c))}, cdai.NewState())
				}()
				if len(outs) != 1 {
					undecided++
					continue
				}
				v, ok := retBool(outs[0], 0)
				if !ok {
					undecided++
					continue
				}
				if !v {
					rejected = append(rejected, fmt.Sprintf("%q", c))
				}
			}
			switch {
			case len(rejected) > 0:
				s.Bad(R, cn, m.InstrPos(call), "the token handed to the parser stops at "+strings.Join(rejected, ", ")+", which the grammar of Parse accepts and Append writes (an exponent with a sign, a signed number): such text is cut short or rejected")
			case undecided > 0:
				s.Note(R, cn, m.InstrPos(call), fmt.Sprintf("the predicate could not be folded for %d byte(s) (not decided)", undecided))
			default:
				s.Ok(R, cn, m.InstrPos(call), "the token predicate accepts every byte of the grammar")
			}
		}
	}
}
