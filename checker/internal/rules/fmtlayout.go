package rules

// FMTSHAPE Format/… — the layout arithmetic of (*Decimal).Format.
//
// (padding-operands) the padding is width − len(sign) − len(digits) of the very sign and digits
// that are written afterwards: the values whose lengths enter the padding are the values handed to
// the writes (a padding computed before the sign is split off the digits counts the sign twice or
// not at all).
//
// (sign-first) the sign that Append produced ('-', or '+' for +Inf) is looked at before the '+'
// and ' ' flags: every s.Flag('+') / s.Flag(' ') call sits behind both tests of the first byte
// (otherwise %+v of +Inf prints "++Inf").

import (
	"fmt"
	"go/token"

	"golang.org/x/tools/go/ssa"

	"decverif/internal/model"
	"decverif/internal/ob"
)

func runFmtLayout(m *model.Model, s *ob.Set) {
	const R = "FMTSHAPE"
	fn := m.TryLookup("(*Decimal).Format")
	if fn == nil {
		return
	}
	live := m.Live(fn)
	pos := m.Pos(fn.Pos())
	invokeName := func(in ssa.Instruction) (string, *ssa.CallCommon) {
		ci, ok := in.(ssa.CallInstruction)
		if !ok || !ci.Common().IsInvoke() {
			return "", nil
		}
		return ci.Common().Method.Name(), ci.Common()
	}
	// ---- what is written
	var written []ssa.Value // operands of s.Write and of the one-copy writeMultiple (the sign)
	var widthCall ssa.Value
	var flagCalls []ssa.Instruction
	for _, b := range fn.Blocks {
		if !live[b.Index] {
			continue
		}
		for _, in := range b.Instrs {
			if n, c := invokeName(in); c != nil {
				switch n {
				case "Write":
					if len(c.Args) == 1 {
						written = append(written, stripConvAny(c.Args[0]))
					}
				case "Width":
					if v, ok := in.(ssa.Value); ok {
						widthCall = v
					}
				case "Flag":
					if len(c.Args) == 1 {
						if k, ok := model.ConstInt(c.Args[0]); ok && (k == '+' || k == ' ') {
							flagCalls = append(flagCalls, in)
						}
					}
				}
				continue
			}
			if call, ok := in.(*ssa.Call); ok {
				if cal := model.Unthunk(call.Call.StaticCallee()); cal != nil && m.InDecimalPkg(cal) && len(call.Call.Args) == 3 {
					if k, ok := model.ConstInt(call.Call.Args[2]); ok && k == 1 {
						if bt := call.Call.Args[1].Type().Underlying().String(); bt == "string" {
							written = append(written, stripConvAny(call.Call.Args[1]))
						}
					}
				}
			}
		}
	}
	// ---- (padding-operands)
	c := "(*Decimal).Format/padding-operands"
	if widthCall == nil || len(written) == 0 {
		s.Note(R, c, pos, "no Width()/Write in the shape this clause reads (not decided)")
	} else {
		// the lengths that are subtracted from the width
		lens := map[ssa.Value]bool{}
		var wv ssa.Value = widthCall
		if widthCall.Referrers() != nil {
			for _, u := range *widthCall.Referrers() {
				if ex, ok := u.(*ssa.Extract); ok && ex.Index == 0 {
					wv = ex
				}
			}
		}
		var collect func(v ssa.Value, d int)
		collect = func(v ssa.Value, d int) {
			if d == 0 {
				return
			}
			switch x := v.(type) {
			case *ssa.BinOp:
				collect(x.X, d-1)
				collect(x.Y, d-1)
			case *ssa.Convert:
				collect(x.X, d-1)
			case *ssa.Call:
				if model.BuiltinName(&x.Call) == "len" {
					lens[stripConvAny(x.Call.Args[0])] = true
				}
			}
		}
		found := false
		for _, b := range fn.Blocks {
			for _, in := range b.Instrs {
				bo, ok := in.(*ssa.BinOp)
				if !ok || bo.Op != token.SUB {
					continue
				}
				// a subtraction chain rooted at the width
				root := ssa.Value(bo)
				for {
					x, ok := root.(*ssa.BinOp)
					if !ok || x.Op != token.SUB {
						break
					}
					root = x.X
				}
				if root == wv {
					found = true
					collect(bo, 6)
				}
			}
		}
		if !found {
			s.Note(R, c, pos, "the padding is not computed as width − len(…) − len(…) (not decided)")
		} else {
			bad := ""
			for _, w := range written {
				if _, isC := w.(*ssa.Const); isC {
					continue
				}
				if !lens[w] {
					bad = fmt.Sprintf("a value that is written (%s) is not among the values whose length is subtracted from the width", exprKey(m, w, 3))
				}
			}
			s.Check(bad == "", R, c, pos, fmt.Sprintf("the padding subtracts the lengths of the %d values that are written", len(written)), bad+": the padding is computed from a sign or digit string other than the one that is printed (computed before the sign was split off), so the field comes out too wide or too narrow")
		}
	}
	// ---- (sign-first): a forward must-analysis — on every path to a '+'/' ' flag test the first byte
	// of the text has been compared with '-' and with '+' (whatever the outcome, and however the
	// two comparisons are combined)
	c = "(*Decimal).Format/sign-first"
	testBit := func(b *ssa.BasicBlock) int {
		if len(b.Instrs) == 0 {
			return 0
		}
		ifi, ok := b.Instrs[len(b.Instrs)-1].(*ssa.If)
		if !ok {
			return 0
		}
		bo, ok := ifi.Cond.(*ssa.BinOp)
		if !ok || (bo.Op != token.EQL && bo.Op != token.NEQ) {
			return 0
		}
		k, ok := model.ConstInt(bo.Y)
		if !ok || (k != '-' && k != '+') {
			return 0
		}
		if ld, ok := stripConv(bo.X).(*ssa.UnOp); ok && ld.Op == token.MUL {
			if ia, ok := ld.X.(*ssa.IndexAddr); ok && isByteSlice(ia.X.Type()) {
				if i, ok := model.ConstInt(ia.Index); ok && i == 0 {
					if k == '-' {
						return 1
					}
					return 2
				}
			}
		}
		return 0
	}
	// the first byte is abstracted to one of three classes: '-', '+', anything else; a comparison
	// narrows the set on each edge (an edge with an empty set is infeasible), joins take the union
	const (
		cMinus = 1
		cPlus  = 2
		cOther = 4
	)
	ntests := 0
	in := make([]int, len(fn.Blocks)) // 0 = unreached
	in[0] = cMinus | cPlus | cOther
	work := []int{0}
	for len(work) > 0 {
		bi := work[len(work)-1]
		work = work[:len(work)-1]
		b := fn.Blocks[bi]
		if !live[bi] {
			continue
		}
		tb := testBit(b)
		for _, e := range model.LiveSuccs(b) {
			out := in[bi]
			if tb != 0 {
				cls := cMinus
				if tb == 2 {
					cls = cPlus
				}
				ifi := b.Instrs[len(b.Instrs)-1].(*ssa.If)
				eqEdge := 0
				if ifi.Cond.(*ssa.BinOp).Op == token.NEQ {
					eqEdge = 1
				}
				if e.Si == eqEdge {
					out &= cls
				} else {
					out &^= cls
				}
			}
			if out == 0 {
				continue
			}
			ti := e.To.Index
			if nv := in[ti] | out; nv != in[ti] {
				in[ti] = nv
				work = append(work, ti)
			}
		}
	}
	for _, b := range fn.Blocks {
		if live[b.Index] && testBit(b) != 0 {
			ntests++
		}
	}
	if ntests < 2 || len(flagCalls) == 0 {
		s.Note(R, c, pos, "the sign is not resolved by tests of the first byte followed by the flags (not decided)")
	} else {
		bad := ""
		for _, fc := range flagCalls {
			if st := in[fc.Block().Index]; st != 0 && st != cPlus && st != cOther {
				bad = fmt.Sprintf("%s: a '+'/' ' flag is consulted where the first byte of the text may still be a sign that has not been told apart (it is known neither to be '+' nor to be no sign at all)", m.InstrPos(fc))
			}
		}
		s.Check(bad == "", R, c, pos, fmt.Sprintf("%d sign-flag tests, each where the first byte is known to be '+' or known to be no sign", len(flagCalls)), bad+": +Inf, which Append prints with its own '+', gets a second sign")
	}
}
