package rules

// SHIFTW — a constant shifted left by a variable count (1 << n, the construction of a power of
// two) silently becomes 0 when the count reaches the width of the type. Every such shift sits
// behind a test that bounds the count below the width: n < W, not n <= W.

import (
	"fmt"
	"go/token"
	"go/types"

	"golang.org/x/tools/go/ssa"

	"decverif/internal/model"
	"decverif/internal/ob"
)

func init() {
	Register(&Rule{Name: "SHIFTW", Floor: 1, Run: runShiftW,
		Doc: "a constant shifted left by a variable count is guarded by count < width of the shifted type (at count = width the result is 0, not 2^width)"})
}

func runShiftW(m *model.Model, s *ob.Set) {
	const R = "SHIFTW"
	arch := "amd64"
	if m.Cfg.Name == "386" {
		arch = "386"
	}
	sizes := types.SizesFor("gc", arch)
	for _, fn := range m.Funcs {
		if (!m.InDecimalPkg(fn) && !m.InContextPkg(fn)) || len(fn.Blocks) == 0 || fn.Synthetic != "" {
			continue
		}
		live := m.Live(fn)
		n := 0
		var bad []string
		for _, b := range fn.Blocks {
			if !live[b.Index] {
				continue
			}
			for _, in := range b.Instrs {
				bo, ok := in.(*ssa.BinOp)
				if !ok || bo.Op != token.SHL {
					continue
				}
				k, isK := model.ConstInt(bo.X)
				if !isK || k == 0 {
					continue
				}
				if _, cnt := bo.Y.(*ssa.Const); cnt {
					continue
				}
				width := sizes.Sizeof(bo.Type()) * 8
				n++
				cnt := stripConv(bo.Y)
				guarded := false
				for _, gb := range fn.Blocks {
					if !live[gb.Index] || len(gb.Instrs) == 0 {
						continue
					}
					ifi, ok := gb.Instrs[len(gb.Instrs)-1].(*ssa.If)
					if !ok {
						continue
					}
					c, ok := ifi.Cond.(*ssa.BinOp)
					if !ok {
						continue
					}
					x, y, op := c.X, c.Y, c.Op
					if _, isC := x.(*ssa.Const); isC {
						x, y = y, x
						switch op {
						case token.LSS:
							op = token.GTR
						case token.GTR:
							op = token.LSS
						case token.LEQ:
							op = token.GEQ
						case token.GEQ:
							op = token.LEQ
						}
					}
					lim, isLim := model.ConstInt(y)
					if !isLim || (stripConv(x) != cnt && !structEq(stripConv(x), cnt, 3)) {
						continue
					}
					// edge on which cnt <= maxCount
					edge, maxCount := -1, int64(0)
					switch op {
					case token.LSS:
						edge, maxCount = 0, lim-1
					case token.LEQ:
						edge, maxCount = 0, lim
					case token.GEQ:
						edge, maxCount = 1, lim-1
					case token.GTR:
						edge, maxCount = 1, lim
					}
					if edge >= 0 && maxCount < width && m.EdgeDominates(gb, edge, b) {
						guarded = true
					}
				}
				if !guarded {
					bad = append(bad, fmt.Sprintf("%s: %d << count in a %d-bit type with no dominating test that the count is below %d: at count = %d the result is 0", m.InstrPos(in), k, width, width, width))
				}
			}
		}
		if n == 0 {
			continue
		}
		if len(bad) == 0 {
			s.Ok(R, m.FuncName(fn), m.Pos(fn.Pos()), fmt.Sprintf("%d shift(s) of a constant by a variable count, each behind count < width", n))
		} else {
			s.Bad(R, m.FuncName(fn), m.Pos(fn.Pos()), bad[0], bad[1:]...)
		}
	}
}
