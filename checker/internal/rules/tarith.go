package rules

// E4 — T-ARITH: the zero/finite/infinity dispatch of Add, Sub, Mul, Quo and
// FMA against the IEEE 754-2008 tables (§6.1–6.3, §7.2), written here from the
// standard and the method documentation — not from the code.

import (
	"fmt"

	"golang.org/x/tools/go/ssa"

	"decverif/internal/cdai"
	"decverif/internal/model"
	"decverif/internal/ob"
)

func init() {
	Register(&Rule{Name: "T-ARITH", Floor: 500, Run: func(m *model.Model, s *ob.Set) { runTArith(m, s, false) },
		Doc: "every operand-class combination of Add/Sub/Mul/Quo/FMA in every rounding mode yields the IEEE form and sign, ErrNaN exactly for the invalid operations, and sets up sign and operand order before the unsigned operation"})
	Register(&Rule{Name: "T-ARITH-ALIAS", Floor: 500, Run: func(m *model.Model, s *ob.Set) { runTArith(m, s, true) },
		Doc: "T-ARITH re-run with the receiver bound to each operand and operands bound to each other"})
}

type expKind int

const (
	kNaN expKind = iota
	kSpecial
	kValueOf // the (possibly rounded) value of one operand, sign possibly flipped
	kFinite  // computed by an unsigned operation
)

type arithExp struct {
	kind    expKind
	form    int64 // kSpecial
	neg     bool  // kSpecial, kValueOf: resulting sign
	operand int   // kValueOf: index into operands
	loose   bool  // cell left unconstrained (recorded as info)
	xneg    bool  // kFinite: effective sign of first addend
	yneg    bool  // kFinite: effective sign of second addend
}

// addTable is IEEE 754-2008 §6.1/§6.3 for x + y given effective signs.
func addTable(e enums, fx, fy int64, sx, sy bool, mode int64) arithExp {
	switch {
	case fx == e.inf && fy == e.inf:
		if sx != sy {
			return arithExp{kind: kNaN}
		}
		return arithExp{kind: kSpecial, form: e.inf, neg: sx}
	case fx == e.inf:
		return arithExp{kind: kSpecial, form: e.inf, neg: sx}
	case fy == e.inf:
		return arithExp{kind: kSpecial, form: e.inf, neg: sy}
	case fx == e.zero && fy == e.zero:
		if sx == sy {
			return arithExp{kind: kSpecial, form: e.zero, neg: sx}
		}
		// exact zero sum of opposite-signed zeros: +0, −0 under ToNegativeInf (§6.3)
		return arithExp{kind: kSpecial, form: e.zero, neg: mode == e.negInf}
	case fx == e.zero:
		return arithExp{kind: kValueOf, operand: 1, neg: sy}
	case fy == e.zero:
		return arithExp{kind: kValueOf, operand: 0, neg: sx}
	}
	return arithExp{kind: kFinite, xneg: sx, yneg: sy}
}

type arithCase struct {
	op      string
	classes []int
	mode    int64
	precs   []int64 // receiver, then operands
	bind    []int   // bind[i] = index of the object parameter i shares (i itself if none); index 0 = receiver
	bindStr string
}

func (c arithCase) String(e enums) string {
	s := c.op + "("
	for i, cl := range c.classes {
		if i > 0 {
			s += ","
		}
		s += classNames[cl]
	}
	return fmt.Sprintf("%s) mode=%s prec=%v%s", s, e.modeNames[c.mode], c.precs, c.bindStr)
}

func runTArith(m *model.Model, s *ob.Set, alias bool) {
	e := getEnums(m)
	rule := "T-ARITH"
	if alias {
		rule = "T-ARITH-ALIAS"
	}
	type binding struct {
		name string
		b    []int
	}
	precSets2 := [][]int64{{10, 10, 10}, {5, 10, 10}, {0, 10, 7}, {0, 7, 10}, {8, 7, 10}, {8, 10, 7}}
	precSets3 := [][]int64{{10, 10, 10, 10}, {5, 10, 10, 10}, {0, 7, 10, 8}, {0, 7, 8, 10}, {0, 10, 8, 7}, {8, 7, 7, 10}, {8, 10, 10, 7}}
	for _, op := range []string{"Add", "Sub", "Mul", "Quo"} {
		fn := m.Lookup("(*Decimal)." + op)
		binds := []binding{{"", []int{0, 1, 2}}}
		if alias {
			binds = []binding{{" z=x", []int{0, 0, 2}}, {" z=y", []int{0, 1, 0}}, {" x=y", []int{0, 1, 1}}, {" z=x=y", []int{0, 0, 0}}}
		}
		for cx := 0; cx < 6; cx++ {
			for cy := 0; cy < 6; cy++ {
				for _, mode := range e.modes() {
					for _, ps := range precSets2 {
						for _, b := range binds {
							if b.b[2] == b.b[1] && cx != cy {
								continue // x and y are the same variable: same class
							}
							if alias && ps[0] != 10 {
								continue // a shared object has one precision
							}
							c := arithCase{op: op, classes: []int{cx, cy}, mode: mode, precs: ps, bind: b.b, bindStr: b.name}
							checkArithCase(m, s, e, rule, fn, c)
						}
					}
				}
			}
		}
	}
	fn := m.Lookup("(*Decimal).FMA")
	binds := []binding{{"", []int{0, 1, 2, 3}}}
	modes := e.modes()
	if alias {
		binds = []binding{{" z=x", []int{0, 0, 2, 3}}, {" z=y", []int{0, 1, 0, 3}}, {" z=u", []int{0, 1, 2, 0}}, {" x=y", []int{0, 1, 1, 3}}, {" x=u", []int{0, 1, 2, 1}}, {" y=u", []int{0, 1, 2, 2}}, {" z=x=y", []int{0, 0, 0, 3}}, {" z=x=y=u", []int{0, 0, 0, 0}}}
		modes = []int64{e.nearEven, e.negInf}
	}
	for cx := 0; cx < 6; cx++ {
		for cy := 0; cy < 6; cy++ {
			for cu := 0; cu < 6; cu++ {
				for _, mode := range modes {
					for _, ps := range precSets3 {
						for _, b := range binds {
							cl := []int{cx, cy, cu}
							ok := true
							for i := 1; i <= 3; i++ {
								if b.b[i] != i && b.b[i] != 0 && cl[i-1] != cl[b.b[i]-1] {
									ok = false
								}
							}
							// receiver bound to several operands: they must agree too
							var zc = -1
							for i := 1; i <= 3; i++ {
								if b.b[i] == 0 {
									if zc >= 0 && cl[i-1] != zc {
										ok = false
									}
									zc = cl[i-1]
								}
							}
							if !ok || (alias && ps[0] != 10) {
								continue
							}
							c := arithCase{op: "FMA", classes: cl, mode: mode, precs: ps, bind: b.b, bindStr: b.name}
							checkArithCase(m, s, e, rule, fn, c)
						}
					}
				}
			}
		}
	}
}

// mulTable is IEEE 754-2008 §6.1/§6.3/§7.2 for x*y.
func mulTable(e enums, fx, fy int64, sx, sy bool) arithExp {
	switch {
	case fx == e.zero && fy == e.inf, fx == e.inf && fy == e.zero:
		return arithExp{kind: kNaN}
	case fx == e.inf || fy == e.inf:
		return arithExp{kind: kSpecial, form: e.inf, neg: sx != sy}
	case fx == e.zero || fy == e.zero:
		return arithExp{kind: kSpecial, form: e.zero, neg: sx != sy}
	}
	return arithExp{kind: kFinite, neg: sx != sy}
}

// quoTable: x/y.
func quoTable(e enums, fx, fy int64, sx, sy bool) arithExp {
	switch {
	case fx == e.zero && fy == e.zero, fx == e.inf && fy == e.inf:
		return arithExp{kind: kNaN}
	case fx == e.zero || fy == e.inf:
		return arithExp{kind: kSpecial, form: e.zero, neg: sx != sy}
	case fy == e.zero || fx == e.inf:
		return arithExp{kind: kSpecial, form: e.inf, neg: sx != sy}
	}
	return arithExp{kind: kFinite, neg: sx != sy}
}

func checkArithCase(m *model.Model, s *ob.Set, e enums, rule string, fn *ssa.Function, c arithCase) {
	it := stdInterp(m)
	st := cdai.NewState()
	n := len(c.classes)
	objs := make([]cdai.Obj, n+1)
	opMode := e.toZ // an operand's own rounding mode must never matter
	zClass := -1
	for i := 1; i <= n; i++ {
		if c.bind[i] == 0 {
			zClass = c.classes[i-1]
		}
	}
	if zClass >= 0 {
		objs[0] = mkDec(m, st, classSpec(e, zClass, c.precs[0], c.mode))
	} else {
		objs[0] = mkDec(m, st, decSpec{prec: i64(c.precs[0]), mode: i64(c.mode)})
	}
	for i := 1; i <= n; i++ {
		switch {
		case c.bind[i] == i:
			objs[i] = mkDec(m, st, classSpec(e, c.classes[i-1], c.precs[i], opMode))
		default:
			objs[i] = objs[c.bind[i]]
		}
	}
	z := objs[0]
	args := make([]cdai.Val, n+1)
	for i := range objs {
		args[i] = objs[i]
	}
	pzEff := c.precs[0]
	if pzEff == 0 {
		for _, p := range c.precs[1:] {
			if p > pzEff {
				pzEff = p
			}
		}
	}
	form := func(i int) int64 { return e.formOf(c.classes[i-1]) }
	sign := func(i int) bool { return negOf(c.classes[i-1]) }

	var exp arithExp
	var prod arithExp // FMA only
	switch c.op {
	case "Add":
		exp = addTable(e, form(1), form(2), sign(1), sign(2), c.mode)
	case "Sub":
		exp = addTable(e, form(1), form(2), sign(1), !sign(2), c.mode)
	case "Mul":
		exp = mulTable(e, form(1), form(2), sign(1), sign(2))
	case "Quo":
		exp = quoTable(e, form(1), form(2), sign(1), sign(2))
	case "FMA":
		prod = mulTable(e, form(1), form(2), sign(1), sign(2))
		if prod.kind == kNaN {
			exp = prod
		} else {
			pf := e.finite
			if prod.kind == kSpecial {
				pf = prod.form
			}
			exp = addTable(e, pf, form(3), prod.neg, sign(3), c.mode)
		}
	}
	construct := c.String(e)
	pos := m.Pos(fn.Pos())
	// (+0)+(−0) and (+0)−(+0): IEEE 754-2008 §6.3 says −0 under ToNegativeInf; the code follows math/big.
	// Left unconstrained for Add/Sub (DESIGN §5 F15); constrained for FMA, whose property text states it.
	if (c.op == "Add" || c.op == "Sub") && exp.kind == kSpecial && exp.form == e.zero && form(1) == e.zero && form(2) == e.zero && (sign(1) != (sign(2) != (c.op == "Sub"))) {
		exp.loose = true
	}

	outs := it.Run(fn, args, st)
	var fails []string
	fail := func(o cdai.Outcome, f string, a ...interface{}) {
		if len(fails) < 3 {
			fails = append(fails, fmt.Sprintf(f, a...)+" :: "+outcomeStr(m, o, z))
		} else if len(fails) == 3 {
			fails = append(fails, "…")
		}
	}
	isRnd := func(ev cdai.Event) bool {
		switch ev.Fn {
		case "(*Decimal).round", "(*Decimal).umul", "(*Decimal).uadd", "(*Decimal).usub", "(*Decimal).uquo", "(*Decimal).setExpAndRound":
			return len(ev.Args) > 0 && sameObj(ev.Args[0], z)
		}
		return false
	}
	if len(outs) == 0 {
		fails = append(fails, "no outcome")
	}
	for _, o := range outs {
		if len(o.St.Imprec) > 0 {
			fail(o, "imprecise path (%s)", o.St.Imprec[0])
			continue
		}
		if o.Kind == "diverge" {
			fail(o, "path does not terminate within the loop bound")
			continue
		}
		if exp.kind == kNaN {
			if !isErrNaNPanic(o) {
				fail(o, "invalid operation must panic with ErrNaN")
			}
			continue
		}
		if o.Kind != "return" {
			fail(o, "must not panic")
			continue
		}
		if len(o.Vals) != 1 || !sameObj(o.Vals[0], z) {
			fail(o, "must return the receiver")
			continue
		}
		fz, fzOK := fInt(m, o.St, z, m.F.Form)
		nz, nzOK := fBool(m, o.St, z, m.F.Neg)
		az, azOK := fInt(m, o.St, z, m.F.Acc)
		if pv, ok := fInt(m, o.St, z, m.F.Prec); !ok || pv != pzEff {
			fail(o, "receiver precision must end as %d", pzEff)
		}
		if mv, ok := fInt(m, o.St, z, m.F.Mode); !ok || mv != c.mode {
			fail(o, "receiver rounding mode must be unchanged")
		}
		var rnd []cdai.Event
		for _, ev := range o.St.Trace {
			if isRnd(ev) {
				rnd = append(rnd, ev)
			}
		}
		switch exp.kind {
		case kSpecial:
			if !fzOK || fz != exp.form {
				fail(o, "form must be %d", exp.form)
			}
			if !exp.loose && (!nzOK || nz != exp.neg) {
				fail(o, "sign must be neg=%v", exp.neg)
			}
			if !azOK || az != e.exact {
				fail(o, "a special-value result must be Exact")
			}
		case kValueOf:
			if !nzOK || nz != exp.neg {
				fail(o, "sign must be neg=%v", exp.neg)
			}
			for _, ev := range rnd {
				if b, ok := evRecvBool(m, ev, m.F.Neg); !ok || b != exp.neg {
					fail(o, "%s is entered with neg=%s, the final sign is %v: rounding under the wrong sign", ev.Fn, cdai.Str(ev.Recv[m.F.Neg]), exp.neg)
				}
			}
			if len(rnd) == 0 {
				if !fzOK || fz != e.finite {
					fail(o, "form must be finite")
				}
				if !azOK || az != e.exact {
					fail(o, "an unrounded copy must be Exact")
				}
				// the copied operand may carry more digits than the receiver holds: then the copy
				// must go through round (smaller precision => round; the converse is not required)
				src := exp.operand + 1
				if c.op == "FMA" {
					src = 3 // operand 1 of the addition is u; operand 0 is the product (computed, hence rounded, by umul)
					if exp.operand == 0 {
						src = len(c.precs)
					}
				}
				if src < len(c.precs) && !sameObj(objs[src], z) && pzEff < c.precs[src] {
					fail(o, "the value of argument %d (prec %d) is copied into a receiver of prec %d without rounding", src, c.precs[src], pzEff)
				}
			} else {
				// single rounding: among the calls of round on the receiver, only the last may run
				// with the receiver's real precision
				var rr []cdai.Event
				for _, ev := range rnd {
					if ev.Fn == "(*Decimal).round" {
						rr = append(rr, ev)
					}
				}
				for i, ev := range rr {
					p, ok := evRecvInt(m, ev, m.F.Prec)
					if i == len(rr)-1 {
						if !ok || p != pzEff {
							fail(o, "the last rounding step runs with prec=%s, want %d", cdai.Str(ev.Recv[m.F.Prec]), pzEff)
						}
					} else if !ok || p != e.maxPrec {
						fail(o, "an intermediate step rounds to prec=%s (double rounding)", cdai.Str(ev.Recv[m.F.Prec]))
					}
				}
			}
		case kFinite:
			xo, yo := objs[1], objs[2]
			xs, ys := exp.xneg, exp.yneg
			switch c.op {
			case "Mul", "Quo":
				want := "(*Decimal).umul"
				if c.op == "Quo" {
					want = "(*Decimal).uquo"
				}
				evs := findEvents(o.St, want)
				inlined := false
				if len(evs) == 0 && m.TryLookup(want) == nil {
					// the unsigned helper does not exist in this program (inlined into its callers):
					// the step that matters is the one rounding of the receiver, with the same
					// receiver state; which operands went in cannot be told from a mantissa routine
					for _, e2 := range findEvents(o.St, "(*Decimal).setExpAndRound") {
						if len(e2.Args) > 0 && sameObj(e2.Args[0], z) {
							evs = append(evs, e2)
						}
					}
					inlined = true
				}
				if len(evs) != 1 || !sameObj(evs[0].Args[0], z) {
					fail(o, "exactly one %s on the receiver expected", want)
					break
				}
				ev := evs[0]
				okOrder := inlined || (sameObj(ev.Args[1], xo) && sameObj(ev.Args[2], yo))
				if !inlined && c.op == "Mul" && sameObj(ev.Args[1], yo) && sameObj(ev.Args[2], xo) {
					okOrder = true
				}
				if !okOrder {
					fail(o, "%s must be applied to (x,y)", want)
				}
				if b, ok := evRecvBool(m, ev, m.F.Neg); !ok || b != exp.neg {
					fail(o, "%s entered with neg=%s, want %v (XOR of the operand signs)", want, cdai.Str(ev.Recv[m.F.Neg]), exp.neg)
				}
				if p, ok := evRecvInt(m, ev, m.F.Prec); !ok || p != pzEff {
					fail(o, "%s entered with prec=%s, want %d", want, cdai.Str(ev.Recv[m.F.Prec]), pzEff)
				}
				if !nzOK || nz != exp.neg {
					fail(o, "final sign must be neg=%v", exp.neg)
				}
				continue
			case "FMA":
				evs := findEvents(o.St, "(*Decimal).umul")
				inlinedMul := false
				if len(evs) == 0 && m.TryLookup("(*Decimal).umul") == nil {
					// umul inlined: the product step is the first setExpAndRound of the trace
					if se := findEvents(o.St, "(*Decimal).setExpAndRound"); len(se) > 0 {
						evs = se[:1]
						inlinedMul = true
					}
				}
				if len(evs) != 1 {
					fail(o, "exactly one umul expected")
					continue
				}
				ev := evs[0]
				if b, ok := evRecvBool(m, ev, m.F.Neg); !ok || b != prod.neg {
					fail(o, "umul entered with neg=%s, want %v", cdai.Str(ev.Recv[m.F.Neg]), prod.neg)
				}
				if p, ok := evRecvInt(m, ev, m.F.Prec); !ok || p != e.maxPrec {
					fail(o, "the product must be computed exactly (prec=MaxPrec), got prec=%s", cdai.Str(ev.Recv[m.F.Prec]))
				}
				okOrder := inlinedMul || (sameObj(ev.Args[1], objs[1]) && sameObj(ev.Args[2], objs[2])) || (sameObj(ev.Args[1], objs[2]) && sameObj(ev.Args[2], objs[1]))
				if !okOrder {
					fail(o, "umul must be applied to (x,y)")
				}
				a0, ok := ev.Args[0].(cdai.Obj)
				if !ok {
					fail(o, "umul receiver unknown")
					continue
				}
				xo, yo = a0, objs[3]
			}
			evs := findEvents(o.St, "(*Decimal).uadd", "(*Decimal).usub")
			if c.op == "FMA" && len(evs) == 0 {
				// The exact product left the exponent range inside umul (its setExpAndRound took the
				// under/overflow exit): the code continues with ±0 or ±Inf as the product. Whether that
				// is the right answer is numeric (not decided here); the dispatch must still be the
				// Add table for that special product.
				if fzOK && fz == e.inf && nzOK && nz == prod.neg {
					continue // overflowed product dominates a finite u
				}
				if nzOK && nz == ys && (!fzOK || fz != e.zero) {
					continue // underflowed product: the value of u
				}
				fail(o, "product left the exponent range, but the result is neither ±Inf of the product's sign nor the value of u")
				continue
			}
			if len(evs) != 1 || !sameObj(evs[0].Args[0], z) {
				fail(o, "exactly one uadd/usub on the receiver expected, got %d", len(evs))
				continue
			}
			ev := evs[0]
			rn, rnOK := evRecvBool(m, ev, m.F.Neg)
			if p, ok := evRecvInt(m, ev, m.F.Prec); !ok || p != pzEff {
				fail(o, "%s entered with prec=%s, want %d", ev.Fn, cdai.Str(ev.Recv[m.F.Prec]), pzEff)
			}
			a, b := ev.Args[1], ev.Args[2]
			if ev.Fn == "(*Decimal).uadd" {
				if xs != ys {
					fail(o, "uadd used for operands of opposite effective signs")
				}
				if !((sameObj(a, xo) && sameObj(b, yo)) || (sameObj(a, yo) && sameObj(b, xo))) {
					fail(o, "uadd must be applied to the two addends")
				}
				if !rnOK || rn != xs {
					fail(o, "uadd entered with neg=%s, want %v", cdai.Str(ev.Recv[m.F.Neg]), xs)
				}
			} else {
				if xs == ys {
					fail(o, "usub used for operands of equal effective signs")
				}
				ok1 := sameObj(a, xo) && sameObj(b, yo) && rnOK && rn == xs
				ok2 := sameObj(a, yo) && sameObj(b, xo) && rnOK && rn == ys
				if !ok1 && !ok2 {
					fail(o, "usub(a,b) must be entered with the sign of its minuend (neg=%s)", cdai.Str(ev.Recv[m.F.Neg]))
				}
			}
			if fzOK && fz == e.zero && azOK && az == e.exact {
				if !nzOK || nz != (c.mode == e.negInf) {
					fail(o, "an exact zero sum must be +0 (−0 under ToNegativeInf)")
				}
			} else if !nzOK || !rnOK || nz != rn {
				fail(o, "the sign must not change after the unsigned operation")
			}
		}
	}
	if exp.loose {
		s.Note(rule, construct+"/sign", pos, "cell left unconstrained: IEEE 754-2008 §6.3 gives -0 under ToNegativeInf for (+0)+(-0); the code follows math/big (x.neg && y.neg); see DESIGN §5 F15")
	}
	if len(fails) == 0 {
		s.Ok(rule, construct, pos, fmt.Sprintf("%d paths", len(outs)))
	} else {
		s.Bad(rule, construct, pos, fails[0], fails[1:]...)
	}
}
