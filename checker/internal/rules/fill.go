package rules

// FILL — loops that define a word slice element by element.
//
// A buffer obtained from dec.make (or handed in as the destination) holds whatever the variable
// held before; a loop `for i := 0; i < len(z); i++ { z[i] = ... }` is what defines it. If such a
// loop can end early on a condition that depends on the data (a `break` once the source is
// exhausted), the remaining words keep their old contents, and norm() does not strip them because
// they are not zero: the result depends on the receiver's history.

import (
	"fmt"
	"go/token"
	"go/types"

	"golang.org/x/tools/go/ssa"

	"decverif/internal/model"
	"decverif/internal/ob"
)

func init() {
	Register(&Rule{Name: "FILL", Floor: 2, Run: runFill,
		Doc: "a loop over i < len(z) that stores z[i] on every iteration (the definition of a reused buffer) has no exit that depends on data, unless the remaining words are cleared or copied afterwards"})
}

func runFill(m *model.Model, s *ob.Set) {
	const R = "FILL"
	runCopyRest(m, s)
	for _, fn := range m.Funcs {
		if !m.InDecimalPkg(fn) || len(fn.Blocks) == 0 || fn.Synthetic != "" {
			continue
		}
		live := m.Live(fn)
		type loopT struct {
			h     *ssa.BasicBlock
			store *ssa.Store
			sl    ssa.Value
		}
		var loops []loopT
		seenH := map[*ssa.BasicBlock]bool{}
		hdrPhi := map[*ssa.BasicBlock]*ssa.Phi{}
		for _, b := range fn.Blocks {
			if !live[b.Index] {
				continue
			}
			for _, in := range b.Instrs {
				st, ok := in.(*ssa.Store)
				if !ok {
					continue
				}
				ia, ok := st.Addr.(*ssa.IndexAddr)
				if !ok || !isUintSlice(ia.X.Type()) {
					continue
				}
				ph, ok := ia.Index.(*ssa.Phi)
				if !ok {
					continue
				}
				h := ph.Block()
				if seenH[h] || !blockReaches(h, h) || !m.Dominates(h, b) {
					continue
				}
				// induction: starts at 0, one edge is φ+1
				zero, step := false, false
				for _, e := range ph.Edges {
					// (a start above 0 where the words below were stored in front of the loop:
					// z[0], c = …; for i := 1; …)
					if k, ok := model.ConstInt(e); ok && k >= 0 && k <= 4 {
						zero = true
					}
					if bo, ok := e.(*ssa.BinOp); ok && bo.Op == token.ADD && bo.X == ssa.Value(ph) {
						if k, ok := model.ConstInt(bo.Y); ok && k == 1 {
							step = true
						}
					}
				}
				if !zero || !step {
					continue
				}
				// bound: some exit test of the loop compares φ with len(the stored slice)
				inLoop := func(x *ssa.BasicBlock) bool { return x == h || (m.Dominates(h, x) && blockReaches(x, h)) }
				full := false
				for _, lb := range fn.Blocks {
					if !live[lb.Index] || !inLoop(lb) || len(lb.Instrs) == 0 {
						continue
					}
					ifi, ok := lb.Instrs[len(lb.Instrs)-1].(*ssa.If)
					if !ok {
						continue
					}
					bo, ok := ifi.Cond.(*ssa.BinOp)
					if !ok || bo.Op != token.LSS || bo.X != ssa.Value(ph) {
						continue
					}
					if c, ok := stripConv(bo.Y).(*ssa.Call); ok && model.BuiltinName(&c.Call) == "len" && sameSliceExpr(c.Call.Args[0], ia.X) {
						full = true
					}
				}
				if !full {
					continue
				}
				seenH[h] = true
				loops = append(loops, loopT{h, st, ia.X})
				hdrPhi[h] = ph
			}
		}
		for li, l := range loops {
			h := l.h
			inLoop := func(x *ssa.BasicBlock) bool { return x == h || (m.Dominates(h, x) && blockReaches(x, h)) }
			var bad []string
			for _, lb := range fn.Blocks {
				if !live[lb.Index] || !inLoop(lb) || len(lb.Instrs) == 0 {
					continue
				}
				ifi, ok := lb.Instrs[len(lb.Instrs)-1].(*ssa.If)
				if !ok {
					continue
				}
				for si, sc := range lb.Succs {
					if inLoop(sc) {
						continue
					}
					// leaving the loop: fine when the condition is about counters and lengths, or
					// the exit goes straight to a return/panic that does not hand the slice out
					if !dependsOnLoad(m, ifi.Cond, 8, map[ssa.Value]bool{}) {
						continue
					}
					if restDefined(m, fn, sc, l.sl) {
						continue
					}
					if ia, ok := l.store.Addr.(*ssa.IndexAddr); ok {
						if idx, ok := ia.Index.(*ssa.Phi); ok && zeroFilledFrom(m, sc, l.sl, idx) {
							continue
						}
					}
					_ = si
					bad = append(bad, fmt.Sprintf("%s: the loop that defines the words of the destination (store at %s) can end on a condition that depends on data, and the words not yet written are neither cleared nor copied afterwards", m.InstrPos(ifi), m.InstrPos(l.store)))
				}
			}
			// the store happens on every iteration: its block dominates every latch
			// (any of the stores at the counter will do: `if s < base { z[i] = s; …; return }; z[i] = 0`)
			var stores []*ssa.Store
			for _, lb := range fn.Blocks {
				if !inLoop(lb) {
					continue
				}
				for _, in := range lb.Instrs {
					if st, ok := in.(*ssa.Store); ok {
						if ia, ok := st.Addr.(*ssa.IndexAddr); ok && ia.Index == ssa.Value(hdrPhi[h]) && sameSliceExpr(ia.X, l.sl) {
							stores = append(stores, st)
						}
					}
				}
			}
			for _, p := range h.Preds {
				if !inLoop(p) {
					continue
				}
				covered := m.Dominates(l.store.Block(), p)
				for _, st := range stores {
					if m.Dominates(st.Block(), p) {
						covered = true
					}
				}
				if !covered {
					bad = append(bad, fmt.Sprintf("%s: an iteration can skip the store at %s", m.InstrPos(l.store), m.InstrPos(l.store)))
				}
			}
			c := fmt.Sprintf("%s/loop#%d", m.FuncName(fn), li+1)
			if len(bad) == 0 {
				s.Ok(R, c, m.InstrPos(l.store), "every index below len is stored; no data-dependent exit")
			} else {
				s.Bad(R, c, m.InstrPos(l.store), bad[0]+": stale words of a reused buffer survive (norm does not strip non-zero words) and the result depends on what the receiver held before", bad[1:]...)
			}
		}
	}
}

// dependsOnLoad: the value is computed from an element of a slice (any element type) or from the
// result of a call (other than len/cap).
func dependsOnLoad(m *model.Model, v ssa.Value, depth int, seen map[ssa.Value]bool) bool {
	if depth == 0 || seen[v] {
		return false
	}
	seen[v] = true
	switch x := v.(type) {
	case *ssa.UnOp:
		if x.Op == token.MUL {
			_, ok := x.X.(*ssa.IndexAddr)
			return ok
		}
		return dependsOnLoad(m, x.X, depth-1, seen)
	case *ssa.BinOp:
		return dependsOnLoad(m, x.X, depth-1, seen) || dependsOnLoad(m, x.Y, depth-1, seen)
	case *ssa.Convert:
		return dependsOnLoad(m, x.X, depth-1, seen)
	case *ssa.ChangeType:
		return dependsOnLoad(m, x.X, depth-1, seen)
	case *ssa.Phi:
		for _, e := range x.Edges {
			if dependsOnLoad(m, e, depth-1, seen) {
				return true
			}
		}
		// control dependence, for slices only: a slice re-sliced in a loop whose tests look at
		// data (b shortened while its top word is zero) carries that data in its length; plain
		// counters are left alone (at the exit of `for i < len(z)` the counter is len(z) whatever
		// else the body tests)
		h := x.Block()
		if _, isSlice := x.Type().Underlying().(*types.Slice); isSlice && blockReaches(h, h) {
			for _, lb := range h.Parent().Blocks {
				if lb != h && !(m.Dominates(h, lb) && blockReaches(lb, h)) {
					continue
				}
				if len(lb.Instrs) == 0 {
					continue
				}
				if ifi, ok := lb.Instrs[len(lb.Instrs)-1].(*ssa.If); ok && dependsOnLoad(m, ifi.Cond, depth-1, seen) {
					return true
				}
			}
		}
	case *ssa.Extract:
		return dependsOnLoad(m, x.Tuple, depth-1, seen)
	case *ssa.Call:
		if n := model.BuiltinName(&x.Call); n == "len" || n == "cap" {
			// the length of a slice that is itself re-sliced on data inside the loop is data
			if ph, ok := x.Call.Args[0].(*ssa.Phi); ok {
				return dependsOnLoad(m, ph, depth-1, seen)
			}
			return false
		}
		return true
	case *ssa.Slice:
		// a slice shortened under a data-dependent condition
		return dependsOnLoad(m, x.X, depth-1, seen) || (x.High != nil && dependsOnLoad(m, x.High, depth-1, seen))
	}
	return false
}

// restDefined: from block b on, the tail of sl is cleared or copied (clear(z[i:]), copy(z[i:], x[i:]),
// a kernel call on z[i:]) before anything else happens, or the function returns without sl.
func restDefined(m *model.Model, fn *ssa.Function, b *ssa.BasicBlock, sl ssa.Value) bool {
	for hops := 0; hops < 3 && b != nil; hops++ {
		for _, in := range b.Instrs {
			switch x := in.(type) {
			case *ssa.Call:
				n := model.BuiltinName(&x.Call)
				if n == "copy" || n == "clear" {
					if s2, ok := x.Call.Args[0].(*ssa.Slice); ok && sameSliceExpr(s2.X, sl) {
						return true
					}
				}
				if cal := model.Unthunk(x.Call.StaticCallee()); cal != nil && len(x.Call.Args) > 0 {
					if s2, ok := x.Call.Args[0].(*ssa.Slice); ok && sameSliceExpr(s2.X, sl) && s2.Low != nil {
						return true
					}
				}
			case *ssa.Panic:
				return true
			}
		}
		if len(b.Succs) != 1 {
			return false
		}
		b = b.Succs[0]
	}
	return false
}

// runCopyRest: a carry-propagating kernel that stops early — the carry was absorbed, the remaining
// words are copied unchanged (copy(z[i+1:], x[i+1:])) — has no carry left to report: what it
// returns on that exit is the constant 0, or a value the enclosing test has just found to be 0.
func runCopyRest(m *model.Model, s *ob.Set) {
	const R = "FILL"
	for _, fn := range m.Funcs {
		if !m.InDecimalPkg(fn) || len(fn.Blocks) == 0 || !inKernelLayer(m, fn) || fn.Synthetic != "" {
			continue
		}
		if fn.Signature.Results().Len() != 1 || !m.IsWord(fn.Signature.Results().At(0).Type()) {
			continue
		}
		live := m.Live(fn)
		n := 0
		bad := ""
		for _, b := range fn.Blocks {
			if !live[b.Index] {
				continue
			}
			r, ok := b.Instrs[len(b.Instrs)-1].(*ssa.Return)
			if !ok || len(r.Results) != 1 {
				continue
			}
			// a copy of the rest in this block (or the single-predecessor chain leading to it)
			copied := false
			for blk, hops := b, 0; blk != nil && hops < 3; hops++ {
				for _, in := range blk.Instrs {
					if c, ok := in.(*ssa.Call); ok && model.BuiltinName(&c.Call) == "copy" {
						if d, ok := c.Call.Args[0].(*ssa.Slice); ok && d.Low != nil && m.IsWordSlice(d.Type()) {
							if sl, ok := c.Call.Args[1].(*ssa.Slice); ok && sl.Low != nil {
								copied = true
							}
						}
					}
				}
				if len(blk.Preds) != 1 {
					break
				}
				blk = blk.Preds[0]
			}
			if !copied {
				continue
			}
			n++
			v := r.Results[0]
			// spilled named result: look at the value last stored
			if k, ok := model.ConstInt(v); ok && k == 0 {
				continue
			}
			zero := false
			isV := func(x ssa.Value) bool { return stripConv(x) == stripConv(v) }
			for _, gb := range fn.Blocks {
				if len(gb.Instrs) == 0 {
					continue
				}
				ifi, ok := gb.Instrs[len(gb.Instrs)-1].(*ssa.If)
				if !ok {
					continue
				}
				bo, ok := ifi.Cond.(*ssa.BinOp)
				if !ok {
					continue
				}
				if e, ok := zeroOnEdge(bo, isV); ok && m.EdgeDominates(gb, e, b) {
					zero = true
				}
			}
			if !zero {
				bad = fmt.Sprintf("%s: the exit that copies the remaining words unchanged returns %s, which is neither the constant 0 nor a value just tested to be 0", m.InstrPos(r), exprKey(m, v, 3))
			}
		}
		if n == 0 {
			continue
		}
		s.Check(bad == "", R, fn.Name()+"/copy-rest", m.Pos(fn.Pos()), fmt.Sprintf("%d early exit(s) that copy the rest, each returning a carry of 0", n), bad+": the carry was absorbed (that is why the rest is copied), a non-zero return makes the caller add it once more")
	}
}

// isUintSlice: a slice of machine words — the package's Word or math/big's (decToNat fills a
// []big.Word the same way).
func isUintSlice(t types.Type) bool {
	sl, ok := t.Underlying().(*types.Slice)
	if !ok {
		return false
	}
	b, ok := sl.Elem().Underlying().(*types.Basic)
	return ok && (b.Kind() == types.Uint || b.Kind() == types.Uintptr || b.Kind() == types.Uint64 || b.Kind() == types.Uint32)
}

// zeroFilledFrom: behind block b (within a few unconditional jumps) a second loop takes over the
// counter idx of the filling loop and stores 0 into sl[j] for every j below len(sl):
// for j := i; j < len(z); j++ { z[j] = 0 }.
func zeroFilledFrom(m *model.Model, b *ssa.BasicBlock, sl ssa.Value, idx *ssa.Phi) bool {
	for hops := 0; hops < 4 && b != nil; hops++ {
		for _, in := range b.Instrs {
			ph, ok := in.(*ssa.Phi)
			if !ok {
				break
			}
			takes, steps := false, false
			for _, e := range ph.Edges {
				if e == ssa.Value(idx) {
					takes = true
				}
				if bo, ok := e.(*ssa.BinOp); ok && bo.Op == token.ADD && bo.X == ssa.Value(ph) {
					if k, ok := model.ConstInt(bo.Y); ok && k == 1 {
						steps = true
					}
				}
			}
			if !takes || !steps || len(b.Instrs) == 0 {
				continue
			}
			ifi, ok := b.Instrs[len(b.Instrs)-1].(*ssa.If)
			if !ok {
				continue
			}
			bo, ok := ifi.Cond.(*ssa.BinOp)
			if !ok || bo.Op != token.LSS || bo.X != ssa.Value(ph) {
				continue
			}
			c, ok := stripConv(bo.Y).(*ssa.Call)
			if !ok || model.BuiltinName(&c.Call) != "len" || !sameSliceExpr(c.Call.Args[0], sl) {
				continue
			}
			// the body stores 0 at the counter on every iteration
			body := b.Succs[0]
			for _, bi := range body.Instrs {
				st, ok := bi.(*ssa.Store)
				if !ok {
					continue
				}
				ia, ok := st.Addr.(*ssa.IndexAddr)
				if !ok || ia.Index != ssa.Value(ph) || !sameSliceExpr(ia.X, sl) {
					continue
				}
				if k, ok := model.ConstInt(st.Val); ok && k == 0 {
					return true
				}
			}
		}
		if len(b.Succs) != 1 {
			return false
		}
		b = b.Succs[0]
	}
	return false
}
