package rules

// SPLITEVEN — a routine that cuts an operand of n words into two halves of n>>1 words each (low
// x[0:h], high x[h:]) and goes on as if both had h words is only right for even n. The tuning
// thresholds that decide when such a routine is entered are variables (tests and callers may set
// them to odd values), so the routine itself has to send odd lengths to the basic algorithm: the
// split is dominated by a parity test of n (n&1 != 0 → not split; n&1 == 0 → split; or n%2).

import (
	"fmt"
	"go/token"

	"golang.org/x/tools/go/ssa"

	"decverif/internal/model"
	"decverif/internal/ob"
)

func init() {
	Register(&Rule{Name: "SPLITEVEN", Floor: 2, Run: runSplitEven,
		Doc: "a dec-layer routine that halves an operand (h = n>>1, x[0:h] and x[h:]) does so only behind a test that n is even"})
}

func runSplitEven(m *model.Model, s *ob.Set) {
	const R = "SPLITEVEN"
	for _, fn := range m.Funcs {
		if !m.InDecimalPkg(fn) || len(fn.Blocks) == 0 || inKernelLayer(m, fn) || fn.Parent() != nil || fn.Synthetic != "" {
			continue
		}
		live := m.Live(fn)
		// h = n >> 1 or n / 2 with n = len(word slice parameter)
		type half struct {
			h, n ssa.Value
			in   ssa.Instruction
		}
		var halves []half
		for _, b := range fn.Blocks {
			if !live[b.Index] {
				continue
			}
			for _, in := range b.Instrs {
				bo, ok := in.(*ssa.BinOp)
				if !ok {
					continue
				}
				k, isK := model.ConstInt(bo.Y)
				if !isK || !((bo.Op == token.SHR && k == 1) || (bo.Op == token.QUO && k == 2)) {
					continue
				}
				c, ok := stripConv(bo.X).(*ssa.Call)
				if !ok || model.BuiltinName(&c.Call) != "len" || !m.IsWordSlice(c.Call.Args[0].Type()) {
					continue
				}
				if _, isP := stripConvAny(c.Call.Args[0]).(*ssa.Parameter); !isP {
					continue
				}
				halves = append(halves, half{bo, c, in})
			}
		}
		for hi, hv := range halves {
			// used as the cut point of one base: some x[h:] (Low) and some x[0:h]/x[:h] (High)
			lowOf, highOf := map[ssa.Value]*ssa.Slice{}, map[ssa.Value]bool{}
			for _, b := range fn.Blocks {
				if !live[b.Index] {
					continue
				}
				for _, in := range b.Instrs {
					sl, ok := in.(*ssa.Slice)
					if !ok || !m.IsWordSlice(sl.X.Type()) {
						continue
					}
					base := stripConvAny(sl.X)
					if sl.Low != nil && stripConv(sl.Low) == hv.h && sl.High == nil {
						lowOf[base] = sl
					}
					if sl.High != nil && stripConv(sl.High) == hv.h {
						highOf[base] = true
					}
				}
			}
			var split *ssa.Slice
			for base, sl := range lowOf {
				if highOf[base] {
					split = sl
				}
			}
			if split == nil {
				continue
			}
			// a parity test of n on whose "even" edge the split lies
			ok := false
			for _, gb := range fn.Blocks {
				if !live[gb.Index] || len(gb.Instrs) == 0 {
					continue
				}
				ifi, isIf := gb.Instrs[len(gb.Instrs)-1].(*ssa.If)
				if !isIf {
					continue
				}
				bo, isB := ifi.Cond.(*ssa.BinOp)
				if !isB || (bo.Op != token.NEQ && bo.Op != token.EQL) {
					continue
				}
				z, isZ := model.ConstInt(bo.Y)
				par, isPar := stripConv(bo.X).(*ssa.BinOp)
				if !isZ || !isPar {
					continue
				}
				pk, isPk := model.ConstInt(par.Y)
				if !isPk || !((par.Op == token.AND && pk == 1) || (par.Op == token.REM && pk == 2)) {
					continue
				}
				if stripConv(par.X) != hv.n && !structEq(stripConv(par.X), hv.n, 3) {
					continue
				}
				// n&1 != 0: even on the false edge; n&1 == 0: even on the true edge; == 1 / != 1 mirrored
				evenEdge := -1
				switch {
				case bo.Op == token.NEQ && z == 0, bo.Op == token.EQL && z == 1:
					evenEdge = 1
				case bo.Op == token.EQL && z == 0, bo.Op == token.NEQ && z == 1:
					evenEdge = 0
				}
				if evenEdge >= 0 && m.EdgeDominates(gb, evenEdge, split.Block()) {
					ok = true
				}
			}
			c := m.FuncName(fn)
			if len(halves) > 1 {
				c = fmt.Sprintf("%s#%d", c, hi+1)
			}
			s.Check(ok, R, c, m.InstrPos(hv.in), "the operand is halved only behind a test that its length is even", fmt.Sprintf("%s: the operand is cut into two halves of len>>1 words with no test that the length is even on the way: with an odd tuning threshold the recursion reaches an odd length, the high half has one word more than the low one and the product is wrong", m.InstrPos(split)))
		}
	}
}
