package rules

// DIVCORE — the portable scalar primitives that turn a binary double word into decimal words
// (mul10WW_g, mulAdd10WWW_g …: functions of words only that call div10W/div10W_g) do so on every
// path: each return is dominated by that call. A shortcut `if hi == 0 { return 0, lo }` is wrong
// for products between the word base and 2^W.

import (
	"fmt"
	"strings"

	"golang.org/x/tools/go/ssa"

	"decverif/internal/model"
	"decverif/internal/ob"
)

func init() {
	Register(&Rule{Name: "DIVCORE", Floor: 1, Run: runDivCore,
		Doc: "a scalar word primitive that reduces by the word base (calls div10W) does so on every path to a return"})
}

func runDivCore(m *model.Model, s *ob.Set) {
	const R = "DIVCORE"
	for _, fn := range m.Funcs {
		if !m.InDecimalPkg(fn) || len(fn.Blocks) == 0 || !inKernelLayer(m, fn) || fn.Synthetic != "" {
			continue
		}
		scalar := len(fn.Params) > 0
		for _, p := range fn.Params {
			if !m.IsWord(p.Type()) {
				scalar = false
			}
		}
		if !scalar || strings.HasPrefix(fn.Name(), "div10W") {
			continue
		}
		var calls []*ssa.Call
		for _, b := range fn.Blocks {
			for _, in := range b.Instrs {
				if c, ok := in.(*ssa.Call); ok {
					if cal := c.Call.StaticCallee(); cal != nil && m.InDecimalPkg(cal) && strings.HasPrefix(cal.Name(), "div10W") {
						calls = append(calls, c)
					}
				}
			}
		}
		if len(calls) == 0 {
			continue
		}
		live := m.Live(fn)
		bad := ""
		for _, b := range fn.Blocks {
			if !live[b.Index] {
				continue
			}
			r, ok := b.Instrs[len(b.Instrs)-1].(*ssa.Return)
			if !ok {
				continue
			}
			dom := false
			for _, c := range calls {
				if m.InstrDominates(c, r) {
					dom = true
				}
			}
			if !dom {
				bad = fmt.Sprintf("%s: a return that is not behind the reduction by the word base (%s)", m.InstrPos(r), calls[0].Call.StaticCallee().Name())
			}
		}
		s.Check(bad == "", R, fn.Name(), m.Pos(fn.Pos()), "every return is behind the reduction by the word base", bad+": a binary double word whose high half is zero can still be a two-word decimal number (10^19 <= lo < 2^64)")
	}
}
