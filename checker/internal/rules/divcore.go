package rules

// DIVCORE — the portable scalar primitives that turn a binary double word into decimal words
// (mul10WW_g, mulAdd10WWW_g …: functions of words only that call div10W/div10W_g) do so on every
// path: each return is dominated by that call. A shortcut `if hi == 0 { return 0, lo }` is wrong
// for products between the word base and 2^W.

import (
	"fmt"
	"go/token"
	"go/types"
	"strings"

	"golang.org/x/tools/go/ssa"

	"decverif/internal/model"
	"decverif/internal/ob"
)

func init() {
	Register(&Rule{Name: "DIVCORE", Floor: 1, Run: runDivCore,
		Doc: "a scalar word primitive that reduces by the word base (calls div10W) does so on every path to a return"})
}

func runDivCore(m *model.Model, s *ob.Set) {
	const R = "DIVCORE"
	runDivShortcut(m, s)
	for _, fn := range m.Funcs {
		if !m.InDecimalPkg(fn) || len(fn.Blocks) == 0 || !inKernelLayer(m, fn) || fn.Synthetic != "" {
			continue
		}
		scalar := len(fn.Params) > 0
		for _, p := range fn.Params {
			if !m.IsWord(p.Type()) {
				scalar = false
			}
		}
		if !scalar || strings.HasPrefix(fn.Name(), "div10W") {
			continue
		}
		var calls []*ssa.Call
		for _, b := range fn.Blocks {
			for _, in := range b.Instrs {
				if c, ok := in.(*ssa.Call); ok {
					if cal := model.Unthunk(c.Call.StaticCallee()); cal != nil && m.InDecimalPkg(cal) && strings.HasPrefix(cal.Name(), "div10W") {
						calls = append(calls, c)
					}
				}
			}
		}
		if len(calls) == 0 {
			continue
		}
		live := m.Live(fn)
		bad := ""
		for _, b := range fn.Blocks {
			if !live[b.Index] {
				continue
			}
			r, ok := b.Instrs[len(b.Instrs)-1].(*ssa.Return)
			if !ok {
				continue
			}
			dom := false
			for _, c := range calls {
				if m.InstrDominates(c, r) {
					dom = true
				}
			}
			if !dom {
				bad = fmt.Sprintf("%s: a return that is not behind the reduction by the word base (%s)", m.InstrPos(r), calls[0].Call.StaticCallee().Name())
			}
		}
		s.Check(bad == "", R, fn.Name(), m.Pos(fn.Pos()), "every return is behind the reduction by the word base", bad+": a binary double word whose high half is zero can still be a two-word decimal number (10^19 <= lo < 2^64)")
	}
}

// runDivShortcut: a vector kernel that splits each word into quotient and remainder by a power of
// ten (the method div of the divisor record) may skip the division only for a word strictly below
// the divisor, where the pair is (0, word). `word <= divisor` is off by one: the divisor itself
// has quotient 1 and remainder 0.
func runDivShortcut(m *model.Model, s *ob.Set) {
	const R = "DIVCORE"
	// the division method and the field that holds the divisor: r = n - q*F
	var divFn *ssa.Function
	divField := -1
	for _, fn := range m.Funcs {
		if !m.InDecimalPkg(fn) || len(fn.Blocks) == 0 || fn.Synthetic != "" || len(fn.Params) != 2 || fn.Signature.Recv() == nil {
			continue
		}
		if _, ok := fn.Params[0].Type().Underlying().(*types.Struct); !ok || !m.IsWord(fn.Params[1].Type()) {
			continue
		}
		if fn.Signature.Results().Len() != 2 {
			continue
		}
		for _, b := range fn.Blocks {
			for _, in := range b.Instrs {
				bo, ok := in.(*ssa.BinOp)
				if !ok || bo.Op != token.SUB || bo.X != ssa.Value(fn.Params[1]) {
					continue
				}
				mu, ok := bo.Y.(*ssa.BinOp)
				if !ok || mu.Op != token.MUL {
					continue
				}
				for _, o := range []ssa.Value{mu.X, mu.Y} {
					if f, ok := structFieldOf(stripConv(o), fn.Params[0]); ok {
						divFn, divField = fn, f
					}
				}
			}
		}
	}
	if divFn == nil {
		return
	}
	for _, fn := range m.Funcs {
		if !m.InDecimalPkg(fn) || len(fn.Blocks) == 0 || fn.Synthetic != "" || fn == divFn || !inKernelLayer(m, fn) {
			continue
		}
		isDivRes := func(v ssa.Value) (*ssa.Call, int, bool) {
			ex, ok := v.(*ssa.Extract)
			if !ok {
				return nil, 0, false
			}
			c, ok := ex.Tuple.(*ssa.Call)
			if !ok || model.Unthunk(c.Call.StaticCallee()) != divFn {
				return nil, 0, false
			}
			return c, ex.Index, true
		}
		live := m.Live(fn)
		k := 0
		for _, b := range fn.Blocks {
			if !live[b.Index] {
				continue
			}
			for _, in := range b.Instrs {
				ph, ok := in.(*ssa.Phi)
				if !ok {
					break
				}
				var call *ssa.Call
				idx := 0
				for _, e := range ph.Edges {
					if c, i, ok := isDivRes(e); ok {
						call, idx = c, i
					}
				}
				if call == nil {
					continue
				}
				for ei, e := range ph.Edges {
					if _, _, ok := isDivRes(e); ok {
						continue
					}
					if e2, ok := e.(*ssa.Phi); ok {
						// loop-carried: a φ of division results further round
						// examined where it is joined
						some := false
						for _, x := range e2.Edges {
							if _, _, ok := isDivRes(x); ok {
								some = true
							}
						}
						if some {
							continue
						}
					}
					// a pair that does not come from the division: which test leads here?
					pred := b.Preds[ei]
					w := call.Call.Args[1]
					rel := token.ILLEGAL
					for _, gb := range fn.Blocks {
						if len(gb.Instrs) == 0 {
							continue
						}
						ifi, ok := gb.Instrs[len(gb.Instrs)-1].(*ssa.If)
						if !ok {
							continue
						}
						bo, ok := ifi.Cond.(*ssa.BinOp)
						if !ok {
							continue
						}
						x, y, op := stripConv(bo.X), stripConv(bo.Y), bo.Op
						if isDivisorValue(y, call.Call.Args[0], divField) && sameWordValue(x, w) {
						} else if isDivisorValue(x, call.Call.Args[0], divField) && sameWordValue(y, w) {
							op = mirrorOpTok[op]
						} else {
							continue
						}
						for si := 0; si < 2; si++ {
							if (gb == pred && gb.Succs[si] == b && gb.Succs[1-si] != b) || m.EdgeDominates(gb, si, pred) {
								rel = op
								if si == 1 {
									rel = negOp[op]
								}
							}
						}
					}
					k++
					c := fmt.Sprintf("%s/split-shortcut#%d", fn.Name(), k)
					switch rel {
					case token.ILLEGAL:
						s.Note(R, c, m.InstrPos(ph), "a quotient/remainder pair that does not come from the division joins one that does; no comparison of the word with the divisor recognised on the way (not decided)")
					case token.LSS:
						want := "the constant 0"
						good := false
						if idx == 0 {
							kk, isK := model.ConstInt(e)
							good = isK && kk == 0
						} else {
							want = "the word itself"
							good = sameWordValue(stripConv(e), w)
						}
						s.Check(good, R, c, m.InstrPos(ph), "division skipped for a word strictly below the divisor", fmt.Sprintf("for a word below the divisor result #%d of the split is %s; this path hands on something else", idx, want))
					default:
						s.Bad(R, c, m.InstrPos(ph), fmt.Sprintf("the division by the power of ten is skipped on the edge where word %s divisor: it may be skipped only for word < divisor (a word equal to the divisor has quotient 1 and remainder 0, one above it even more)", rel))
					}
				}
			}
		}
	}
}

// structFieldOf: v is field f of the struct value (or spilled struct parameter) base.
func structFieldOf(v ssa.Value, base ssa.Value) (int, bool) {
	switch x := v.(type) {
	case *ssa.Field:
		if x.X == base {
			return x.Field, true
		}
		if u, ok := x.X.(*ssa.UnOp); ok && u.Op == token.MUL {
			if spilledFrom(u.X, base) {
				return x.Field, true
			}
		}
	case *ssa.UnOp:
		if x.Op == token.MUL {
			if fa, ok := x.X.(*ssa.FieldAddr); ok && spilledFrom(fa.X, base) {
				return fa.Field, true
			}
		}
	}
	return 0, false
}

// spilledFrom: addr is a local the value base was stored into.
func spilledFrom(addr ssa.Value, base ssa.Value) bool {
	al, ok := addr.(*ssa.Alloc)
	if !ok {
		return false
	}
	for _, r := range *al.Referrers() {
		if st, ok := r.(*ssa.Store); ok && st.Addr == ssa.Value(al) && st.Val == base {
			return true
		}
	}
	return false
}

// isDivisorValue: v is field f of the record recv that is handed to the division (a load of the
// local the record lives in, or a field of the very value).
func isDivisorValue(v ssa.Value, recv ssa.Value, f int) bool {
	v = stripConv(v)
	local := func(x ssa.Value) ssa.Value {
		if u, ok := x.(*ssa.UnOp); ok && u.Op == token.MUL {
			return u.X
		}
		return nil
	}
	switch x := v.(type) {
	case *ssa.Field:
		if x.Field != f {
			return false
		}
		if x.X == recv {
			return true
		}
		if a, b := local(x.X), local(recv); a != nil && a == b {
			return true
		}
	case *ssa.UnOp:
		if x.Op != token.MUL {
			return false
		}
		if fa, ok := x.X.(*ssa.FieldAddr); ok && fa.Field == f {
			if b := local(recv); b != nil && fa.X == b {
				return true
			}
		}
	}
	return false
}

// sameWordValue: the same SSA value, or two loads of the same element address expression.
func sameWordValue(a, b ssa.Value) bool {
	a, b = stripConv(a), stripConv(b)
	if a == b {
		return true
	}
	ua, ok1 := a.(*ssa.UnOp)
	ub, ok2 := b.(*ssa.UnOp)
	if ok1 && ok2 && ua.Op == token.MUL && ub.Op == token.MUL {
		ia, ok1 := ua.X.(*ssa.IndexAddr)
		ib, ok2 := ub.X.(*ssa.IndexAddr)
		return ok1 && ok2 && ia.X == ib.X && ia.Index == ib.Index
	}
	return false
}
