package rules

// E7 (continued) — a symbolic evaluator for straight-line amd64 code.
//
// The syntactic comparisons of E7 (lanes/, inline/) align two instruction sequences one by one,
// modulo register renaming. A behaviour-preserving rewrite of one of the two — instructions
// reordered where independent, LEAQ 1(R) written MOVQ+INCQ, operands of a commutative operation
// swapped, a constant hoisted out of the loop — breaks the alignment although both still compute
// the same thing. Where the syntactic comparison fails, the two sequences are therefore evaluated
// over symbolic inputs into canonical expressions (global value numbering: nothing is executed,
// no value is enumerated, no solver is asked) and the expressions are compared:
//
//   - every register starts as the symbol in:REG, every memory read is ld(address), every FP
//     argument fp:name; addresses are normalised to base + scale·index + offset with constants
//     folded, so that 8(R8)(SI*8) after `ADDQ $1, SI` and 16(R8)(SI*8) before it are the same;
//   - + is flattened, sorted and constant-folded modulo 2^64, − is + of a negation that distributes
//     over sums, NOT x is −x − 1, AND/OR/XOR are flattened and sorted, MULQ's operands are
//     sorted; everything else (shifts, divisions, carry flags of a given operation) is opaque;
//   - only the carry flag is modelled: it is a function cf(op, operands) of the instruction that
//     produced it; INCQ/DECQ leave it alone (as the hardware does), logical operations clear it,
//     `SBBQ R, R` is −cf and leaves the carry as it was.
//
// All identities used hold in Z/2^64, so equal canonical forms mean equal values for all inputs;
// unequal forms mean "not shown equal", which the callers report as a violation together with
// the first difference.

import (
	"fmt"
	"sort"
	"strconv"
	"strings"
)

type sx struct {
	op   string // "#", "leaf", "add", "neg", "and", "or", "xor", "mullo", "mulhi", "mulc", "shl", "shr", "sar", "ld", "cf", f-ops, "divq", "divr", ...
	k    uint64
	name string
	args []*sx
	str  string
}

func (e *sx) String() string {
	if e.str != "" {
		return e.str
	}
	switch e.op {
	case "#":
		e.str = "#" + strconv.FormatInt(int64(e.k), 10)
	case "leaf":
		e.str = e.name
	case "mulc":
		e.str = fmt.Sprintf("mulc(%s,%d)", e.args[0], e.k)
	default:
		var a []string
		for _, x := range e.args {
			a = append(a, x.String())
		}
		e.str = e.op + "(" + strings.Join(a, ",") + ")"
	}
	return e.str
}

func sxC(k uint64) *sx             { return &sx{op: "#", k: k} }
func sxLeaf(n string) *sx          { return &sx{op: "leaf", name: n} }
func (e *sx) isC() bool            { return e.op == "#" }
func sxOp(op string, a ...*sx) *sx { return &sx{op: op, args: a} }

func sortSx(a []*sx) {
	sort.Slice(a, func(i, j int) bool { return a[i].String() < a[j].String() })
}

func sxNeg(x *sx) *sx {
	switch x.op {
	case "#":
		return sxC(-x.k)
	case "neg":
		return x.args[0]
	case "add":
		var a []*sx
		for _, y := range x.args {
			a = append(a, sxNeg(y))
		}
		return sxAdd(a...)
	case "mulc":
		return sxMulC(x.args[0], -x.k)
	}
	return sxOp("neg", x)
}

func sxAdd(in ...*sx) *sx {
	var flat []*sx
	var k uint64
	var walk func(e *sx)
	walk = func(e *sx) {
		switch e.op {
		case "add":
			for _, y := range e.args {
				walk(y)
			}
		case "#":
			k += e.k
		default:
			flat = append(flat, e)
		}
	}
	for _, e := range in {
		walk(e)
	}
	// x + (−x) cancels
	sortSx(flat)
	var out []*sx
	used := make([]bool, len(flat))
	for i, e := range flat {
		if used[i] {
			continue
		}
		ne := sxNeg(e).String()
		cancelled := false
		for j := i + 1; j < len(flat); j++ {
			if !used[j] && flat[j].String() == ne {
				used[j] = true
				cancelled = true
				break
			}
		}
		if !cancelled {
			out = append(out, e)
		}
	}
	if k != 0 {
		out = append(out, sxC(k))
	}
	switch len(out) {
	case 0:
		return sxC(0)
	case 1:
		return out[0]
	}
	sortSx(out)
	return sxOp("add", out...)
}

func sxNot(x *sx) *sx { return sxAdd(sxNeg(x), sxC(^uint64(0))) }

func sxMulC(x *sx, k uint64) *sx {
	switch {
	case k == 0:
		return sxC(0)
	case k == 1:
		return x
	case x.op == "#":
		return sxC(x.k * k)
	case x.op == "add":
		var a []*sx
		for _, y := range x.args {
			a = append(a, sxMulC(y, k))
		}
		return sxAdd(a...)
	case x.op == "mulc":
		return sxMulC(x.args[0], x.k*k)
	case x.op == "neg":
		return sxMulC(x.args[0], -k)
	}
	return &sx{op: "mulc", k: k, args: []*sx{x}}
}

func sxLogic(op string, in ...*sx) *sx {
	var flat []*sx
	var walk func(e *sx)
	walk = func(e *sx) {
		if e.op == op {
			for _, y := range e.args {
				walk(y)
			}
		} else {
			flat = append(flat, e)
		}
	}
	for _, e := range in {
		walk(e)
	}
	sortSx(flat)
	var out []*sx
	for i := 0; i < len(flat); i++ {
		e := flat[i]
		if i+1 < len(flat) && flat[i+1].String() == e.String() {
			if op == "xor" {
				i++ // x ^ x = 0
				continue
			}
			continue // x & x = x, x | x = x: keep the later copy
		}
		if e.isC() {
			switch {
			case op == "and" && e.k == 0:
				return sxC(0)
			case op == "and" && e.k == ^uint64(0), op == "or" && e.k == 0, op == "xor" && e.k == 0:
				continue
			case op == "or" && e.k == ^uint64(0):
				return sxC(^uint64(0))
			}
		}
		out = append(out, e)
	}
	switch len(out) {
	case 0:
		if op == "and" {
			return sxC(^uint64(0))
		}
		return sxC(0)
	case 1:
		return out[0]
	}
	return sxOp(op, out...)
}

func sxComm(op string, a, b *sx) *sx {
	if a.String() > b.String() {
		a, b = b, a
	}
	return sxOp(op, a, b)
}

// sxCF: the carry flag left by the flag-producing node f.
func sxCF(f *sx) *sx {
	if f == nil {
		return sxLeaf("in:CF")
	}
	if f.op == "flog" {
		return sxC(0)
	}
	return sxOp("cf", f)
}

// substitute replaces leaves by expressions and renormalises.
func (e *sx) subst(m map[string]*sx) *sx {
	switch e.op {
	case "#":
		return e
	case "leaf":
		if r, ok := m[e.name]; ok {
			return r
		}
		return e
	}
	var a []*sx
	for _, x := range e.args {
		a = append(a, x.subst(m))
	}
	switch e.op {
	case "add":
		return sxAdd(a...)
	case "neg":
		return sxNeg(a[0])
	case "mulc":
		return sxMulC(a[0], e.k)
	case "and", "or", "xor":
		return sxLogic(e.op, a...)
	case "mullo", "mulhi", "fadd":
		return sxComm(e.op, a[0], a[1])
	}
	return sxOp(e.op, a...)
}

type symState struct {
	reg     map[string]*sx
	flags   *sx
	stores  map[string]*sx // canonical address -> value (last store wins)
	order   []string       // addresses in store order
	fp      map[string]*sx // result slots written
	defines map[string]string
	unknown string // first instruction without a modelled semantics
}

func newSymState(defines map[string]string) *symState {
	return &symState{reg: map[string]*sx{}, stores: map[string]*sx{}, fp: map[string]*sx{}, defines: defines}
}

func (s *symState) r(n string) *sx {
	if v, ok := s.reg[n]; ok {
		return v
	}
	return sxLeaf("in:" + n)
}

func (s *symState) imm(a string) (*sx, bool) {
	if !strings.HasPrefix(a, "$") {
		return nil, false
	}
	t := a[1:]
	if d, ok := s.defines[t]; ok {
		t = d
	}
	neg := false
	if strings.HasPrefix(t, "-") {
		neg = true
		t = t[1:]
	}
	v, err := strconv.ParseUint(t, 0, 64)
	if err != nil {
		return sxLeaf("imm:" + a[1:]), true
	}
	if neg {
		v = -v
	}
	return sxC(v), true
}

// addr returns the canonical address expression of a memory operand.
func (s *symState) addr(a string) (*sx, bool) {
	mm := reMem.FindStringSubmatch(a)
	if mm == nil {
		return nil, false
	}
	var parts []*sx
	if mm[1] != "" {
		v, _ := strconv.ParseInt(mm[1], 10, 64)
		parts = append(parts, sxC(uint64(v)))
	}
	parts = append(parts, s.r(mm[2]))
	if mm[3] != "" {
		sc, _ := strconv.ParseUint(mm[4], 10, 64)
		parts = append(parts, sxMulC(s.r(mm[3]), sc))
	}
	return sxAdd(parts...), true
}

// val reads an operand.
func (s *symState) val(a string) (*sx, bool) {
	if asmRegs[a] {
		return s.r(a), true
	}
	if v, ok := s.imm(a); ok {
		return v, true
	}
	if mm := reFP.FindStringSubmatch(a); mm != nil {
		return sxLeaf("fp:" + mm[1]), true
	}
	if ad, ok := s.addr(a); ok {
		return sxOp("ld", ad), true
	}
	return nil, false
}

func (s *symState) set(a string, v *sx) bool {
	if asmRegs[a] {
		s.reg[a] = v
		return true
	}
	if mm := reFP.FindStringSubmatch(a); mm != nil {
		s.fp[mm[1]] = v
		return true
	}
	if ad, ok := s.addr(a); ok {
		k := ad.String()
		if _, seen := s.stores[k]; !seen {
			s.order = append(s.order, k)
		}
		s.stores[k] = v
		return true
	}
	return false
}

// step evaluates one instruction; jumps and labels are ignored (straight-line evaluation of a
// loop body: the callers compare what the fall-through path computes).
func (s *symState) step(in asmInstr) {
	if in.label != "" || s.unknown != "" {
		return
	}
	fail := func() { s.unknown = fmt.Sprintf("%s %s (line %d)", in.op, strings.Join(in.args, ", "), in.line) }
	n := len(in.args)
	switch in.op {
	case "MOVQ":
		if n != 2 {
			fail()
			return
		}
		v, ok := s.val(in.args[0])
		if !ok || !s.set(in.args[1], v) {
			fail()
		}
	case "LEAQ":
		ad, ok := s.addr(in.args[0])
		if n != 2 || !ok || !s.set(in.args[1], ad) {
			fail()
		}
	case "ADDQ", "SUBQ", "ADCQ", "SBBQ", "ANDQ", "ORQ", "XORQ":
		if n != 2 {
			fail()
			return
		}
		a, ok1 := s.val(in.args[0])
		b, ok2 := s.val(in.args[1])
		if !ok1 || !ok2 {
			fail()
			return
		}
		same := in.args[0] == in.args[1] && asmRegs[in.args[0]]
		var res, fl *sx
		switch in.op {
		case "ADDQ":
			res, fl = sxAdd(b, a), sxComm("fadd", a, b)
		case "SUBQ":
			if same {
				res, fl = sxC(0), sxOp("flog", sxC(0))
			} else {
				res, fl = sxAdd(b, sxNeg(a)), sxOp("fsub", b, a)
			}
		case "ADCQ":
			c := sxCF(s.flags)
			res, fl = sxAdd(b, a, c), sxOp("fadc", sxComm("pair", a, b), c)
		case "SBBQ":
			c := sxCF(s.flags)
			if same {
				res, fl = sxNeg(c), s.flags // −CF; the carry stays what it was
			} else {
				res, fl = sxAdd(b, sxNeg(a), sxNeg(c)), sxOp("fsbb", b, a, c)
			}
		case "ANDQ":
			res = sxLogic("and", a, b)
			fl = sxOp("flog", res)
		case "ORQ":
			res = sxLogic("or", a, b)
			fl = sxOp("flog", res)
		case "XORQ":
			if same {
				res = sxC(0)
			} else {
				res = sxLogic("xor", a, b)
			}
			fl = sxOp("flog", res)
		}
		if !s.set(in.args[1], res) {
			fail()
			return
		}
		s.flags = fl
	case "NEGQ", "NOTQ", "INCQ", "DECQ":
		if n != 1 {
			fail()
			return
		}
		a, ok := s.val(in.args[0])
		if !ok {
			fail()
			return
		}
		var res *sx
		switch in.op {
		case "NEGQ":
			res = sxNeg(a)
			s.flags = sxOp("fneg", a)
		case "NOTQ":
			res = sxNot(a)
		case "INCQ":
			res = sxAdd(a, sxC(1)) // CF untouched
		case "DECQ":
			res = sxAdd(a, sxC(^uint64(0)))
		}
		if !s.set(in.args[0], res) {
			fail()
		}
	case "MOVWLZX":
		v, ok := s.val(in.args[0])
		if n != 2 || !ok || !s.set(in.args[1], sxOp("zx16", v)) {
			fail()
		}
	case "RORW", "ROLW":
		if n != 2 {
			fail()
			return
		}
		a, ok1 := s.val(in.args[0])
		b, ok2 := s.val(in.args[1])
		if !ok1 || !ok2 {
			fail()
			return
		}
		// rotating a 16-bit register by 8 twice gives it back
		op := map[string]string{"RORW": "ror16", "ROLW": "rol16"}[in.op]
		res := sxOp(op, b, a)
		if b.op == op && len(b.args) == 2 && b.args[1].String() == a.String() && a.isC() && a.k == 8 {
			res = b.args[0]
		}
		if !s.set(in.args[1], res) {
			fail()
			return
		}
		s.flags = sxOp("fshift", res)
	case "SHRQ", "SHLQ", "SARQ":
		if n != 2 {
			fail()
			return
		}
		a, ok1 := s.val(in.args[0])
		b, ok2 := s.val(in.args[1])
		if !ok1 || !ok2 {
			fail()
			return
		}
		op := map[string]string{"SHRQ": "shr", "SHLQ": "shl", "SARQ": "sar"}[in.op]
		res := sxOp(op, b, a)
		if !s.set(in.args[1], res) {
			fail()
			return
		}
		s.flags = sxOp("fshift", res)
	case "MULQ":
		a, ok := s.val(in.args[0])
		if n != 1 || !ok {
			fail()
			return
		}
		ax := s.r("AX")
		s.reg["AX"], s.reg["DX"] = sxComm("mullo", ax, a), sxComm("mulhi", ax, a)
		s.flags = sxOp("fmul", s.reg["DX"])
	case "DIVQ":
		a, ok := s.val(in.args[0])
		if n != 1 || !ok {
			fail()
			return
		}
		dx, ax := s.r("DX"), s.r("AX")
		s.reg["AX"], s.reg["DX"] = sxOp("divq", dx, ax, a), sxOp("divr", dx, ax, a)
		s.flags = sxOp("fdiv", s.reg["AX"])
	case "CMPQ":
		a, ok1 := s.val(in.args[0])
		b, ok2 := s.val(in.args[1])
		if n != 2 || !ok1 || !ok2 {
			fail()
			return
		}
		s.flags = sxOp("fsub", a, b)
	case "TESTQ":
		a, ok1 := s.val(in.args[0])
		b, ok2 := s.val(in.args[1])
		if n != 2 || !ok1 || !ok2 {
			fail()
			return
		}
		s.flags = sxOp("flog", sxLogic("and", a, b))
	case "JMP", "RET":
	default:
		if strings.HasPrefix(in.op, "J") {
			return
		}
		fail()
	}
}

func (s *symState) run(seq []asmInstr) {
	for _, in := range seq {
		s.step(in)
	}
}

// symInputs: registers a sequence reads before it writes them.
func symInputs(seq []asmInstr) map[string]bool {
	written := map[string]bool{}
	in := map[string]bool{}
	for _, ins := range seq {
		if ins.label != "" {
			continue
		}
		rw := asmEffect(ins)
		for _, r := range rw.reads {
			if r != asmFlags && !written[r] {
				in[r] = true
			}
		}
		for _, w := range rw.writes {
			written[w] = true
		}
	}
	return in
}

// symLoopEquiv: the unrolled body computes what K consecutive iterations of the tail body compute:
// the same values stored at the same addresses and the same final values in every register that
// either body takes as an input (the loop-carried state: carry, index, counter, bases, constants).
func symLoopEquiv(unrolled, tail []asmInstr, K int, defines map[string]string) (string, bool) {
	su, st := newSymState(defines), newSymState(defines)
	su.run(unrolled)
	for k := 0; k < K; k++ {
		st.run(tail)
	}
	if su.unknown != "" || st.unknown != "" {
		return "an instruction outside the modelled set: " + su.unknown + st.unknown, false
	}
	if len(su.stores) != len(st.stores) {
		return fmt.Sprintf("the unrolled body stores to %d distinct addresses, %d tail iterations to %d", len(su.stores), K, len(st.stores)), true
	}
	for _, a := range su.order {
		tv, ok := st.stores[a]
		if !ok {
			return fmt.Sprintf("the unrolled body stores to %s, the tail iterations do not", a), true
		}
		if uv := su.stores[a]; uv.String() != tv.String() {
			return fmt.Sprintf("the value stored at %s differs: unrolled body %s, %d tail iterations %s", a, clip(uv.String()), K, clip(tv.String())), true
		}
	}
	regs := symInputs(unrolled)
	for r := range symInputs(tail) {
		regs[r] = true
	}
	var rs []string
	for r := range regs {
		rs = append(rs, r)
	}
	sort.Strings(rs)
	for _, r := range rs {
		if u, t := su.r(r).String(), st.r(r).String(); u != t {
			return fmt.Sprintf("the loop-carried register %s ends as %s in the unrolled body and as %s after %d tail iterations", r, clip(u), clip(t), K), true
		}
	}
	return "", true
}

func clip(s string) string {
	if len(s) > 160 {
		return s[:160] + "…"
	}
	return s
}

// symInlineEquiv: some pair of registers (n1, n0) at some point of seq makes the reference
// routine's results, as functions of its two FP arguments, equal to what seq goes on to compute:
// the reference's second result (the remainder) is what seq stores to memory or to a result slot,
// and its first result (the quotient) ends in a register or a result slot.
func symInlineEquiv(ref *asmText, seq []asmInstr, entry *symState, defines map[string]string) (string, bool) {
	rs := newSymState(defines)
	rs.run(ref.instrs)
	if rs.unknown != "" {
		return "reference: an instruction outside the modelled set: " + rs.unknown, false
	}
	var refArgs []string
	seen := map[string]bool{}
	for _, in := range ref.instrs {
		for _, a := range in.args {
			if mm := reFP.FindStringSubmatch(a); mm != nil && in.op == "MOVQ" && len(in.args) == 2 && a == in.args[0] && !seen[mm[1]] {
				seen[mm[1]] = true
				refArgs = append(refArgs, mm[1])
			}
		}
	}
	var refRes []string
	for k := range rs.fp {
		refRes = append(refRes, k)
	}
	sort.Strings(refRes)
	if len(refArgs) != 2 || len(refRes) != 2 {
		return fmt.Sprintf("reference routine does not have two FP arguments and two results (%v -> %v)", refArgs, refRes), false
	}
	// what the sequence computes in the end
	fin := newSymState(defines)
	for k, v := range entry.reg {
		fin.reg[k] = v
	}
	fin.run(seq)
	if fin.unknown != "" {
		return "an instruction outside the modelled set: " + fin.unknown, false
	}
	finals := map[string]bool{}
	for _, v := range fin.stores {
		finals[v.String()] = true
	}
	for _, v := range fin.fp {
		finals[v.String()] = true
	}
	for _, v := range fin.reg {
		finals[v.String()] = true
	}
	// candidates for (n1, n0): the registers at every point of the sequence
	cur := newSymState(defines)
	for k, v := range entry.reg {
		cur.reg[k] = v
	}
	var regs []string
	for r := range asmRegs {
		regs = append(regs, r)
	}
	sort.Strings(regs)
	try := func() bool {
		for _, r1 := range regs {
			v1, ok := cur.reg[r1]
			if !ok {
				continue
			}
			for _, r0 := range regs {
				v0, ok := cur.reg[r0]
				if !ok || r0 == r1 {
					continue
				}
				sub := map[string]*sx{"fp:" + refArgs[0]: v1, "fp:" + refArgs[1]: v0}
				all := true
				for _, res := range refRes {
					if !finals[rs.fp[res].subst(sub).String()] {
						all = false
						break
					}
				}
				if all {
					return true
				}
			}
		}
		return false
	}
	for _, in := range seq {
		cur.step(in)
		if try() {
			return "", true
		}
	}
	return "no pair of registers at any point of the sequence, taken as (n1, n0), makes ·" + strings.TrimPrefix(ref.name, "·") + "'s two results equal to values the sequence ends with", true
}
