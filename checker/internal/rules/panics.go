package rules

// E5 — PANIC: census of every panic site in non-test code, classified by the
// discharge rule it satisfies; and ENUM: the three enumerated fields only ever
// receive declared enumerators.

import (
	"fmt"
	"go/ast"
	"go/constant"
	"go/token"
	"go/types"
	"sort"
	"strings"

	"golang.org/x/tools/go/ssa"

	"decverif/internal/model"
	"decverif/internal/ob"
)

func init() {
	Register(&Rule{Name: "PANIC", Floor: 12, Run: runPanic,
		Doc: "every reachable panic site is an ErrNaN panic of a documented operation, a re-panic of a recovered value, unreachable behind an exhaustive switch over an enumeration, or one of the tabled contract/internal-consistency panics; anything else is a new way to panic"})
	Register(&Rule{Name: "ENUM", Floor: 20, Run: runEnum,
		Doc: "stores into the form, mode and acc fields are declared enumerators, copies of the same field, makeAcc results, a parameter of the enumeration type, or values checked against the largest enumerator"})
}

// tabled contract / internal-consistency panics: "function|message" -> (count, class, discharge)
var panicTable = map[string]struct {
	n     int
	class string
	why   string
}{
	"dec.scan|<dynamic>":                       {1, "contract", "documented: an invalid base argument panics"},
	"dec.itoa|invalid base":                    {1, "contract", "documented base range 2..MaxBase"},
	"dec.convertWords|not implemented":         {1, "internal", "divisors() returns the constant nil on every path, so table != nil is dead"},
	"dec.sub|underflow":                        {2, "internal", "rule GUARD: every usub is dominated by |x| >= |y|"},
	"dec.divW|division by zero":                {1, "internal", "divisor is the non-zero top word of a normalised mantissa, a decMaxPow table value, or d >= 1"},
	"dec.div|division by zero":                 {1, "internal", "uquo passes the mantissa of a finite (non-empty) operand"},
	"dec.divRecursiveStep|impossible":          {3, "internal", "NOT discharged statically (numeric); rule WORD rules out the one known cause"},
	"(*Decimal).scan|unexpected mantissa base": {1, "internal", "dec.scan with fracOk returns a base in {2,8,10,16} (baseOk test), all four have a case"},
	"(*Decimal).scan|unexpected exponent base": {1, "internal", "scanExponent returns base 10 or 2 only"},
}

var errNaNOps = map[string]bool{"(*Decimal).Add": true, "(*Decimal).Sub": true, "(*Decimal).Mul": true, "(*Decimal).Quo": true, "(*Decimal).FMA": true, "(*Decimal).Sqrt": true, "(*Decimal).SetFloat64": true}

// liveReachable: functions reachable from exported API / init through calls in live blocks.
func liveReachable(m *model.Model) map[*ssa.Function]bool {
	reach := map[*ssa.Function]bool{}
	var work []*ssa.Function
	for _, fn := range m.Funcs {
		if m.IsExported(fn) || fn.Name() == "init" || strings.HasPrefix(fn.Name(), "init#") || fn.Synthetic != "" {
			reach[fn] = true
			work = append(work, fn)
		}
		// methods satisfying interfaces (String, Format, Error, ReadByte, ...) are entry points too
		if fn.Signature.Recv() != nil && fn.Parent() == nil && fn.Object() != nil && fn.Object().Exported() {
			if !reach[fn] {
				reach[fn] = true
				work = append(work, fn)
			}
		}
	}
	for len(work) > 0 {
		fn := work[len(work)-1]
		work = work[:len(work)-1]
		live := m.Live(fn)
		for _, b := range fn.Blocks {
			if !live[b.Index] {
				continue
			}
			for _, in := range b.Instrs {
				var ops []*ssa.Value
				for _, o := range in.Operands(ops) {
					if *o == nil {
						continue
					}
					var callee *ssa.Function
					switch x := (*o).(type) {
					case *ssa.Function:
						callee = x
					case *ssa.MakeClosure:
						callee, _ = x.Fn.(*ssa.Function)
					}
					if callee != nil && !reach[callee] && len(callee.Blocks) > 0 {
						reach[callee] = true
						work = append(work, callee)
					}
				}
			}
		}
	}
	return reach
}

// enumConsts: the enumerators of the named type t — the constants of that type declared in the
// largest const block that declares any (the enumeration itself; a sentinel declared on its own,
// `const noForm form = 0xff`, is not one of them). Falls back to every constant of the type.
func enumConsts(m *model.Model, t types.Type) []int64 {
	n, ok := t.(*types.Named)
	if !ok {
		return nil
	}
	var best []int64
	for _, f := range m.SourceFiles() {
		for _, d := range f.Decls {
			gd, ok := d.(*ast.GenDecl)
			if !ok || gd.Tok != token.CONST {
				continue
			}
			var vals []int64
			for _, sp := range gd.Specs {
				vs, ok := sp.(*ast.ValueSpec)
				if !ok {
					continue
				}
				for _, nm := range vs.Names {
					var c *types.Const
					if o, ok := m.Dec.TypesInfo.Defs[nm].(*types.Const); ok {
						c = o
					} else if o, ok := m.Ctx.TypesInfo.Defs[nm].(*types.Const); ok {
						c = o
					}
					if c != nil && types.Identical(c.Type(), t) {
						if v, ok := constant.Int64Val(c.Val()); ok {
							vals = append(vals, v)
						}
					}
				}
			}
			if len(vals) > len(best) {
				best = vals
			}
		}
	}
	if len(best) >= 2 {
		sort.Slice(best, func(i, j int) bool { return best[i] < best[j] })
		return best
	}
	var out []int64
	sc := n.Obj().Pkg().Scope()
	for _, name := range sc.Names() {
		if c, ok := sc.Lookup(name).(*types.Const); ok && types.Identical(c.Type(), t) {
			if v, ok := constant.Int64Val(c.Val()); ok {
				out = append(out, v)
			}
		}
	}
	sort.Slice(out, func(i, j int) bool { return out[i] < out[j] })
	return out
}

func runPanic(m *model.Model, s *ob.Set) {
	const R = "PANIC"
	reach := liveReachable(m)
	counts := map[string][]string{}
	fnOf := map[string]*ssa.Function{}
	msgOf := map[string]string{}
	total := 0
	for _, fn := range m.Funcs {
		live := m.Live(fn)
		for _, b := range fn.Blocks {
			if !live[b.Index] {
				continue
			}
			p, ok := b.Instrs[len(b.Instrs)-1].(*ssa.Panic)
			if !ok {
				continue
			}
			total++
			name := m.FuncName(fn)
			pos := m.InstrPos(p)
			// debug-only: the function is reachable only from dead (debugDecimal) code
			if !reach[fn] {
				s.Ok(R, name+"/debug-only", pos, "function is called only from code guarded by the constant-false debugDecimal")
				continue
			}
			mi, _ := p.X.(*ssa.MakeInterface)
			// ErrNaN
			if mi != nil {
				if n, ok := mi.X.Type().(*types.Named); ok && n.Obj().Name() == "ErrNaN" {
					s.Check(errNaNOps[name], R, name+"/ErrNaN", pos, "documented invalid-operation panic (cells checked by T-ARITH/T-UNARY/T-CONV)", name+" is not documented to panic with ErrNaN: the NaN would escape from an operation whose callers do not expect it")
					continue
				}
			}
			// re-panic of a recovered value
			if c, ok := p.X.(*ssa.Call); ok && model.BuiltinName(&c.Call) == "recover" {
				s.Ok(R, name+"/re-panic", pos, "re-raises the recovered value")
				continue
			}
			// unreachable behind an exhaustive switch
			if ok, what := behindExhaustiveSwitch(m, fn, b); ok {
				s.Ok(R, name+"/unreachable", pos, "all values of "+what+" are handled before this point (for an enumeration, ENUM keeps the field within its enumerators)")
				continue
			}
			msg := "<dynamic>"
			if mi != nil {
				if k, ok := mi.X.(*ssa.Const); ok && k.Value != nil && k.Value.Kind() == constant.String {
					msg = constant.StringVal(k.Value)
				}
			}
			key := name + "|" + msg
			counts[key] = append(counts[key], pos)
			fnOf[key], msgOf[key] = fn, msg
		}
	}
	var keys []string
	for k := range counts {
		keys = append(keys, k)
	}
	sort.Strings(keys)
	for _, k := range keys {
		t, ok := panicTable[k]
		if !ok && m.IsNewFunc(fnOf[k]) {
			// a tabled internal-consistency panic that moved, with its message, into a new helper
			// of the function it is tabled for
			for _, caller := range m.Funcs {
				if ok || !m.InDecimalPkg(caller) {
					continue
				}
				for _, b := range caller.Blocks {
					for _, in := range b.Instrs {
						if cal, _ := model.Callee(in); cal == fnOf[k] {
							if t2, ok2 := panicTable[m.FuncName(caller)+"|"+msgOf[k]]; ok2 {
								t, ok = t2, true
							}
						}
					}
				}
			}
		}
		switch {
		case ok:
			// the tabled argument is about the function's contract and this message, not about
			// how many statements raise it (a branch split in two repeats its panic)
			s.Ok(R, k, counts[k][0], fmt.Sprintf("%s (%d site(s)): %s", t.class, len(counts[k]), t.why))
		default:
			s.Bad(R, k, counts[k][0], "a panic site that satisfies no discharge rule and is not tabled: a new way for a valid call to panic", counts[k]...)
		}
	}
	if total < 10 {
		m.Blind("PANIC: only %d reachable panic sites found", total)
	}
}

// behindExhaustiveSwitch: block b is reached only over the not-equal edges of comparisons of one
// value with every enumerator of its (named, enumerated) type.
func behindExhaustiveSwitch(m *model.Model, fn *ssa.Function, b *ssa.BasicBlock) (bool, string) {
	type key struct{ v string }
	seen := map[string]map[int64]bool{}
	remSeen := map[string]map[int64]bool{}
	types_ := map[string]types.Type{}
	for _, gb := range fn.Blocks {
		if len(gb.Instrs) == 0 {
			continue
		}
		ifi, ok := gb.Instrs[len(gb.Instrs)-1].(*ssa.If)
		if !ok {
			continue
		}
		bo, ok := ifi.Cond.(*ssa.BinOp)
		if !ok {
			continue
		}
		// reached only for a value beyond the last enumerator: `if mode > ToPositiveInf { panic }`
		ex := bo.X
		if cv, isConv := ex.(*ssa.Convert); isConv {
			ex = cv.X // int(z.mode) < len(table)
		}
		if _, isNamed := ex.Type().(*types.Named); isNamed && bo.Op != token.EQL {
			if kk, okk := model.ConstInt(bo.Y); okk {
				if all := enumConsts(m, ex.Type()); len(all) >= 2 {
					max := all[len(all)-1]
					edge := -1
					switch {
					case bo.Op == token.GTR && kk == max, bo.Op == token.GEQ && kk == max+1:
						edge = 0
					case bo.Op == token.LEQ && kk == max, bo.Op == token.LSS && kk == max+1:
						edge = 1
					}
					if bt, isB := ex.Type().Underlying().(*types.Basic); edge >= 0 && isB && bt.Info()&types.IsUnsigned != 0 && all[0] == 0 {
						if (gb.Succs[edge] == b && len(b.Preds) == 1) || m.EdgeDominates(gb, edge, b) {
							return true, ex.Type().String()
						}
					}
				}
			}
		}
		if bo.Op != token.EQL {
			continue
		}
		k, ok := model.ConstInt(bo.Y)
		if !ok {
			continue
		}
		// x % k with every residue handled (-(k-1)..k-1 for a signed x, 0..k-1 for an unsigned one)
		if rem, ok := stripConv(bo.X).(*ssa.BinOp); ok && rem.Op == token.REM && m.EdgeDominates(gb, 1, b) {
			if kmod, ok := model.ConstInt(rem.Y); ok && kmod > 0 && kmod <= 16 {
				rk := "rem:" + exprKey(m, rem.X, 4) + "%" + fmt.Sprint(kmod)
				if remSeen[rk] == nil {
					remSeen[rk] = map[int64]bool{}
				}
				remSeen[rk][k] = true
				lo := int64(0)
				if bt, ok := rem.X.Type().Underlying().(*types.Basic); ok && bt.Info()&types.IsUnsigned == 0 {
					lo = -(kmod - 1)
				}
				all := true
				for v := lo; v <= kmod-1; v++ {
					if !remSeen[rk][v] {
						all = false
					}
				}
				if all {
					return true, fmt.Sprintf("the remainder modulo %d", kmod)
				}
			}
			continue
		}
		if _, isNamed := bo.X.Type().(*types.Named); !isNamed {
			continue
		}
		if !m.EdgeDominates(gb, 1, b) {
			continue
		}
		kk := exprKey(m, bo.X, 4)
		if seen[kk] == nil {
			seen[kk] = map[int64]bool{}
		}
		seen[kk][k] = true
		types_[kk] = bo.X.Type()
	}
	for kk, vals := range seen {
		all := enumConsts(m, types_[kk])
		if len(all) < 2 {
			continue
		}
		ok := true
		for _, c := range all {
			if !vals[c] {
				ok = false
			}
		}
		if ok {
			return true, types_[kk].String()
		}
	}
	return false, ""
}

func runEnum(m *model.Model, s *ob.Set) {
	const R = "ENUM"
	fields := []int{m.F.Form, m.F.Mode, m.F.Acc}
	for _, fn := range m.Funcs {
		if !m.InDecimalPkg(fn) {
			continue
		}
		live := m.Live(fn)
		byField := map[int][]string{}
		nByField := map[int]int{}
		for _, b := range fn.Blocks {
			if !live[b.Index] {
				continue
			}
			for _, in := range b.Instrs {
				st, ok := in.(*ssa.Store)
				if !ok {
					continue
				}
				fa, ok := m.DecField(st.Addr)
				if !ok {
					continue
				}
				isE := false
				for _, f := range fields {
					if fa.Field == f {
						isE = true
					}
				}
				if !isE {
					continue
				}
				nByField[fa.Field]++
				if ok, why := enumValue(m, fn, st, st.Val, fa.Field, 5); !ok {
					if al, isLocal := fa.X.(*ssa.Alloc); isLocal && enumLocalChecked(m, fn, al, fa.Field) {
						continue // a scratch Decimal: its field is range-checked before the value leaves the function
					}
					byField[fa.Field] = append(byField[fa.Field], m.InstrPos(st)+": "+why)
				}
			}
		}
		for _, f := range fields {
			if nByField[f] == 0 {
				continue
			}
			c := fmt.Sprintf("%s/%s", m.FuncName(fn), m.FieldN[f])
			if len(byField[f]) == 0 {
				s.Ok(R, c, m.Pos(fn.Pos()), fmt.Sprintf("%d store(s), all declared enumerators or checked values", nByField[f]))
			} else {
				s.Bad(R, c, m.Pos(fn.Pos()), byField[f][0], byField[f][1:]...)
			}
		}
	}
}

func enumValue(m *model.Model, fn *ssa.Function, at *ssa.Store, v ssa.Value, field int, depth int) (bool, string) {
	if depth == 0 {
		return false, "too deep"
	}
	ft := m.Decimal.Underlying().(*types.Struct).Field(field).Type()
	switch x := v.(type) {
	case *ssa.Const:
		k, ok := model.ConstInt(x)
		if !ok {
			return false, "non-integer constant"
		}
		for _, c := range enumConsts(m, ft) {
			if c == k {
				return true, ""
			}
		}
		return false, fmt.Sprintf("constant %d is not a declared %s", k, ft)
	case *ssa.UnOp:
		if lf, ok := m.LoadOfDecField(x); ok && lf.Field == field {
			return true, "" // copy of the same field of a Decimal
		}
		// an entry of a package-level table of that type (a form looked up by operand forms):
		// every entry is an enumerator, or a sentinel that a test in front of the store excludes
		if ok, why, isTab := enumTableLookup(m, fn, at, x, ft); isTab {
			return ok, why
		}
	case *ssa.Call:
		if cal := model.Unthunk(x.Call.StaticCallee()); cal != nil && m.InDecimalPkg(cal) && cal.Name() == "makeAcc" {
			return true, ""
		}
	case *ssa.Parameter:
		if types.Identical(x.Type(), ft) {
			return true, "" // the caller's enumerator (contract)
		}
	case *ssa.Phi:
		for _, e := range x.Edges {
			if ok, w := enumValue(m, fn, at, e, field, depth-1); !ok {
				return false, w
			}
		}
		return true, ""
	}
	// a value checked against the largest enumerator on a dominating edge
	all := enumConsts(m, ft)
	if len(all) > 0 {
		max := all[len(all)-1]
		for _, gb := range fn.Blocks {
			if len(gb.Instrs) == 0 {
				continue
			}
			ifi, ok := gb.Instrs[len(gb.Instrs)-1].(*ssa.If)
			if !ok {
				continue
			}
			bo, ok := ifi.Cond.(*ssa.BinOp)
			if !ok || bo.X != v {
				continue
			}
			k, ok := model.ConstInt(bo.Y)
			if !ok {
				continue
			}
			edge := -1
			switch {
			case bo.Op == token.GTR && k == max, bo.Op == token.GEQ && k == max+1:
				edge = 1
			case bo.Op == token.LEQ && k == max, bo.Op == token.LSS && k == max+1:
				edge = 0
			}
			if edge >= 0 && m.EdgeDominates(gb, edge, at.Block()) {
				return true, ""
			}
		}
	}
	return false, fmt.Sprintf("the value stored is not a declared %s, a copy of the field, makeAcc(…), a parameter of that type or a range-checked value", ft)
}

// enumTableLookup: v loads an element of a package-level array/slice variable whose leaf element
// type is ft and which nothing writes. ok if every constant in its initialiser is an enumerator of
// ft, or is excluded at the store by a dominating comparison of v with it.
func enumTableLookup(m *model.Model, fn *ssa.Function, at *ssa.Store, v *ssa.UnOp, ft types.Type) (ok bool, why string, isTable bool) {
	if v.Op != token.MUL {
		return false, "", false
	}
	var g *ssa.Global
	addr := v.X
	for hops := 0; hops < 4; hops++ {
		switch a := addr.(type) {
		case *ssa.IndexAddr:
			addr = a.X
			continue
		case *ssa.Global:
			g = a
		case *ssa.UnOp:
			if gg, ok := a.X.(*ssa.Global); ok {
				g = gg
			}
		}
		break
	}
	if g == nil || !types.Identical(v.Type(), ft) {
		return false, "", false
	}
	// the variable's initialiser
	var lit ast.Expr
	for _, f := range m.SourceFiles() {
		for _, d := range f.Decls {
			gd, ok := d.(*ast.GenDecl)
			if !ok || gd.Tok != token.VAR {
				continue
			}
			for _, sp := range gd.Specs {
				vs := sp.(*ast.ValueSpec)
				for i, nm := range vs.Names {
					if nm.Name == g.Name() && i < len(vs.Values) {
						lit = vs.Values[i]
					}
				}
			}
		}
	}
	if lit == nil {
		return false, "a table without an initialiser", true
	}
	vals := map[int64]bool{}
	nonConst := false
	ast.Inspect(lit, func(n ast.Node) bool {
		e, ok := n.(ast.Expr)
		if !ok {
			return true
		}
		if kv, ok := n.(*ast.KeyValueExpr); ok {
			// keys are indexes
			ast.Inspect(kv.Value, func(n2 ast.Node) bool {
				if e2, ok := n2.(ast.Expr); ok {
					if tv, ok := m.Dec.TypesInfo.Types[e2]; ok && tv.Value != nil && types.Identical(tv.Type, ft) {
						if k, ok := constant.Int64Val(tv.Value); ok {
							vals[k] = true
						}
						return false
					}
				}
				return true
			})
			return false
		}
		if tv, ok := m.Dec.TypesInfo.Types[e]; ok && !tv.IsType() && types.Identical(tv.Type, ft) {
			if tv.Value == nil {
				if _, isLit := e.(*ast.CompositeLit); !isLit {
					nonConst = true
				}
				return true
			}
			if k, ok := constant.Int64Val(tv.Value); ok {
				vals[k] = true
			}
			return false
		}
		return true
	})
	if nonConst || len(vals) == 0 {
		return false, "a table whose entries are not all constants", true
	}
	enum := map[int64]bool{}
	for _, c := range enumConsts(m, ft) {
		enum[c] = true
	}
	for k := range vals {
		if enum[k] {
			continue
		}
		// excluded at the store: an `v == k` test whose false edge dominates it (or != true edge)
		excluded := false
		for _, gb := range fn.Blocks {
			if len(gb.Instrs) == 0 {
				continue
			}
			ifi, ok := gb.Instrs[len(gb.Instrs)-1].(*ssa.If)
			if !ok {
				continue
			}
			bo, ok := ifi.Cond.(*ssa.BinOp)
			if !ok || (bo.Op != token.EQL && bo.Op != token.NEQ) {
				continue
			}
			c, isC := model.ConstInt(bo.Y)
			if !isC || c != k || (stripConv(bo.X) != ssa.Value(v) && !structEq(stripConv(bo.X), v, 4)) {
				continue
			}
			edge := 1
			if bo.Op == token.NEQ {
				edge = 0
			}
			if m.EdgeDominates(gb, edge, at.Block()) {
				excluded = true
			}
		}
		if !excluded {
			return false, fmt.Sprintf("the table %s holds the value %d, which is not an enumerator of %s and is not excluded by a test in front of the store", g.Name(), k, ft), true
		}
	}
	return true, "", true
}

// enumLocalChecked: al is a Decimal local to fn (d := Decimal{...}) that is filled in first and
// validated afterwards: every place where al is handed on whole — copied out (*z = d), passed to
// a call, returned — lies behind an edge on which a load of al's field was found to be at most the
// largest enumerator, and every store into that field (or of the whole value) comes before that
// test. A local that is only copied into another local (the temporary of a composite literal)
// hands the question on to that one.
func enumLocalChecked(m *model.Model, fn *ssa.Function, al *ssa.Alloc, field int) bool {
	return enumLocalCheckedD(m, fn, al, field, 3)
}

func enumLocalCheckedD(m *model.Model, fn *ssa.Function, al *ssa.Alloc, field int, depth int) bool {
	ft := m.Decimal.Underlying().(*types.Struct).Field(field).Type()
	all := enumConsts(m, ft)
	if len(all) == 0 || al.Referrers() == nil || depth == 0 {
		return false
	}
	max := all[len(all)-1]
	var pubs []ssa.Instruction
	var stores []ssa.Instruction
	for _, r := range *al.Referrers() {
		switch x := r.(type) {
		case *ssa.DebugRef:
			continue
		case *ssa.Store:
			if x.Addr == ssa.Value(al) {
				stores = append(stores, x) // the whole value is (re)written
			} else {
				pubs = append(pubs, x)
			}
			continue
		case *ssa.UnOp:
			if x.Op == token.MUL && x.Referrers() != nil {
				for _, u := range *x.Referrers() {
					if st, ok := u.(*ssa.Store); ok && st.Val == ssa.Value(x) {
						if al2, ok := st.Addr.(*ssa.Alloc); ok && al2 != al {
							if !enumLocalCheckedD(m, fn, al2, field, depth-1) {
								return false
							}
							continue
						}
					}
					if _, ok := u.(*ssa.DebugRef); ok {
						continue
					}
					pubs = append(pubs, u)
				}
				continue
			}
			pubs = append(pubs, r)
			continue
		}
		fa, ok := r.(*ssa.FieldAddr)
		if !ok {
			pubs = append(pubs, r)
			continue
		}
		if fa.Referrers() == nil {
			continue
		}
		for _, u := range *fa.Referrers() {
			switch x := u.(type) {
			case *ssa.Store:
				if x.Addr != ssa.Value(fa) {
					pubs = append(pubs, x) // the address of the field is stored somewhere
				} else if fa.Field == field {
					stores = append(stores, x)
				}
			case *ssa.UnOp:
				if x.Op != token.MUL {
					pubs = append(pubs, x)
				}
			case *ssa.DebugRef:
			default:
				pubs = append(pubs, u)
			}
		}
	}
	for _, p := range pubs {
		okP := false
		for _, gb := range fn.Blocks {
			if len(gb.Instrs) == 0 {
				continue
			}
			ifi, ok := gb.Instrs[len(gb.Instrs)-1].(*ssa.If)
			if !ok {
				continue
			}
			bo, ok := ifi.Cond.(*ssa.BinOp)
			if !ok {
				continue
			}
			ld, ok := bo.X.(*ssa.UnOp)
			if !ok || ld.Op != token.MUL {
				continue
			}
			fa, ok := ld.X.(*ssa.FieldAddr)
			if !ok || fa.X != ssa.Value(al) || fa.Field != field {
				continue
			}
			k, ok := model.ConstInt(bo.Y)
			if !ok {
				continue
			}
			edge := -1
			switch {
			case bo.Op == token.GTR && k == max, bo.Op == token.GEQ && k == max+1:
				edge = 1
			case bo.Op == token.LEQ && k == max, bo.Op == token.LSS && k == max+1:
				edge = 0
			}
			if edge < 0 || !m.EdgeDominates(gb, edge, p.Block()) {
				continue
			}
			before := true
			for _, st := range stores {
				if !m.InstrDominates(st, ld) {
					before = false
				}
			}
			if before {
				okP = true
			}
		}
		if !okP {
			return false
		}
	}
	return true
}
