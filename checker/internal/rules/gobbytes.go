package rules

// GOB G6/G7 — the byte-level helpers under GobDecode and GobEncode.
//
// G6 (reader): GobDecode must be safe on any bytes, so in every function it reaches that indexes
// or slices a byte slice, an index or a low bound of the form v - c (c > 0 a constant) sits behind
// a test that establishes v >= c on every path (a loop `for ...; i >= _S; ...` around
// buf[i-_S : i], `i > 0` around buf[i-1]); without it a truncated or extended encoding makes the
// decoder panic with a slice-bounds error instead of returning an error.
//
// G7 (writer): the encoding is positional — word k of the mantissa occupies bytes of fixed
// offsets, which is what the reader assumes — so the position at which a function reached from
// GobEncode stores a byte must not depend on the values of the words being written: the exit
// conditions of the loops that advance the store index may depend on counters and lengths only.

import (
	"fmt"
	"go/token"
	"go/types"

	"golang.org/x/tools/go/ssa"

	"decverif/internal/model"
	"decverif/internal/ob"
)

func reachableFrom(m *model.Model, root *ssa.Function) []*ssa.Function {
	seen := map[*ssa.Function]bool{root: true}
	work := []*ssa.Function{root}
	var out []*ssa.Function
	for len(work) > 0 {
		fn := work[len(work)-1]
		work = work[:len(work)-1]
		out = append(out, fn)
		live := m.Live(fn)
		for _, b := range fn.Blocks {
			if !live[b.Index] {
				continue
			}
			for _, in := range b.Instrs {
				ci, ok := in.(ssa.CallInstruction)
				if !ok {
					continue
				}
				cal := model.Unthunk(ci.Common().StaticCallee())
				if cal == nil || seen[cal] || len(cal.Blocks) == 0 || !m.InDecimalPkg(cal) {
					continue
				}
				seen[cal] = true
				work = append(work, cal)
			}
		}
	}
	return out
}

func isByteSlice(t types.Type) bool {
	sl, ok := t.Underlying().(*types.Slice)
	if !ok {
		return false
	}
	b, ok := sl.Elem().Underlying().(*types.Basic)
	return ok && b.Kind() == types.Uint8
}

// lowerBoundOnEdge: the comparison establishes v >= bound on the returned edge.
func lowerBoundOnEdge(bo *ssa.BinOp, v ssa.Value) (edge int, bound int64, ok bool) {
	x, y, op := bo.X, bo.Y, bo.Op
	if _, isC := x.(*ssa.Const); isC {
		x, y = y, x
		switch op {
		case token.LSS:
			op = token.GTR
		case token.GTR:
			op = token.LSS
		case token.LEQ:
			op = token.GEQ
		case token.GEQ:
			op = token.LEQ
		}
	}
	k, isK := model.ConstInt(y)
	if !isK || stripConv(x) != stripConv(v) {
		return 0, 0, false
	}
	switch op {
	case token.GEQ:
		return 0, k, true
	case token.GTR:
		return 0, k + 1, true
	case token.LSS:
		return 1, k, true
	case token.LEQ:
		return 1, k + 1, true
	}
	return 0, 0, false
}

func runGobBytes(m *model.Model, s *ob.Set) {
	runGobDefined(m, s)
	runGobWholeWord(m, s)
	const R = "GOB"
	dec := m.TryLookup("(*Decimal).GobDecode")
	enc := m.TryLookup("(*Decimal).GobEncode")
	if dec == nil || enc == nil {
		return
	}
	// ---------------- G6
	nsites := 0
	for _, fn := range reachableFrom(m, dec) {
		live := m.Live(fn)
		var bad []string
		n := 0
		for _, b := range fn.Blocks {
			if !live[b.Index] {
				continue
			}
			for _, in := range b.Instrs {
				var idx ssa.Value
				switch x := in.(type) {
				case *ssa.Slice:
					if !isByteSlice(x.X.Type()) || x.Low == nil {
						continue
					}
					idx = x.Low
				case *ssa.IndexAddr:
					if !isByteSlice(x.X.Type()) {
						continue
					}
					idx = x.Index
				default:
					continue
				}
				sub, ok := stripConv(idx).(*ssa.BinOp)
				if !ok || sub.Op != token.SUB {
					continue
				}
				c, ok := model.ConstInt(sub.Y)
				if !ok || c <= 0 {
					continue
				}
				n++
				guarded := false
				for _, gb := range fn.Blocks {
					if !live[gb.Index] || len(gb.Instrs) == 0 {
						continue
					}
					ifi, ok := gb.Instrs[len(gb.Instrs)-1].(*ssa.If)
					if !ok {
						continue
					}
					bo, ok := ifi.Cond.(*ssa.BinOp)
					if !ok {
						continue
					}
					if e, k, ok := lowerBoundOnEdge(bo, sub.X); ok && k >= c && m.EdgeDominates(gb, e, b) {
						guarded = true
					}
				}
				if !guarded && countedDescent(m, fn, stripConv(sub.X), c, b) {
					guarded = true
				}
				if !guarded {
					bad = append(bad, fmt.Sprintf("%s: %s is used as an index/low bound of a byte slice with no dominating test that %s >= %d", m.InstrPos(in), exprKey(m, idx, 3), exprKey(m, sub.X, 3), c))
				}
			}
		}
		if n == 0 {
			continue
		}
		nsites += n
		c := m.FuncName(fn) + "/G6:offset-guard"
		if len(bad) == 0 {
			s.Ok(R, c, m.Pos(fn.Pos()), fmt.Sprintf("%d byte index/low bound(s) of the form v-c, each behind a test v >= c", n))
		} else {
			s.Bad(R, c, m.Pos(fn.Pos()), bad[0]+": GobDecode of a truncated or extended encoding panics (slice bounds out of range) instead of returning an error", bad[1:]...)
		}
	}
	if nsites == 0 {
		s.Note(R, "(*Decimal).GobDecode/G6:offset-guard", m.Pos(dec.Pos()), "no index or bound of the form v-c on a byte slice under GobDecode (nothing to check)")
	}
	// ---------------- G7
	nst := 0
	for _, fn := range reachableFrom(m, enc) {
		live := m.Live(fn)
		var bad []string
		n := 0
		for _, b := range fn.Blocks {
			if !live[b.Index] {
				continue
			}
			for _, in := range b.Instrs {
				st, ok := in.(*ssa.Store)
				if !ok {
					continue
				}
				ia, ok := st.Addr.(*ssa.IndexAddr)
				if !ok || !isByteSlice(ia.X.Type()) {
					continue
				}
				if _, isC := ia.Index.(*ssa.Const); isC {
					continue
				}
				// only stores of bytes that come from mantissa words
				if !dependsOnWordLoad(m, st.Val, 8, map[ssa.Value]bool{}) {
					continue
				}
				n++
				// φs the index depends on, and the loops they head
				web := map[ssa.Value]bool{}
				var walk func(v ssa.Value, d int)
				walk = func(v ssa.Value, d int) {
					if web[v] || d == 0 {
						return
					}
					web[v] = true
					switch x := v.(type) {
					case *ssa.Phi:
						for _, e := range x.Edges {
							walk(e, d-1)
						}
					case *ssa.BinOp:
						walk(x.X, d-1)
						walk(x.Y, d-1)
					case *ssa.Convert:
						walk(x.X, d-1)
					case *ssa.ChangeType:
						walk(x.X, d-1)
					}
				}
				walk(ia.Index, 12)
				for v := range web {
					ph, ok := v.(*ssa.Phi)
					if !ok {
						continue
					}
					h := ph.Block()
					if !blockReaches(h, h) {
						continue
					}
					inLoop := func(x *ssa.BasicBlock) bool {
						return x == h || (m.Dominates(h, x) && blockReaches(x, h))
					}
					for _, lb := range fn.Blocks {
						if !live[lb.Index] || !inLoop(lb) || len(lb.Instrs) == 0 {
							continue
						}
						ifi, ok := lb.Instrs[len(lb.Instrs)-1].(*ssa.If)
						if !ok {
							continue
						}
						exits := false
						for _, sc := range lb.Succs {
							if !inLoop(sc) {
								exits = true
							}
						}
						if exits && dependsOnWordLoad(m, ifi.Cond, 8, map[ssa.Value]bool{}) {
							bad = append(bad, fmt.Sprintf("%s: the loop that advances the byte position of the store at %s ends on a condition that depends on the value of a mantissa word", m.InstrPos(ifi), m.InstrPos(st)))
						}
					}
				}
			}
		}
		if n == 0 {
			continue
		}
		nst += n
		c := m.FuncName(fn) + "/G7:positional"
		if len(bad) == 0 {
			s.Ok(R, c, m.Pos(fn.Pos()), fmt.Sprintf("%d store(s) of mantissa bytes at positions that depend on counters and lengths only", n))
		} else {
			s.Bad(R, c, m.Pos(fn.Pos()), bad[0]+": a word with zero high bytes shifts every more significant word to the wrong offset and the encoding does not decode to the same value")
		}
	}
	if nst == 0 {
		s.Note(R, "(*Decimal).GobEncode/G7:positional", m.Pos(enc.Pos()), "no loop-indexed store of mantissa bytes under GobEncode (written some other way; not decided)")
	}
}

// dependsOnWordLoad: the value is computed (through arithmetic, conversions and φs) from an
// element of a mantissa word slice.
func dependsOnWordLoad(m *model.Model, v ssa.Value, depth int, seen map[ssa.Value]bool) bool {
	if depth == 0 || seen[v] {
		return false
	}
	seen[v] = true
	switch x := v.(type) {
	case *ssa.UnOp:
		if x.Op == token.MUL {
			if ia, ok := x.X.(*ssa.IndexAddr); ok && m.IsWordSlice(ia.X.Type()) {
				return true
			}
			return false
		}
		return dependsOnWordLoad(m, x.X, depth-1, seen)
	case *ssa.BinOp:
		return dependsOnWordLoad(m, x.X, depth-1, seen) || dependsOnWordLoad(m, x.Y, depth-1, seen)
	case *ssa.Convert:
		return dependsOnWordLoad(m, x.X, depth-1, seen)
	case *ssa.ChangeType:
		return dependsOnWordLoad(m, x.X, depth-1, seen)
	case *ssa.Phi:
		for _, e := range x.Edges {
			if dependsOnWordLoad(m, e, depth-1, seen) {
				return true
			}
		}
	case *ssa.Extract:
		return dependsOnWordLoad(m, x.Tuple, depth-1, seen)
	case *ssa.Next:
		// range over a word slice (for _, d := range x)
		if r, ok := x.Iter.(*ssa.Range); ok && m.IsWordSlice(r.X.Type()) {
			return true
		}
	}
	return false
}

// GOB G8 — every return of GobDecode that reports success has defined the receiver's value: form
// and sign are written (field by field, by a whole-value store `*z = Decimal{}`, or by a method of
// z that defines them on all its returns) on every path to it. The empty encoding (a nil or
// default value on the other side) is the value 0, not "whatever z held before".
func runGobDefined(m *model.Model, s *ob.Set) {
	const R = "GOB"
	fn := m.TryLookup("(*Decimal).GobDecode")
	if fn == nil || len(fn.Params) < 2 {
		return
	}
	z := ssa.Value(fn.Params[0])
	live := m.Live(fn)
	e := newRBW(m)
	need := uint(1<<uint(m.F.Form) | 1<<uint(m.F.Neg))
	n := len(fn.Blocks)
	in := make([]int, n) // -1 unreached, else the set of fields defined on every path
	for i := range in {
		in[i] = -1
	}
	in[0] = 0
	step := func(b *ssa.BasicBlock, st int, rec func(*ssa.Return, int)) int {
		for _, ins := range b.Instrs {
			switch x := ins.(type) {
			case *ssa.Store:
				if x.Addr == z {
					st |= int(need)
				} else if fa, ok := x.Addr.(*ssa.FieldAddr); ok && fa.X == z {
					st |= 1 << uint(fa.Field)
				}
			case *ssa.Call:
				cal := model.Unthunk(x.Call.StaticCallee())
				if cal != nil && len(x.Call.Args) > 0 && x.Call.Args[0] == z && m.IsDecMethod(cal) {
					if sm := e.sums[cal]; sm != nil && sm[0] != nil {
						st |= int(sm[0].mustDef)
					}
				}
			case *ssa.Return:
				if rec != nil {
					rec(x, st)
				}
			}
		}
		return st
	}
	work := []int{0}
	for len(work) > 0 {
		bi := work[len(work)-1]
		work = work[:len(work)-1]
		if !live[bi] {
			continue
		}
		out := step(fn.Blocks[bi], in[bi], nil)
		for _, ed := range model.LiveSuccs(fn.Blocks[bi]) {
			t := ed.To.Index
			nv := out
			if in[t] >= 0 {
				nv = in[t] & out
			}
			if nv != in[t] {
				in[t] = nv
				work = append(work, t)
			}
		}
	}
	bad := ""
	nret := 0
	for bi, b := range fn.Blocks {
		if in[bi] < 0 || !live[bi] {
			continue
		}
		step(b, in[bi], func(r *ssa.Return, st int) {
			if len(r.Results) != 1 {
				return
			}
			if c, ok := r.Results[0].(*ssa.Const); !ok || !c.IsNil() {
				return
			}
			nret++
			if uint(st)&need != need && bad == "" {
				bad = m.InstrPos(r) + ": success is reported on a path that has not defined the receiver's form and sign: the receiver keeps the value it had (an empty encoding stands for the value 0)"
			}
		})
	}
	if nret > 0 {
		s.Check(bad == "", R, "(*Decimal).GobDecode/G8-defined", m.Pos(fn.Pos()), fmt.Sprintf("%d successful return(s), form and sign defined on every path to each", nret), bad)
	}
}

// countedDescent: v is an offset that starts at len(buf) and goes down by c per round of a loop
// whose rounds are counted by k = 0, 1, … while k < len(buf)/c: inside the loop v = len(buf) − c·k
// with k ≤ len(buf)/c − 1, hence v ≥ c.
func countedDescent(m *model.Model, fn *ssa.Function, v ssa.Value, c int64, site *ssa.BasicBlock) bool {
	end, ok := v.(*ssa.Phi)
	if !ok || len(end.Edges) != 2 {
		return false
	}
	hb := end.Block()
	var lenCall *ssa.Call
	okStep := false
	for i, e := range end.Edges {
		e = stripConv(e)
		if m.Dominates(hb, hb.Preds[i]) { // back edge
			if sb, ok := e.(*ssa.BinOp); ok && sb.Op == token.SUB && stripConv(sb.X) == ssa.Value(end) {
				if k, ok := model.ConstInt(sb.Y); ok && k == c {
					okStep = true
				}
			}
		} else if lc, ok := e.(*ssa.Call); ok && model.BuiltinName(&lc.Call) == "len" {
			lenCall = lc
		}
	}
	if !okStep || lenCall == nil || len(hb.Instrs) == 0 {
		return false
	}
	ifi, ok := hb.Instrs[len(hb.Instrs)-1].(*ssa.If)
	if !ok {
		return false
	}
	bo, ok := ifi.Cond.(*ssa.BinOp)
	if !ok || bo.Op != token.LSS {
		return false
	}
	k, ok := stripConv(bo.X).(*ssa.Phi)
	if !ok || k.Block() != hb || len(k.Edges) != 2 {
		return false
	}
	okCount := true
	for i, e := range k.Edges {
		e = stripConv(e)
		if m.Dominates(hb, hb.Preds[i]) {
			ad, ok := e.(*ssa.BinOp)
			if !ok || ad.Op != token.ADD || stripConv(ad.X) != ssa.Value(k) {
				okCount = false
			} else if one, ok := model.ConstInt(ad.Y); !ok || one != 1 {
				okCount = false
			}
		} else if z, ok := model.ConstInt(e); !ok || z != 0 {
			okCount = false
		}
	}
	if !okCount {
		return false
	}
	// the bound: len(same slice) / c
	q, ok := stripConv(bo.Y).(*ssa.BinOp)
	if !ok || q.Op != token.QUO {
		return false
	}
	if d, ok := model.ConstInt(q.Y); !ok || d != c {
		return false
	}
	lc2, ok := stripConv(q.X).(*ssa.Call)
	if !ok || model.BuiltinName(&lc2.Call) != "len" || stripConvAny(lc2.Call.Args[0]) != stripConvAny(lenCall.Call.Args[0]) {
		return false
	}
	return m.EdgeDominates(hb, 0, site)
}

// GOB G10 — a fixed-width read gets a whole word. A helper that hands its byte-slice parameter to
// encoding/binary's Uint64/Uint32/Uint16 (bigEndianWord) panics on a shorter slice; its callers
// pass s[v-c : v] with c at least the width. A call with s[:v] (or s[lo:v]) behind an edge that
// established v < width is a read of a partial word with the whole-word reader: a truncated or
// padded encoding then panics instead of being decoded or rejected.
func runGobWholeWord(m *model.Model, s *ob.Set) {
	const R = "GOB"
	type reader struct {
		fn    *ssa.Function
		k     int
		width int64
	}
	widthOf := func(c *ssa.CallCommon) int64 {
		cal := c.StaticCallee()
		if cal == nil || cal.Pkg == nil || cal.Pkg.Pkg.Path() != "encoding/binary" {
			return 0
		}
		switch cal.Name() {
		case "Uint64":
			return 8
		case "Uint32":
			return 4
		case "Uint16":
			return 2
		}
		return 0
	}
	var readers []reader
	for _, fn := range m.Funcs {
		if !m.InDecimalPkg(fn) || len(fn.Blocks) == 0 || fn.Synthetic != "" {
			continue
		}
		live := m.Live(fn)
		for _, b := range fn.Blocks {
			if !live[b.Index] {
				continue
			}
			for _, in := range b.Instrs {
				c, ok := in.(*ssa.Call)
				if !ok {
					continue
				}
				w := widthOf(&c.Call)
				if w == 0 || len(c.Call.Args) == 0 {
					continue
				}
				if p, ok := c.Call.Args[len(c.Call.Args)-1].(*ssa.Parameter); ok {
					for k, q := range fn.Params {
						if q == p {
							dup := false
							for i := range readers {
								if readers[i].fn == fn && readers[i].k == k {
									dup = true
									if w > readers[i].width {
										readers[i].width = w
									}
								}
							}
							if !dup {
								readers = append(readers, reader{fn, k, w})
							}
						}
					}
				}
			}
		}
	}
	n := 0
	for _, rd := range readers {
		for _, fn := range m.Funcs {
			if !m.InDecimalPkg(fn) || len(fn.Blocks) == 0 || fn.Synthetic != "" {
				continue
			}
			live := m.Live(fn)
			k := 0
			for _, b := range fn.Blocks {
				if !live[b.Index] {
					continue
				}
				for _, in := range b.Instrs {
					cal, c := model.Callee(in)
					if cal != rd.fn || rd.k >= len(c.Args) {
						continue
					}
					n++
					k++
					cn := fmt.Sprintf("%s/G10:whole-word#%d", m.FuncName(fn), k)
					sl, ok := c.Args[rd.k].(*ssa.Slice)
					if !ok || sl.High == nil {
						s.Note(R, cn, m.InstrPos(in), fmt.Sprintf("the slice handed to %s is not of the form s[lo:hi] (length not decided)", rd.fn.Name()))
						continue
					}
					// hi - lo as a constant
					if sl.Low != nil {
						if bo, ok := sl.Low.(*ssa.BinOp); ok && bo.Op == token.SUB && bo.X == sl.High {
							if kc, ok := model.ConstInt(bo.Y); ok {
								s.Check(kc >= rd.width, R, cn, m.InstrPos(in), fmt.Sprintf("%s reads %d bytes from a slice of %d", rd.fn.Name(), rd.width, kc), fmt.Sprintf("%s reads %d bytes; the slice it is handed holds %d", rd.fn.Name(), rd.width, kc))
								continue
							}
						}
						if bo, ok := sl.High.(*ssa.BinOp); ok && bo.Op == token.ADD && bo.X == sl.Low {
							if kc, ok := model.ConstInt(bo.Y); ok {
								s.Check(kc >= rd.width, R, cn, m.InstrPos(in), fmt.Sprintf("%s reads %d bytes from a slice of %d", rd.fn.Name(), rd.width, kc), fmt.Sprintf("%s reads %d bytes; the slice it is handed holds %d", rd.fn.Name(), rd.width, kc))
								continue
							}
						}
					}
					// s[:v] / s[lo:v] with v known to be below the width on the way here
					short := false
					for _, gb := range fn.Blocks {
						if len(gb.Instrs) == 0 {
							continue
						}
						ifi, ok := gb.Instrs[len(gb.Instrs)-1].(*ssa.If)
						if !ok {
							continue
						}
						bo, ok := ifi.Cond.(*ssa.BinOp)
						if !ok || bo.X != sl.High {
							continue
						}
						kc, ok := model.ConstInt(bo.Y)
						if !ok {
							continue
						}
						for si := 0; si < 2; si++ {
							op := bo.Op
							if si == 1 {
								op = negOp[op]
							}
							if (op == token.LSS && kc <= rd.width || op == token.LEQ && kc < rd.width) && m.EdgeDominates(gb, si, b) {
								short = true
							}
						}
					}
					if short {
						s.Bad(R, cn, m.InstrPos(in), fmt.Sprintf("%s reads %d bytes, and is handed a slice that ends at an index the path has found to be below %d: the partial leading word of an encoding whose length is not a multiple of the word size makes it panic", rd.fn.Name(), rd.width, rd.width))
					} else {
						s.Note(R, cn, m.InstrPos(in), fmt.Sprintf("the length of the slice handed to %s is not a constant difference (not decided)", rd.fn.Name()))
					}
				}
			}
		}
	}
	if len(readers) == 0 || n == 0 {
		s.Note(R, "G10:whole-word", "-", "no helper that hands its parameter to a fixed-width read (not decided)")
	}
}
