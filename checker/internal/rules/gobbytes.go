package rules

// GOB G6/G7 — the byte-level helpers under GobDecode and GobEncode.
//
// G6 (reader): GobDecode must be safe on any bytes, so in every function it reaches that indexes
// or slices a byte slice, an index or a low bound of the form v - c (c > 0 a constant) sits behind
// a test that establishes v >= c on every path (a loop `for ...; i >= _S; ...` around
// buf[i-_S : i], `i > 0` around buf[i-1]); without it a truncated or extended encoding makes the
// decoder panic with a slice-bounds error instead of returning an error.
//
// G7 (writer): the encoding is positional — word k of the mantissa occupies bytes of fixed
// offsets, which is what the reader assumes — so the position at which a function reached from
// GobEncode stores a byte must not depend on the values of the words being written: the exit
// conditions of the loops that advance the store index may depend on counters and lengths only.

import (
	"fmt"
	"go/token"
	"go/types"

	"golang.org/x/tools/go/ssa"

	"decverif/internal/model"
	"decverif/internal/ob"
)

func reachableFrom(m *model.Model, root *ssa.Function) []*ssa.Function {
	seen := map[*ssa.Function]bool{root: true}
	work := []*ssa.Function{root}
	var out []*ssa.Function
	for len(work) > 0 {
		fn := work[len(work)-1]
		work = work[:len(work)-1]
		out = append(out, fn)
		live := m.Live(fn)
		for _, b := range fn.Blocks {
			if !live[b.Index] {
				continue
			}
			for _, in := range b.Instrs {
				ci, ok := in.(ssa.CallInstruction)
				if !ok {
					continue
				}
				cal := ci.Common().StaticCallee()
				if cal == nil || seen[cal] || len(cal.Blocks) == 0 || !m.InDecimalPkg(cal) {
					continue
				}
				seen[cal] = true
				work = append(work, cal)
			}
		}
	}
	return out
}

func isByteSlice(t types.Type) bool {
	sl, ok := t.Underlying().(*types.Slice)
	if !ok {
		return false
	}
	b, ok := sl.Elem().Underlying().(*types.Basic)
	return ok && b.Kind() == types.Uint8
}

// lowerBoundOnEdge: the comparison establishes v >= bound on the returned edge.
func lowerBoundOnEdge(bo *ssa.BinOp, v ssa.Value) (edge int, bound int64, ok bool) {
	x, y, op := bo.X, bo.Y, bo.Op
	if _, isC := x.(*ssa.Const); isC {
		x, y = y, x
		switch op {
		case token.LSS:
			op = token.GTR
		case token.GTR:
			op = token.LSS
		case token.LEQ:
			op = token.GEQ
		case token.GEQ:
			op = token.LEQ
		}
	}
	k, isK := model.ConstInt(y)
	if !isK || stripConv(x) != stripConv(v) {
		return 0, 0, false
	}
	switch op {
	case token.GEQ:
		return 0, k, true
	case token.GTR:
		return 0, k + 1, true
	case token.LSS:
		return 1, k, true
	case token.LEQ:
		return 1, k + 1, true
	}
	return 0, 0, false
}

func runGobBytes(m *model.Model, s *ob.Set) {
	const R = "GOB"
	dec := m.TryLookup("(*Decimal).GobDecode")
	enc := m.TryLookup("(*Decimal).GobEncode")
	if dec == nil || enc == nil {
		return
	}
	// ---------------- G6
	nsites := 0
	for _, fn := range reachableFrom(m, dec) {
		live := m.Live(fn)
		var bad []string
		n := 0
		for _, b := range fn.Blocks {
			if !live[b.Index] {
				continue
			}
			for _, in := range b.Instrs {
				var idx ssa.Value
				switch x := in.(type) {
				case *ssa.Slice:
					if !isByteSlice(x.X.Type()) || x.Low == nil {
						continue
					}
					idx = x.Low
				case *ssa.IndexAddr:
					if !isByteSlice(x.X.Type()) {
						continue
					}
					idx = x.Index
				default:
					continue
				}
				sub, ok := stripConv(idx).(*ssa.BinOp)
				if !ok || sub.Op != token.SUB {
					continue
				}
				c, ok := model.ConstInt(sub.Y)
				if !ok || c <= 0 {
					continue
				}
				n++
				guarded := false
				for _, gb := range fn.Blocks {
					if !live[gb.Index] || len(gb.Instrs) == 0 {
						continue
					}
					ifi, ok := gb.Instrs[len(gb.Instrs)-1].(*ssa.If)
					if !ok {
						continue
					}
					bo, ok := ifi.Cond.(*ssa.BinOp)
					if !ok {
						continue
					}
					if e, k, ok := lowerBoundOnEdge(bo, sub.X); ok && k >= c && m.EdgeDominates(gb, e, b) {
						guarded = true
					}
				}
				if !guarded {
					bad = append(bad, fmt.Sprintf("%s: %s is used as an index/low bound of a byte slice with no dominating test that %s >= %d", m.InstrPos(in), exprKey(m, idx, 3), exprKey(m, sub.X, 3), c))
				}
			}
		}
		if n == 0 {
			continue
		}
		nsites += n
		c := m.FuncName(fn) + "/G6:offset-guard"
		if len(bad) == 0 {
			s.Ok(R, c, m.Pos(fn.Pos()), fmt.Sprintf("%d byte index/low bound(s) of the form v-c, each behind a test v >= c", n))
		} else {
			s.Bad(R, c, m.Pos(fn.Pos()), bad[0]+": GobDecode of a truncated or extended encoding panics (slice bounds out of range) instead of returning an error", bad[1:]...)
		}
	}
	if nsites == 0 {
		s.Note(R, "(*Decimal).GobDecode/G6:offset-guard", m.Pos(dec.Pos()), "no index or bound of the form v-c on a byte slice under GobDecode (nothing to check)")
	}
	// ---------------- G7
	nst := 0
	for _, fn := range reachableFrom(m, enc) {
		live := m.Live(fn)
		var bad []string
		n := 0
		for _, b := range fn.Blocks {
			if !live[b.Index] {
				continue
			}
			for _, in := range b.Instrs {
				st, ok := in.(*ssa.Store)
				if !ok {
					continue
				}
				ia, ok := st.Addr.(*ssa.IndexAddr)
				if !ok || !isByteSlice(ia.X.Type()) {
					continue
				}
				if _, isC := ia.Index.(*ssa.Const); isC {
					continue
				}
				// only stores of bytes that come from mantissa words
				if !dependsOnWordLoad(m, st.Val, 8, map[ssa.Value]bool{}) {
					continue
				}
				n++
				// φs the index depends on, and the loops they head
				web := map[ssa.Value]bool{}
				var walk func(v ssa.Value, d int)
				walk = func(v ssa.Value, d int) {
					if web[v] || d == 0 {
						return
					}
					web[v] = true
					switch x := v.(type) {
					case *ssa.Phi:
						for _, e := range x.Edges {
							walk(e, d-1)
						}
					case *ssa.BinOp:
						walk(x.X, d-1)
						walk(x.Y, d-1)
					case *ssa.Convert:
						walk(x.X, d-1)
					case *ssa.ChangeType:
						walk(x.X, d-1)
					}
				}
				walk(ia.Index, 12)
				for v := range web {
					ph, ok := v.(*ssa.Phi)
					if !ok {
						continue
					}
					h := ph.Block()
					if !blockReaches(h, h) {
						continue
					}
					inLoop := func(x *ssa.BasicBlock) bool {
						return x == h || (m.Dominates(h, x) && blockReaches(x, h))
					}
					for _, lb := range fn.Blocks {
						if !live[lb.Index] || !inLoop(lb) || len(lb.Instrs) == 0 {
							continue
						}
						ifi, ok := lb.Instrs[len(lb.Instrs)-1].(*ssa.If)
						if !ok {
							continue
						}
						exits := false
						for _, sc := range lb.Succs {
							if !inLoop(sc) {
								exits = true
							}
						}
						if exits && dependsOnWordLoad(m, ifi.Cond, 8, map[ssa.Value]bool{}) {
							bad = append(bad, fmt.Sprintf("%s: the loop that advances the byte position of the store at %s ends on a condition that depends on the value of a mantissa word", m.InstrPos(ifi), m.InstrPos(st)))
						}
					}
				}
			}
		}
		if n == 0 {
			continue
		}
		nst += n
		c := m.FuncName(fn) + "/G7:positional"
		if len(bad) == 0 {
			s.Ok(R, c, m.Pos(fn.Pos()), fmt.Sprintf("%d store(s) of mantissa bytes at positions that depend on counters and lengths only", n))
		} else {
			s.Bad(R, c, m.Pos(fn.Pos()), bad[0]+": a word with zero high bytes shifts every more significant word to the wrong offset and the encoding does not decode to the same value")
		}
	}
	if nst == 0 {
		s.Note(R, "(*Decimal).GobEncode/G7:positional", m.Pos(enc.Pos()), "no loop-indexed store of mantissa bytes under GobEncode (written some other way; not decided)")
	}
}

// dependsOnWordLoad: the value is computed (through arithmetic, conversions and φs) from an
// element of a mantissa word slice.
func dependsOnWordLoad(m *model.Model, v ssa.Value, depth int, seen map[ssa.Value]bool) bool {
	if depth == 0 || seen[v] {
		return false
	}
	seen[v] = true
	switch x := v.(type) {
	case *ssa.UnOp:
		if x.Op == token.MUL {
			if ia, ok := x.X.(*ssa.IndexAddr); ok && m.IsWordSlice(ia.X.Type()) {
				return true
			}
			return false
		}
		return dependsOnWordLoad(m, x.X, depth-1, seen)
	case *ssa.BinOp:
		return dependsOnWordLoad(m, x.X, depth-1, seen) || dependsOnWordLoad(m, x.Y, depth-1, seen)
	case *ssa.Convert:
		return dependsOnWordLoad(m, x.X, depth-1, seen)
	case *ssa.ChangeType:
		return dependsOnWordLoad(m, x.X, depth-1, seen)
	case *ssa.Phi:
		for _, e := range x.Edges {
			if dependsOnWordLoad(m, e, depth-1, seen) {
				return true
			}
		}
	case *ssa.Extract:
		return dependsOnWordLoad(m, x.Tuple, depth-1, seen)
	case *ssa.Next:
		// range over a word slice (for _, d := range x)
		if r, ok := x.Iter.(*ssa.Range); ok && m.IsWordSlice(r.X.Type()) {
			return true
		}
	}
	return false
}
