package rules

// E1 — FX-IMMUT, FX-OWN, FX-GLOBAL, FX-DEP: who may write what.

import (
	"fmt"
	"go/ast"
	"go/token"
	"go/types"
	"sort"
	"strings"

	"golang.org/x/tools/go/ssa"

	"decverif/internal/model"
	"decverif/internal/ob"
)

func init() {
	Register(&Rule{Name: "FX-IMMUT", Floor: 60, Run: runFxImmut,
		Doc: "no function writes a field of, or a mantissa word rooted at, a *Decimal parameter other than its result parameter; no dec-layer function writes elements of a source slice"})
	Register(&Rule{Name: "FX-OWN", Floor: 12, Run: runFxOwn,
		Doc: "every value stored into a Decimal's mant field is backed by that Decimal's own array or fresh memory; exported functions do not hand out a parameter's mantissa"})
	Register(&Rule{Name: "FX-GLOBAL", Floor: 8, Run: runFxGlobal,
		Doc: "no store to package-level state outside init; shared package-level Decimals are only ever operands"})
	Register(&Rule{Name: "FX-DEP", Floor: 3, Run: runFxDep,
		Doc: "the comparison family writes nothing and reads no precision, mode or accuracy"})
}

// resultParam returns the index of the *Decimal parameter that denotes the result of fn
// (-1 if none): the parameter named z; plus the documented out-parameter of MantExp.
func resultParams(m *model.Model, fn *ssa.Function) map[int]string {
	out := map[int]string{}
	for i, p := range fn.Params {
		if !m.IsDecPtr(p.Type()) {
			continue
		}
		if p.Name() == "z" {
			out[i] = "result parameter z"
		}
	}
	switch m.FuncName(fn) {
	case "(*Decimal).MantExp":
		out[1] = "documented out-parameter mant"
	case "validateTernaryOperands", "validateBinaryOperands":
	}
	return out
}

// fieldWriteNames lists the fields fn may write on parameter k.
func fieldWriteNames(m *model.Model, fn *ssa.Function, k int) []string {
	var fs []string
	for f, ss := range m.StoreSets(fn, k) {
		if ss.Top || len(ss.Consts) > 0 || ss.Plain {
			fs = append(fs, m.FieldN[f])
		}
	}
	sort.Strings(fs)
	return fs
}

// slice parameters that a dec-layer function may overwrite besides its first one
// (construct -> parameter index -> reason). Frozen from reading the doc comments.
var storageParams = map[string]map[int]string{
	"dec.divLarge":          {1: "u is storage for the remainder"},
	"dec.div":               {1: "z2 is storage for the remainder"},
	"dec.divBasic":          {1: "documented: the remainder overwrites input u"},
	"dec.divRecursive":      {1: "documented: the remainder overwrites input u"},
	"dec.divRecursiveStep":  {1: "documented: the remainder overwrites u"},
	"(*Decimal).SetBitsExp": {1: "documented: normalises the caller's slice, which becomes z's mantissa"},
}

func runFxImmut(m *model.Model, s *ob.Set) {
	const R = "FX-IMMUT"
	for _, fn := range m.Funcs {
		name := m.FuncName(fn)
		res := resultParams(m, fn)
		ew := m.ElemWrites(fn)
		for k, p := range fn.Params {
			switch {
			case m.IsDecPtr(p.Type()):
				if _, ok := res[k]; ok {
					continue
				}
				c := fmt.Sprintf("%s/%s", name, p.Name())
				fs := fieldWriteNames(m, fn, k)
				elem := ew[fmt.Sprintf("P%d.mant", k)]
				if len(fs) == 0 && !elem {
					s.Ok(R, c, m.Pos(fn.Pos()), "operand never written")
					continue
				}
				d := fmt.Sprintf("operand %s may be modified: fields %v", p.Name(), fs)
				if elem {
					d += "; mantissa words"
				}
				if !m.IsExported(fn) && fn.Parent() == nil && decOperandFreshAtCallers(m, fn, k, 2) {
					// an unexported helper that is handed a scratch Decimal: what it writes is charged
					// to its callers through the effect summaries (a caller passing one of its own
					// operands is reported there), and every call site passes a fresh object
					s.Note(R, c, m.Pos(fn.Pos()), fmt.Sprintf("internal helper writes parameter %s; every call site passes a Decimal allocated by the caller (decided at the callers)", p.Name()))
					continue
				}
				s.Bad(R, c, m.Pos(fn.Pos()), d, whereWritten(m, fn, k)...)
			case m.IsWordSlice(p.Type()) && m.InDecimalPkg(fn) && fn.Parent() == nil:
				// source slices of dec-layer functions and kernels: everything but the destination
				isDest := k == 0
				if reason, ok := storageParams[name][k]; ok {
					s.Note(R, fmt.Sprintf("%s/%s", name, p.Name()), m.Pos(fn.Pos()), "storage parameter: "+reason)
					continue
				}
				if isDest {
					continue
				}
				c := fmt.Sprintf("%s/%s", name, p.Name())
				if ew[fmt.Sprintf("P%d", k)] {
					if fn.Signature.Recv() == nil && !m.IsVectorKernel(fn) && !carryKernels[fn.Name()] && !ast.IsExported(fn.Name()) && immutAtCallers(m, fn, k) {
						// an unexported plain helper has no fixed destination/source convention: what it
						// writes is charged to its callers through the effect summaries, and every call
						// site hands it a buffer the caller itself may write
						s.Note(R, c, m.Pos(fn.Pos()), fmt.Sprintf("internal helper writes parameter %s; every call site passes a buffer its caller may write (decided at the callers)", p.Name()))
						continue
					}
					s.Bad(R, c, m.Pos(fn.Pos()), fmt.Sprintf("source slice %s may have elements written", p.Name()))
				} else {
					s.Ok(R, c, m.Pos(fn.Pos()), "source slice never written")
				}
			}
		}
	}
}

// whereWritten lists the direct stores / calls in fn through which parameter k is written.
func whereWritten(m *model.Model, fn *ssa.Function, k int) []string {
	var out []string
	live := m.Live(fn)
	for _, b := range fn.Blocks {
		if !live[b.Index] {
			continue
		}
		for _, in := range b.Instrs {
			switch in := in.(type) {
			case *ssa.Store:
				if fa, ok := m.DecField(in.Addr); ok && m.RefOf(fa.X).MayBeParam(k) {
					out = append(out, fmt.Sprintf("%s: store to .%s", m.InstrPos(in), m.FieldN[fa.Field]))
				}
			case ssa.CallInstruction:
				cal, c := model.Callee(in)
				if cal == nil {
					continue
				}
				for ai, a := range c.Args {
					if m.IsDecPtr(a.Type()) && m.RefOf(a).MayBeParam(k) && (len(fieldWriteNames(m, cal, ai)) > 0 || m.ElemWrites(cal)[fmt.Sprintf("P%d.mant", ai)]) {
						out = append(out, fmt.Sprintf("%s: passed to %s, which writes it", m.InstrPos(in), m.FuncName(cal)))
					}
				}
			}
		}
	}
	if len(out) > 6 {
		out = out[:6]
	}
	return out
}

func runFxOwn(m *model.Model, s *ob.Set) {
	const R = "FX-OWN"
	share := map[string]string{
		"(*Decimal).SetBitsExp": "documented: the result and mant share the same underlying array",
		"(*Decimal).BitsExp":    "documented: the result and x share the same underlying array",
	}
	for _, fn := range m.Funcs {
		if !m.InDecimalPkg(fn) {
			continue
		}
		name := m.FuncName(fn)
		live := m.Live(fn)
		n, nw := 0, 0
		for _, b := range fn.Blocks {
			if !live[b.Index] {
				continue
			}
			for _, in := range b.Instrs {
				st, ok := in.(*ssa.Store)
				if !ok {
					continue
				}
				// a whole Decimal copied over another one (*dst = *src): the two then share one mantissa
				// array. Definite only when both are distinct parameters of an exported function.
				if ld, isLoad := st.Val.(*ssa.UnOp); isLoad && ld.Op == token.MUL && m.IsDecPtr(st.Addr.Type()) && m.IsDecPtr(ld.X.Type()) {
					if !m.IsExported(fn) {
						continue // an unexported helper may be handed a caller's scratch Decimal: not decided here
					}
					di, dok := m.RefOf(st.Addr).IsSingleParam()
					si, sok := m.RefOf(ld.X).IsSingleParam()
					if dok && sok {
						nw++
						s.Check(di == si, R, fmt.Sprintf("%s/struct-copy#%d", name, nw), m.InstrPos(st), "a Decimal copied onto itself", fmt.Sprintf("the whole struct of parameter %d is copied over parameter %d: the two Decimals share one mantissa array from then on (Copy/Set allocate a new one)", si, di))
					}
					continue
				}
				fa, ok := m.DecField(st.Addr)
				if !ok || fa.Field != m.F.Mant {
					continue
				}
				n++
				owner := m.RefOf(fa.X)
				roots := m.RootsOf(st.Val)
				okRoot := func(l string) bool {
					switch l {
					case "fresh", "nil", "ext":
						return true
					case "new.mant":
						return owner.Fresh && owner.Params == 0
					}
					if strings.HasPrefix(l, "P") && strings.HasSuffix(l, ".mant") {
						var k int
						fmt.Sscanf(l, "P%d", &k)
						if owner.OnlyParam(k) || (owner.MayBeParam(k) && !owner.Global && !owner.Unknown) {
							return true
						}
						// a scratch Decimal of this function that is only ever copied back, whole, into
						// that same parameter (d := Decimal{mant: z.mant, ...}; ...; *z = d)
						if al, isLocal := fa.X.(*ssa.Alloc); isLocal && localOnlyFlowsTo(m, al, k, 3) {
							return true
						}
						return false
					}
					return false
				}
				c := fmt.Sprintf("%s/mant-store#%d", name, n)
				if roots.SubsetOf(okRoot) {
					s.Ok(R, c, m.InstrPos(st), "roots "+roots.String())
				} else if selfDerivedMant(m, st.Val, fa.X) {
					// o.mant = f(o.mant, ...) for one and the same SSA object o (possibly a φ of the
					// receiver and a fresh Decimal): whichever object o is, it gets its own array back
					s.Ok(R, c, m.InstrPos(st), "derived from the mantissa of the very object it is stored into; roots "+roots.String())
				} else if why, ok := share[name]; ok {
					s.Note(R, c, m.InstrPos(st), "tabled sharing: "+why+"; roots "+roots.String())
				} else {
					s.Bad(R, c, m.InstrPos(st), fmt.Sprintf("a mantissa is assigned a slice backed by %s: two Decimals (or a Decimal and a scratch buffer) would share one array", roots))
				}
			}
		}
		// exported functions must not return a parameter's mantissa
		if m.IsExported(fn) {
			for i := 0; i < fn.Signature.Results().Len(); i++ {
				if !m.IsWordSlice(fn.Signature.Results().At(i).Type()) {
					continue
				}
				rr := m.RetRoots(fn, i)
				bad := false
				for l := range rr {
					if strings.HasSuffix(l, ".mant") || l == "pool" || strings.HasPrefix(l, "global:") {
						bad = true
					}
				}
				c := fmt.Sprintf("%s/result#%d", name, i)
				switch {
				case !bad:
					s.Ok(R, c, m.Pos(fn.Pos()), "roots "+rr.String())
				case share[name] != "":
					s.Note(R, c, m.Pos(fn.Pos()), "tabled sharing: "+share[name])
				default:
					s.Bad(R, c, m.Pos(fn.Pos()), "exported function returns a slice backed by "+rr.String())
				}
			}
		}
	}
}

func runFxGlobal(m *model.Model, s *ob.Set) {
	const R = "FX-GLOBAL"
	allowedVia := map[string]string{"decPool": "sync.Pool synchronises its own state"}
	// (1) stores to or through package-level variables
	rooted := func(v ssa.Value) *ssa.Global {
		for i := 0; i < 8; i++ {
			switch x := v.(type) {
			case *ssa.Global:
				return x
			case *ssa.FieldAddr:
				v = x.X
			case *ssa.IndexAddr:
				v = x.X
			case *ssa.UnOp:
				if x.Op == token.MUL {
					v = x.X
				} else {
					return nil
				}
			case *ssa.Slice:
				v = x.X
			case *ssa.ChangeType:
				v = x.X
			default:
				return nil
			}
		}
		return nil
	}
	globals := map[string]*ssa.Global{}
	for _, p := range []*ssa.Package{m.SDec, m.SCtx} {
		for _, mem := range p.Members {
			if g, ok := mem.(*ssa.Global); ok && !strings.HasPrefix(g.Name(), "init$") {
				if strings.HasSuffix(m.Fset.Position(g.Pos()).Filename, "_test.go") {
					continue
				}
				globals[g.Name()] = g
			}
		}
	}
	written := map[string][]string{}
	argWritten := map[string][]string{}
	for _, fn := range m.Funcs {
		if fn.Name() == "init" || strings.HasPrefix(fn.Name(), "init#") {
			continue
		}
		live := m.Live(fn)
		for _, b := range fn.Blocks {
			if !live[b.Index] {
				continue
			}
			for _, in := range b.Instrs {
				switch in := in.(type) {
				case *ssa.Store:
					if g := rooted(in.Addr); g != nil {
						written[g.Name()] = append(written[g.Name()], m.InstrPos(in)+" in "+m.FuncName(fn))
					}
				case *ssa.MapUpdate:
					// cache[key] = v on a package-level map (a memo table filled on demand)
					if g := rooted(in.Map); g != nil {
						written[g.Name()] = append(written[g.Name()], m.InstrPos(in)+" in "+m.FuncName(fn)+" (map entry)")
					}
				case ssa.CallInstruction:
					cal, c := model.Callee(in)
					if bn := model.BuiltinName(c); bn == "delete" && len(c.Args) > 0 {
						if g := rooted(c.Args[0]); g != nil {
							written[g.Name()] = append(written[g.Name()], m.InstrPos(in)+" in "+m.FuncName(fn)+" (map entry deleted)")
						}
					}
					for ai, a := range c.Args {
						// package-level *Decimal (oneHalf, three) passed where the callee writes
						if m.IsDecPtr(a.Type()) {
							r := m.RefOf(a)
							if !r.Global {
								continue
							}
							writes := cal == nil || len(cal.Blocks) == 0 && !(m.InDecimalPkg(cal))
							if cal != nil && len(cal.Blocks) > 0 {
								writes = len(fieldWriteNames(m, cal, ai)) > 0 || m.ElemWrites(cal)[fmt.Sprintf("P%d.mant", ai)]
							}
							if cal != nil && !m.InDecimalPkg(cal) && !m.InContextPkg(cal) {
								// formatting a Decimal through fmt (debug output) only reads it
								writes = false
							}
							if writes {
								for _, g := range r.Globals {
									argWritten[g.Name()] = append(argWritten[g.Name()], m.InstrPos(in)+": passed to "+m.FuncName(cal)+" as a written parameter")
								}
							}
							continue
						}
						// slices rooted at a global passed as a kernel/dec destination
						if m.IsWordSlice(a.Type()) && cal != nil {
							for l := range m.RootsOf(a) {
								if strings.HasPrefix(l, "global:") && m.ElemWrites(cal)[fmt.Sprintf("P%d", ai)] {
									gn := strings.TrimSuffix(strings.TrimPrefix(l, "global:"), ".mant")
									argWritten[gn] = append(argWritten[gn], m.InstrPos(in)+": elements written by "+m.FuncName(cal))
								}
							}
						}
					}
				}
			}
		}
	}
	var names []string
	for n := range globals {
		names = append(names, n)
	}
	sort.Strings(names)
	for _, n := range names {
		g := globals[n]
		c := "var " + n
		w := append(append([]string{}, written[n]...), argWritten[n]...)
		switch {
		case len(w) == 0:
			s.Ok(R, c, m.Pos(g.Pos()), "never written outside init")
		case allowedVia[n] != "":
			s.Note(R, c, m.Pos(g.Pos()), allowedVia[n])
		default:
			s.Bad(R, c, m.Pos(g.Pos()), "package-level state is written at run time (shared between goroutines)", w...)
		}
	}
	_ = types.Typ
}

func runFxDep(m *model.Model, s *ob.Set) {
	const R = "FX-DEP"
	for _, n := range []string{"(*Decimal).Cmp", "(*Decimal).ucmp", "(*Decimal).ord", "(*Decimal).Sign", "(*Decimal).Signbit", "(*Decimal).IsZero", "(*Decimal).IsInf"} {
		fn := m.Lookup(n)
		var bad []string
		for k, p := range fn.Params {
			if !m.IsDecPtr(p.Type()) {
				continue
			}
			if fs := fieldWriteNames(m, fn, k); len(fs) > 0 {
				bad = append(bad, fmt.Sprintf("writes %s.%v", p.Name(), fs))
			}
			if m.ElemWrites(fn)[fmt.Sprintf("P%d.mant", k)] {
				bad = append(bad, "writes mantissa words of "+p.Name())
			}
			for _, f := range m.LoadSet(fn, k) {
				if f == m.F.Prec || f == m.F.Mode || f == m.F.Acc {
					bad = append(bad, fmt.Sprintf("reads %s.%s", p.Name(), m.FieldN[f]))
				}
			}
		}
		if len(bad) == 0 {
			s.Ok(R, n, m.Pos(fn.Pos()), "pure; reads only form, neg, exp, mant")
		} else {
			s.Bad(R, n, m.Pos(fn.Pos()), strings.Join(bad, "; "))
		}
	}
}

// selfDerivedMant: every Decimal mantissa that v is derived from (through slicing, φ, type changes
// and dec-layer calls) is loaded from the same SSA object `base`; other inputs are fresh buffers.
func selfDerivedMant(m *model.Model, v ssa.Value, base ssa.Value) bool {
	seen := map[ssa.Value]bool{}
	found := false
	var walk func(v ssa.Value, d int) bool
	// result idx of a call: follow the callee's return-root summary into the arguments
	walkCall := func(x *ssa.Call, idx int, d int) bool {
		cal := model.Unthunk(x.Call.StaticCallee())
		if cal == nil {
			if b := model.BuiltinName(&x.Call); b == "append" || b == "make" {
				for _, a := range x.Call.Args {
					if m.IsWordSlice(a.Type()) && !walk(a, d-1) {
						return false
					}
				}
				return true
			}
			return false
		}
		if !m.InDecimalPkg(cal) {
			return false
		}
		for l := range m.RetRoots(cal, idx) {
			switch {
			case l == "fresh" || l == "nil":
			case strings.HasPrefix(l, "P") && !strings.Contains(l, "."):
				var k int
				fmt.Sscanf(l, "P%d", &k)
				if k >= len(x.Call.Args) || !walk(x.Call.Args[k], d-1) {
					return false
				}
			default:
				return false
			}
		}
		return true
	}
	walk = func(v ssa.Value, d int) bool {
		if d == 0 {
			return false
		}
		if seen[v] {
			return true
		}
		seen[v] = true
		switch x := v.(type) {
		case *ssa.Const:
			return true
		case *ssa.UnOp:
			if lf, ok := m.LoadOfDecField(x); ok && lf.Field == m.F.Mant {
				if lf.X == base {
					found = true
					return true
				}
				return false
			}
			return false
		case *ssa.Slice:
			return walk(x.X, d-1)
		case *ssa.ChangeType:
			return walk(x.X, d-1)
		case *ssa.Phi:
			for _, e := range x.Edges {
				if !walk(e, d-1) {
					return false
				}
			}
			return true
		case *ssa.Extract:
			if call, ok := x.Tuple.(*ssa.Call); ok {
				return walkCall(call, x.Index, d)
			}
			return false
		case *ssa.Call:
			return walkCall(x, 0, d)
		}
		return false
	}
	return walk(v, 10) && found
}

// immutAtCallers: at every call site of helper fn, argument k is rooted only in buffers the calling
// function may write itself: its own destination (first parameter), a tabled storage parameter, a
// parameter that the caller in turn is allowed to write by this same criterion, or fresh/pooled
// memory. There must be at least one call site.
func immutAtCallers(m *model.Model, fn *ssa.Function, k int) bool {
	sites := 0
	for _, caller := range m.Funcs {
		if !m.InDecimalPkg(caller) {
			continue
		}
		live := m.Live(caller)
		cname := m.FuncName(caller)
		for _, b := range caller.Blocks {
			if !live[b.Index] {
				continue
			}
			for _, in := range b.Instrs {
				cal, c := model.Callee(in)
				if cal != fn || k >= len(c.Args) {
					continue
				}
				sites++
				for l := range m.RootsOf(c.Args[k]) {
					switch {
					case l == "fresh" || l == "pool" || l == "nil":
					case l == "P0" && m.IsWordSlice(caller.Params[0].Type()):
					case strings.HasPrefix(l, "P") && !strings.Contains(l, "."):
						var pk int
						fmt.Sscanf(l, "P%d", &pk)
						if _, ok := storageParams[cname][pk]; !ok {
							return false
						}
					default:
						return false
					}
				}
			}
		}
	}
	return sites > 0
}

// decOperandFreshAtCallers: at every call site of the unexported function fn, argument k denotes
// only objects allocated in the calling function (or handed down the same way from its callers).
func decOperandFreshAtCallers(m *model.Model, fn *ssa.Function, k int, depth int) bool {
	sites := 0
	for _, caller := range m.Funcs {
		live := m.Live(caller)
		for _, b := range caller.Blocks {
			if !live[b.Index] {
				continue
			}
			for _, in := range b.Instrs {
				cal, c := model.Callee(in)
				if cal != fn || k >= len(c.Args) {
					continue
				}
				sites++
				r := m.RefOf(c.Args[k])
				if r.Unknown || r.Global {
					return false
				}
				if r.Params != 0 {
					if depth == 0 || m.IsExported(caller) || caller.Parent() != nil {
						return false
					}
					for j := range caller.Params {
						if r.MayBeParam(j) && !decOperandFreshAtCallers(m, caller, j, depth-1) {
							return false
						}
					}
				}
			}
		}
	}
	return sites > 0
}

// localOnlyFlowsTo: the local Decimal al is touched field by field, and as a whole it is only
// copied into other such locals or into the Decimal parameter k points to; its address goes
// nowhere else.
func localOnlyFlowsTo(m *model.Model, al *ssa.Alloc, k int, depth int) bool {
	if depth == 0 || al.Referrers() == nil || al.Heap {
		return false
	}
	for _, r := range *al.Referrers() {
		switch x := r.(type) {
		case *ssa.DebugRef:
		case *ssa.FieldAddr:
			if x.Referrers() == nil {
				continue
			}
			for _, u := range *x.Referrers() {
				switch y := u.(type) {
				case *ssa.Store:
					if y.Addr != ssa.Value(x) {
						return false
					}
				case *ssa.UnOp:
					if y.Op != token.MUL {
						return false
					}
				case *ssa.DebugRef:
				default:
					return false
				}
			}
		case *ssa.Store:
			if x.Addr != ssa.Value(al) {
				return false
			}
		case *ssa.UnOp:
			if x.Op != token.MUL || x.Referrers() == nil {
				return false
			}
			for _, u := range *x.Referrers() {
				st, ok := u.(*ssa.Store)
				if !ok || st.Val != ssa.Value(x) {
					if _, isDbg := u.(*ssa.DebugRef); isDbg {
						continue
					}
					return false
				}
				if al2, ok := st.Addr.(*ssa.Alloc); ok {
					if al2 != al && !localOnlyFlowsTo(m, al2, k, depth-1) {
						return false
					}
					continue
				}
				if !(m.IsDecPtr(st.Addr.Type()) && m.RefOf(st.Addr).OnlyParam(k)) {
					return false
				}
			}
		default:
			return false
		}
	}
	return true
}
