package rules

// E6 — CONST: tables and constants against their mathematical definition.
// Everything here is computed from the constant values the type checker
// derived and from composite-literal initialisers; math/big arithmetic runs on
// *source constants*, never on the library.

import (
	"fmt"
	"go/ast"
	"go/constant"
	"go/token"
	"go/types"
	"math/big"
	"strings"

	"golang.org/x/tools/go/ssa"

	"decverif/internal/model"
	"decverif/internal/ob"
)

func init() {
	Register(&Rule{Name: "CONST", Floor: 120, Run: runConst,
		Doc: "word-base constants, power tables, division-by-constant magic numbers and enumerators equal their mathematical definition"})
}

func bigOf(v constant.Value) *big.Int {
	if v == nil || v.Kind() != constant.Int {
		return nil
	}
	b, ok := new(big.Int).SetString(v.ExactString(), 10)
	if !ok {
		return nil
	}
	return b
}

// pkgVarLit returns the elements of the composite literal initialising a
// package-level variable of package decimal.
func pkgVarLit(m *model.Model, name string) (*ast.CompositeLit, token.Pos) {
	for _, f := range m.Dec.Syntax {
		for _, d := range f.Decls {
			gd, ok := d.(*ast.GenDecl)
			if !ok || gd.Tok != token.VAR {
				continue
			}
			for _, sp := range gd.Specs {
				vs := sp.(*ast.ValueSpec)
				for i, n := range vs.Names {
					if n.Name == name && i < len(vs.Values) {
						if cl, ok := vs.Values[i].(*ast.CompositeLit); ok {
							return cl, n.Pos()
						}
					}
				}
			}
		}
	}
	model.Fatal("anchor table %q not found (or not a composite literal)", name)
	return nil, 0
}

func constOf(m *model.Model, e ast.Expr) *big.Int {
	tv, ok := m.Dec.TypesInfo.Types[e]
	if !ok || tv.Value == nil {
		return nil
	}
	return bigOf(tv.Value)
}

func intTable(m *model.Model, name string) ([]*big.Int, token.Pos) {
	cl, pos := pkgVarLit(m, name)
	var out []*big.Int
	for _, e := range cl.Elts {
		if _, kv := e.(*ast.KeyValueExpr); kv {
			model.Fatal("table %s uses keyed elements; not supported", name)
		}
		v := constOf(m, e)
		if v == nil {
			model.Fatal("table %s has a non-constant element", name)
		}
		out = append(out, v)
	}
	return out, pos
}

func pow(b, e int64) *big.Int {
	return new(big.Int).Exp(big.NewInt(b), big.NewInt(e), nil)
}

func runConst(m *model.Model, s *ob.Set) {
	const R = "CONST"
	W := bigOf(m.PkgConst("_W")).Int64()
	DW := bigOf(m.PkgConst("_DW")).Int64()
	DB := bigOf(m.PkgConst("_DB"))
	DMax := bigOf(m.PkgConst("_DMax"))
	DWb := bigOf(m.PkgConst("_DWb")).Int64()
	two := func(e int64) *big.Int { return new(big.Int).Lsh(big.NewInt(1), uint(e)) }
	cpos := m.Pos(m.Dec.Types.Scope().Lookup("_DB").Pos())

	s.Check(W == 32 || W == 64, R, "_W", cpos, fmt.Sprintf("_W=%d", W), fmt.Sprintf("_W=%d is neither 32 nor 64", W))
	s.Check(DB.Cmp(pow(10, DW)) == 0, R, "_DB=10^_DW", cpos, fmt.Sprintf("_DB=%s=10^%d", DB, DW), fmt.Sprintf("_DB=%s but 10^_DW=%s", DB, pow(10, DW)))
	// _DW = floor(W*log10 2): 10^DW <= 2^W-1 < 10^(DW+1)
	maxw := new(big.Int).Sub(two(W), big.NewInt(1))
	s.Check(pow(10, DW).Cmp(maxw) <= 0 && maxw.Cmp(pow(10, DW+1)) < 0, R, "_DW=floor(_W*log10(2))", cpos, fmt.Sprintf("_DW=%d", DW), fmt.Sprintf("_DW=%d is not the largest power of ten fitting a %d-bit word", DW, W))
	s.Check(DMax.Cmp(new(big.Int).Sub(DB, big.NewInt(1))) == 0, R, "_DMax=_DB-1", cpos, "", fmt.Sprintf("_DMax=%s", DMax))
	s.Check(int64(DB.BitLen()) == DWb, R, "_DWb=bitlen(_DB)", cpos, fmt.Sprintf("_DWb=%d", DWb), fmt.Sprintf("_DWb=%d but bitlen(_DB)=%d", DWb, DB.BitLen()))
	S := bigOf(m.PkgConst("_S")).Int64()
	s.Check(S*8 == W, R, "_S=_W/8", cpos, "", fmt.Sprintf("_S=%d", S))

	// exported aliases
	for _, p := range [][2]string{{"DigitsPerWord", "_DW"}, {"DecimalBase", "_DB"}} {
		a, b := bigOf(m.PkgConst(p[0])), bigOf(m.PkgConst(p[1]))
		s.Check(a.Cmp(b) == 0, R, p[0]+"="+p[1], cpos, "", fmt.Sprintf("%s=%s but %s=%s", p[0], a, p[1], b))
	}
	// limits
	lim := map[string]*big.Int{
		"MaxExp":  new(big.Int).Sub(two(31), big.NewInt(1)),
		"MinExp":  new(big.Int).Neg(two(31)),
		"MaxPrec": new(big.Int).Sub(two(32), big.NewInt(1)),
	}
	for _, n := range []string{"MaxExp", "MinExp", "MaxPrec"} {
		v := bigOf(m.PkgConst(n))
		s.Check(v.Cmp(lim[n]) == 0, R, n, cpos, v.String(), fmt.Sprintf("%s=%s, expected %s (int32/uint32 field range)", n, v, lim[n]))
	}
	ddp := bigOf(m.PkgConst("DefaultDecimalPrec"))
	s.Check(ddp.Int64() == 34, R, "DefaultDecimalPrec", cpos, "34", fmt.Sprintf("DefaultDecimalPrec=%s, documented 34 (decimal128)", ddp))

	// pow10tab[i] = 10^i, and covers 0.._DW(64)
	{
		t, pos := intTable(m, "pow10tab")
		for i, v := range t {
			s.Check(v.Cmp(pow(10, int64(i))) == 0, R, fmt.Sprintf("pow10tab[%d]", i), m.Pos(pos), "", fmt.Sprintf("pow10tab[%d]=%s, want 10^%d", i, v, i))
		}
		s.Check(int64(len(t)) > DW, R, "pow10tab/len", m.Pos(pos), fmt.Sprintf("len=%d", len(t)), fmt.Sprintf("pow10tab has %d entries; indexes up to _DW=%d are used", len(t), DW))
	}
	// pow5tab[i] = 5^i and the next power overflows uint64
	{
		t, pos := intTable(m, "pow5tab")
		for i, v := range t {
			s.Check(v.Cmp(pow(5, int64(i))) == 0, R, fmt.Sprintf("pow5tab[%d]", i), m.Pos(pos), "", fmt.Sprintf("pow5tab[%d]=%s, want 5^%d", i, v, i))
		}
	}
	// pow2digitsTab[k]: digits of 2^k-1 (k>=1), tab[0]=1, and digits(2^(k-1)) >= tab[k]-1
	{
		t, pos := intTable(m, "pow2digitsTab")
		digits := func(x *big.Int) int64 {
			if x.Sign() == 0 {
				return 1
			}
			return int64(len(x.String()))
		}
		for k, v := range t {
			c := fmt.Sprintf("pow2digitsTab[%d]", k)
			if k == 0 {
				s.Check(v.Int64() == 1, R, c, m.Pos(pos), "", fmt.Sprintf("tab[0]=%s, want 1", v))
				continue
			}
			// used as: n = tab[bitlen(x)]; if x < 10^(n-1) { n-- }. Correct for every x of bit
			// length k iff digits(2^k-1) <= tab[k] <= digits(2^(k-1))+1 (one correction step
			// reaches every digit count in the range) and 10^(tab[k]-1) is a table entry
			// (and fits uint32 for k <= 32, where decDigits32 truncates it).
			hi := digits(new(big.Int).Sub(two(int64(k)), big.NewInt(1)))
			lo := digits(two(int64(k - 1)))
			n := v.Int64()
			ok := hi <= n && n <= lo+1 && n >= 1 && n-1 <= 19
			if k <= 32 && pow(10, n-1).Cmp(two(32)) >= 0 {
				ok = false
			}
			s.Check(ok, R, c, m.Pos(pos), "", fmt.Sprintf("tab[%d]=%d: need digits(2^%d-1)=%d <= tab <= digits(2^%d)+1=%d", k, n, k, hi, k-1, lo+1))
		}
		s.Check(len(t) >= 65, R, "pow2digitsTab/len", m.Pos(pos), "", fmt.Sprintf("len=%d < 65 (bits.Len64 ranges over 0..64)", len(t)))
	}
	// decMaxPow32/64[2b] = b^n, [2b+1] = n with b^n <= base < b^(n+1)
	for _, tb := range []struct {
		name string
		base *big.Int
	}{{"decMaxPow32", pow(10, 9)}, {"decMaxPow64", pow(10, 19)}} {
		t, pos := intTable(m, tb.name)
		maxBase := bigOf(m.PkgConst("MaxBase")).Int64()
		s.Check(int64(len(t)) >= 2*(maxBase+1), R, tb.name+"/len", m.Pos(pos), "", fmt.Sprintf("len=%d, need %d", len(t), 2*(maxBase+1)))
		for b := int64(2); 2*b+1 < int64(len(t)); b++ {
			p, n := t[2*b], t[2*b+1].Int64()
			ok := p.Cmp(pow(b, n)) == 0 && p.Cmp(tb.base) <= 0 && pow(b, n+1).Cmp(tb.base) > 0
			s.Check(ok, R, fmt.Sprintf("%s[base %d]", tb.name, b), m.Pos(pos), "", fmt.Sprintf("%s: base %d entry (%s,%d): want b^n <= %s < b^(n+1)", tb.name, b, p, n, tb.base))
		}
	}
	// pow10DivTab64/32: ((n>>pre)*m >> W) >> post == n/d for every W-bit n
	for _, tb := range []struct {
		name string
		w    int64
	}{{"pow10DivTab64", 64}, {"pow10DivTab32", 32}} {
		cl, pos := pkgVarLit(m, tb.name)
		for i, e := range cl.Elts {
			c := fmt.Sprintf("%s[%d]", tb.name, i)
			ecl, ok := e.(*ast.CompositeLit)
			if !ok || len(ecl.Elts) != 4 {
				model.Fatal("%s: element %d is not a 4-field literal", tb.name, i)
			}
			var f [4]*big.Int
			for j, x := range ecl.Elts {
				if _, kv := x.(*ast.KeyValueExpr); kv {
					model.Fatal("%s: keyed fields not supported", tb.name)
				}
				f[j] = constOf(m, x)
				if f[j] == nil {
					model.Fatal("%s: non-constant field", tb.name)
				}
			}
			role := magicRoles(m)
			d, mm, pre, post := f[role[0]], f[role[1]], f[role[2]].Int64(), f[role[3]].Int64()
			ok2 := d.Cmp(pow(10, int64(i+1))) == 0 && mm.Cmp(two(tb.w)) < 0
			// 2^pre | d
			if new(big.Int).Mod(d, two(pre)).Sign() != 0 {
				ok2 = false
			}
			dp := new(big.Int).Rsh(d, uint(pre))
			e1 := new(big.Int).Sub(new(big.Int).Mul(mm, dp), two(tb.w+post))
			nmax := new(big.Int).Rsh(new(big.Int).Sub(two(tb.w), big.NewInt(1)), uint(pre))
			if e1.Sign() < 0 || new(big.Int).Mul(e1, nmax).Cmp(two(tb.w+post)) >= 0 {
				ok2 = false
			}
			s.Check(ok2, R, c, m.Pos(pos), "", fmt.Sprintf("%s entry %d (d=%s m=%#x pre=%d post=%d) does not satisfy the exact-division criterion for every %d-bit dividend", tb.name, i, d, mm, pre, post, tb.w))
		}
		want := 18
		if tb.w == 32 {
			want = 8
		}
		s.Check(len(cl.Elts) >= want, R, tb.name+"/len", m.Pos(pos), "", fmt.Sprintf("%s has %d entries, shifts by 1..%d digits need %d", tb.name, len(cl.Elts), want, want))
	}
	// struct layout of magic under the analysed word size (the assembly hard-codes it for amd64)
	if m.Cfg.Name == "amd64" {
		mt := m.Dec.Types.Scope().Lookup("magic")
		if mt == nil {
			model.Fatal("anchor type magic not found")
		}
		st := mt.Type().Underlying().(*types.Struct)
		sizes := types.SizesFor("gc", "amd64")
		var fl []*types.Var
		for i := 0; i < st.NumFields(); i++ {
			fl = append(fl, st.Field(i))
		}
		offs := sizes.Offsetsof(fl)
		// what the assembly relies on is the layout, not the field names: two 8-byte words at
		// offsets 0 and 8, then two bytes at 16 and 17 (which field is which is fixed by the
		// table-building Go code and checked through the table values)
		wantOff := []int64{0, 8, 16, 17}
		wantSize := []int64{8, 8, 1, 1}
		okl := sizes.Sizeof(st) == 24 && len(fl) == 4
		// which field plays which part (divisor, multiplier, pre-shift, post-shift) is read off
		// the Go method that divides by a magic, not off the field names
		role := magicRoles(m)
		for r := 0; r < 4 && okl; r++ {
			i := role[r]
			if i >= len(fl) || offs[i] != wantOff[r] || sizes.Sizeof(fl[i].Type()) != wantSize[r] {
				okl = false
			}
		}
		s.Check(okl, R, "magic/layout", m.Pos(mt.Pos()), "d@0 m@8 pre@16 post@17 size 24", "struct magic no longer has the layout d@0,m@8,pre@16,post@17,size 24 that shl10VU/shr10VU in dec_arith_amd64.s hard-code")
	}
	// local constant mP of div10W_g
	{
		fn := m.Lookup("div10W_g")
		var mp, nn, ll, dd *big.Int
		for id, o := range m.Dec.TypesInfo.Defs {
			c, ok := o.(*types.Const)
			if !ok || id.Pos() < fn.Syntax().Pos() || id.Pos() > fn.Syntax().End() {
				continue
			}
			switch id.Name {
			case "mP":
				mp = bigOf(c.Val())
			case "N":
				nn = bigOf(c.Val())
			case "l":
				ll = bigOf(c.Val())
			case "d":
				dd = bigOf(c.Val())
			}
		}
		if mp == nil || nn == nil || ll == nil || dd == nil {
			s.Bad(R, "div10W_g/mP", m.Pos(fn.Pos()), "local constants N, d, l, mP of div10W_g not found")
		} else {
			// m' = floor((2^(N+l)-1)/d) - 2^N   (Granlund–Montgomery / Möller–Granlund reciprocal)
			want := new(big.Int).Sub(new(big.Int).Div(new(big.Int).Sub(two(nn.Int64()+ll.Int64()), big.NewInt(1)), dd), two(nn.Int64()))
			ok := mp.Cmp(want) == 0 && nn.Int64() == W && dd.Cmp(DB) == 0 && ll.Int64() == DWb
			s.Check(ok, R, "div10W_g/mP", m.Pos(fn.Pos()), fmt.Sprintf("mP=%#x", mp), fmt.Sprintf("mP=%#x, want %#x = floor((2^(N+l)-1)/d)-2^N with N=_W, d=_DB, l=_DWb", mp, want))
		}
	}
	// enumerators agree numerically with math/big (relied on by casts big.RoundingMode(x.mode), Accuracy(a))
	{
		var bigp *types.Package
		for _, p := range m.Dec.Types.Imports() {
			if p.Path() == "math/big" {
				bigp = p
			}
		}
		if bigp == nil {
			model.Fatal("package decimal does not import math/big")
		}
		for _, n := range []string{"ToNearestEven", "ToNearestAway", "ToZero", "AwayFromZero", "ToNegativeInf", "ToPositiveInf", "Below", "Exact", "Above"} {
			a := m.Dec.Types.Scope().Lookup(n)
			b := bigp.Scope().Lookup(n)
			if a == nil || b == nil {
				s.Bad(R, "enum/"+n, cpos, "enumerator missing in decimal or math/big")
				continue
			}
			av, bv := bigOf(a.(*types.Const).Val()), bigOf(b.(*types.Const).Val())
			s.Check(av.Cmp(bv) == 0, R, "enum/"+n, m.Pos(a.Pos()), av.String(), fmt.Sprintf("decimal.%s=%s but big.%s=%s; conversions by numeric cast rely on equality", n, av, n, bv))
		}
		// form order: zero < finite < inf (x.form <= finite is used as "not inf")
		z, f, i := bigOf(m.PkgConst("zero")), bigOf(m.PkgConst("finite")), bigOf(m.PkgConst("inf"))
		s.Check(z.Int64() == 0 && z.Cmp(f) < 0 && f.Cmp(i) < 0, R, "enum/form-order", cpos, "zero=0<finite<inf", "form constants must satisfy zero=0 < finite < inf (zero value is +0; `form <= finite` means not infinite)")
		s.Check(bigOf(m.PkgConst("ToNearestEven")).Int64() == 0 && bigOf(m.PkgConst("Exact")).Int64() == 0, R, "enum/zero-values", cpos, "", "the zero value of a Decimal must be ToNearestEven/Exact")
	}
	// divRecursiveThreshold is a constant and karatsubaLen/thresholds are ints > 1 by initialiser
	for _, n := range []string{"decKaratsubaThreshold", "decBasicSqrThreshold", "decKaratsubaSqrThreshold"} {
		o := m.Dec.Types.Scope().Lookup(n)
		if o == nil {
			model.Fatal("anchor variable %s not found", n)
		}
		var val *big.Int
		for _, f := range m.Dec.Syntax {
			for _, d := range f.Decls {
				if gd, ok := d.(*ast.GenDecl); ok && gd.Tok == token.VAR {
					for _, sp := range gd.Specs {
						vs := sp.(*ast.ValueSpec)
						for i, id := range vs.Names {
							if id.Name == n && i < len(vs.Values) {
								val = constOf(m, vs.Values[i])
							}
						}
					}
				}
			}
		}
		s.Check(val != nil && val.Int64() >= 2, R, "threshold/"+n, m.Pos(o.Pos()), fmt.Sprint(val), fmt.Sprintf("%s must be initialised to a constant >= 2 (karatsubaLen and the n<2 guards assume it)", n))
	}
}

// magicRoles returns the field indices of struct magic that play the parts divisor, multiplier,
// pre-shift and post-shift, read off the method that divides by a magic:
// q = hi(bits.Mul(n >> PRE, M)) >> POST; r = n - q*D. Falls back to declaration order.
func magicRoles(m *model.Model) [4]int {
	role := [4]int{0, 1, 2, 3}
	var fn *ssa.Function
	for _, f := range m.Funcs {
		if !m.InDecimalPkg(f) || f.Signature.Recv() == nil || len(f.Blocks) == 0 {
			continue
		}
		if n, ok := f.Signature.Recv().Type().(*types.Named); ok && n.Obj().Name() == "magic" {
			// the method that calls bits.Mul
			for _, b := range f.Blocks {
				for _, in := range b.Instrs {
					if c, ok := in.(*ssa.Call); ok {
						if cal := model.Unthunk(c.Call.StaticCallee()); cal != nil && cal.Pkg != nil && cal.Pkg.Pkg.Path() == "math/bits" && strings.HasPrefix(cal.Name(), "Mul") {
							fn = f
						}
					}
				}
			}
		}
	}
	if fn == nil {
		m.Blind("CONST: no method of magic calling bits.Mul found; field roles taken from declaration order")
		return role
	}
	fieldOf := func(v ssa.Value) int {
		for {
			switch x := v.(type) {
			case *ssa.Convert:
				v = x.X
				continue
			case *ssa.ChangeType:
				v = x.X
				continue
			case *ssa.Field:
				return x.Field
			case *ssa.UnOp:
				if fa, ok := x.X.(*ssa.FieldAddr); ok && x.Op == token.MUL {
					return fa.Field
				}
			}
			return -1
		}
	}
	found := [4]bool{}
	var mul *ssa.Call
	for _, b := range fn.Blocks {
		for _, in := range b.Instrs {
			if c, ok := in.(*ssa.Call); ok {
				if cal := model.Unthunk(c.Call.StaticCallee()); cal != nil && cal.Pkg != nil && cal.Pkg.Pkg.Path() == "math/bits" && strings.HasPrefix(cal.Name(), "Mul") {
					mul = c
					for _, a := range c.Call.Args {
						if i := fieldOf(a); i >= 0 {
							role[1], found[1] = i, true
						}
						if sh, ok := stripConvAny(a).(*ssa.BinOp); ok && sh.Op == token.SHR {
							if i := fieldOf(sh.Y); i >= 0 {
								role[2], found[2] = i, true
							}
						}
					}
				}
			}
		}
	}
	for _, b := range fn.Blocks {
		for _, in := range b.Instrs {
			bo, ok := in.(*ssa.BinOp)
			if !ok {
				continue
			}
			switch bo.Op {
			case token.SHR:
				if ex, ok := stripConvAny(bo.X).(*ssa.Extract); ok && ex.Tuple == ssa.Value(mul) {
					if i := fieldOf(bo.Y); i >= 0 {
						role[3], found[3] = i, true
					}
				}
			case token.MUL:
				if i := fieldOf(bo.Y); i >= 0 {
					role[0], found[0] = i, true
				} else if i := fieldOf(bo.X); i >= 0 {
					role[0], found[0] = i, true
				}
			}
		}
	}
	if found != [4]bool{true, true, true, true} {
		m.Blind("CONST: the division method of magic is not of the shape hi(Mul(n>>pre, m))>>post, n-q*d; field roles taken from declaration order")
		return [4]int{0, 1, 2, 3}
	}
	return role
}

func stripConvAny(v ssa.Value) ssa.Value {
	for {
		switch x := v.(type) {
		case *ssa.Convert:
			v = x.X
		case *ssa.ChangeType:
			v = x.X
		default:
			return v
		}
	}
}
