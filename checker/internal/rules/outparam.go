package rules

// OUTPARAM — Int(z *big.Int), Rat(z *big.Rat) and Float(z *big.Float) accept a caller-supplied
// result object. On every exit that returns it, every component of that object must have been
// (re)defined by the call: a component left as the caller handed it in makes the result depend
// on the previous contents (x/oldDenominator for Rat). A must-analysis over the CFG: the bit
// "fully defined" is set by allocating the object, by a whole-value setter of math/big, or (Rat)
// by writing the denominator through Denom(); read-modify-write methods (Neg, Quo, Mul, SetMantExp,
// SetPrec(p != 0), Num().SetBits) do not set it.

import (
	"fmt"
	"go/constant"
	"go/token"
	"go/types"
	"math"
	"math/big"
	"sort"
	"strings"

	"golang.org/x/tools/go/ssa"

	"decverif/internal/cdai"
	"decverif/internal/model"
	"decverif/internal/ob"
)

func init() {
	Register(&Rule{Name: "OUTPARAM", Floor: 2, Run: runOutParam,
		Doc: "the caller-supplied result of Int, Rat and Float is completely redefined on every exit that returns it (whole-value setter of math/big, fresh allocation, or — for Rat — an explicit write of the denominator)"})
}

func runOutParam(m *model.Model, s *ob.Set) {
	const R = "OUTPARAM"
	runOutParamNil(m, s)
	whole := map[string]map[string]bool{
		"Int":   {"SetBits": true, "SetInt64": true, "SetUint64": true, "Set": true, "SetString": true, "SetBytes": true},
		"Rat":   {"SetInt": true, "SetInt64": true, "SetUint64": true, "SetFrac": true, "SetFrac64": true, "Set": true, "SetString": true, "SetFloat64": true},
		"Float": {"SetInt": true, "SetInt64": true, "SetUint64": true, "SetFloat64": true, "Set": true, "SetRat": true, "SetInf": true, "SetString": true, "Copy": true},
	}
	bigNamed := func(t types.Type) string {
		p, ok := t.(*types.Pointer)
		if !ok {
			return ""
		}
		n, ok := p.Elem().(*types.Named)
		if !ok || n.Obj().Pkg() == nil || n.Obj().Pkg().Path() != "math/big" {
			return ""
		}
		return n.Obj().Name()
	}
	for _, name := range []string{"(*Decimal).Int", "(*Decimal).Rat", "(*Decimal).Float"} {
		fn := m.TryLookup(name)
		if fn == nil || len(fn.Params) < 2 {
			continue
		}
		kind := bigNamed(fn.Params[1].Type())
		if whole[kind] == nil {
			continue
		}
		isOut := outObjValues(fn, kind, bigNamed)
		live := m.Live(fn)
		n := len(fn.Blocks)
		comps := []string{""}
		if kind == "Rat" {
			comps = []string{"Denom", "Num"} // both parts of the fraction, each on every path
		}
		for _, comp := range comps {
			in := make([]int, n) // 0 unreached, 1 defined, 2 not (yet) defined
			in[0] = 2
			step := func(b *ssa.BasicBlock, st int, rec func(*ssa.Return, int)) int {
				for _, ins := range b.Instrs {
					switch x := ins.(type) {
					case *ssa.Alloc:
						if x.Heap && bigNamed(x.Type()) == kind {
							st = 1
						}
					case *ssa.Call:
						cal := model.Unthunk(x.Call.StaticCallee())
						if cal == nil || cal.Signature.Recv() == nil || len(x.Call.Args) == 0 {
							continue
						}
						recv := x.Call.Args[0]
						if isOut[recv] {
							if whole[kind][cal.Name()] {
								st = 1
							}
							if kind == "Float" && cal.Name() == "SetPrec" {
								if k, ok := model.ConstInt(x.Call.Args[1]); ok && k == 0 {
									st = 1 // documented: the value becomes 0
								}
							}
							continue
						}
						// z.Denom().SetBits(...): a write of the denominator through its accessor
						if kind == "Rat" && bigNamed(recv.Type()) == "Int" {
							if c2, ok := recv.(*ssa.Call); ok {
								if cc := model.Unthunk(c2.Call.StaticCallee()); cc != nil && cc.Name() == comp && len(c2.Call.Args) > 0 && isOut[c2.Call.Args[0]] {
									if whole["Int"][cal.Name()] {
										st = 1
									}
								}
							}
						}
					case *ssa.Return:
						if rec != nil {
							rec(x, st)
						}
					}
				}
				return st
			}
			work := []int{0}
			for len(work) > 0 {
				bi := work[len(work)-1]
				work = work[:len(work)-1]
				if !live[bi] {
					continue
				}
				out := step(fn.Blocks[bi], in[bi], nil)
				for _, ed := range model.LiveSuccs(fn.Blocks[bi]) {
					if out > in[ed.To.Index] {
						in[ed.To.Index] = out
						work = append(work, ed.To.Index)
					}
				}
			}
			var bad []string
			nret := 0
			for bi, b := range fn.Blocks {
				if in[bi] == 0 || !live[bi] {
					continue
				}
				step(b, in[bi], func(r *ssa.Return, st int) {
					if len(r.Results) == 0 {
						return
					}
					if c, ok := r.Results[0].(*ssa.Const); ok && c.IsNil() {
						return
					}
					nret++
					if st != 1 {
						what := "the result object"
						if kind == "Rat" {
							what = map[string]string{"Denom": "the denominator of the result", "Num": "the numerator of the result"}[comp]
						}
						bad = append(bad, fmt.Sprintf("%s: %s is returned without having been redefined on every path: a caller-supplied %s keeps part of its previous value", m.InstrPos(r), what, "*big."+kind))
					}
				})
			}
			c := name + "/" + fn.Params[1].Name()
			if comp == "Num" {
				c += "/numerator"
			}
			if len(bad) == 0 {
				s.Ok(R, c, m.Pos(fn.Pos()), fmt.Sprintf("%d returning exit(s), the *big.%s is fully redefined on each", nret, kind))
			} else {
				s.Bad(R, c, m.Pos(fn.Pos()), bad[0], bad[1:]...)
			}
		}
	}
}

// outObjValues: the values that denote the out-parameter object: the parameter, φs of it, results
// of math/big methods called on it that return their receiver (chaining), heap allocations of the
// same type (assigned to the result variable: they join the φ).
func outObjValues(fn *ssa.Function, kind string, bigNamed func(types.Type) string) map[ssa.Value]bool {
	isOut := map[ssa.Value]bool{fn.Params[1]: true}
	for ch := true; ch; {
		ch = false
		for _, b := range fn.Blocks {
			for _, in := range b.Instrs {
				v, ok := in.(ssa.Value)
				if !ok || isOut[v] || bigNamed(v.Type()) != kind {
					continue
				}
				switch x := in.(type) {
				case *ssa.Phi:
					for _, e := range x.Edges {
						if isOut[e] {
							isOut[v], ch = true, true
						}
					}
				case *ssa.Call:
					if cal := model.Unthunk(x.Call.StaticCallee()); cal != nil && cal.Signature.Recv() != nil && len(x.Call.Args) > 0 && isOut[x.Call.Args[0]] {
						isOut[v], ch = true, true
					}
				case *ssa.Alloc:
					if x.Heap {
						isOut[v], ch = true, true
					}
				}
			}
		}
	}
	return isOut
}

func bigNamedType(t types.Type) string {
	p, ok := t.(*types.Pointer)
	if !ok {
		return ""
	}
	n, ok := p.Elem().(*types.Named)
	if !ok || n.Obj().Pkg() == nil || n.Obj().Pkg().Path() != "math/big" {
		return ""
	}
	return n.Obj().Name()
}

// OUTPARAM <fn>/z/nil and Float/z/precision.
//
// (nil) Int, Rat and Float document that z may be nil: the parameter itself is the receiver of a
// math/big method only where it is known not to be nil (behind the non-nil edge of a test of it);
// everywhere else the receiver is the φ that the allocation joined.
//
// (precision) Float documents that a z of precision 0 gets max(⌈prec·log2(10)⌉, 64): the value
// read by z.Prec() reaches a SetPrec of the result only along the edge on which it was found
// non-zero (SetPrec(0) turns the result into 0).
func runOutParamNil(m *model.Model, s *ob.Set) {
	const R = "OUTPARAM"
	for _, name := range []string{"(*Decimal).Int", "(*Decimal).Rat", "(*Decimal).Float"} {
		fn := m.TryLookup(name)
		if fn == nil || len(fn.Params) < 2 {
			continue
		}
		z := fn.Params[1]
		if _, isPtr := z.Type().(*types.Pointer); !isPtr {
			continue
		}
		live := m.Live(fn)
		// tests of z against nil: the edge on which it is not nil
		type edge struct {
			b  *ssa.BasicBlock
			si int
		}
		var nonNil []edge
		for _, b := range fn.Blocks {
			if !live[b.Index] || len(b.Instrs) == 0 {
				continue
			}
			ifi, ok := b.Instrs[len(b.Instrs)-1].(*ssa.If)
			if !ok {
				continue
			}
			var walk func(c ssa.Value, tEdgeIsNil bool)
			bo, ok := ifi.Cond.(*ssa.BinOp)
			_ = walk
			if !ok || (bo.Op != token.EQL && bo.Op != token.NEQ) {
				continue
			}
			isNil := func(v ssa.Value) bool { c, ok := v.(*ssa.Const); return ok && c.IsNil() }
			if !((bo.X == ssa.Value(z) && isNil(bo.Y)) || (bo.Y == ssa.Value(z) && isNil(bo.X))) {
				continue
			}
			if bo.Op == token.EQL {
				nonNil = append(nonNil, edge{b, 1})
			} else {
				nonNil = append(nonNil, edge{b, 0})
			}
		}
		bad := ""
		uses := 0
		for _, b := range fn.Blocks {
			if !live[b.Index] {
				continue
			}
			for _, in := range b.Instrs {
				c, ok := in.(*ssa.Call)
				if !ok || len(c.Call.Args) == 0 || c.Call.Args[0] != ssa.Value(z) {
					continue
				}
				cal := model.Unthunk(c.Call.StaticCallee())
				if cal == nil || cal.Signature.Recv() == nil {
					continue
				}
				uses++
				ok2 := false
				for _, e := range nonNil {
					if m.EdgeDominates(e.b, e.si, b) {
						ok2 = true
					}
				}
				if !ok2 && bad == "" {
					bad = m.InstrPos(in) + ": " + cal.Name() + " is called on the parameter itself where it is not known to be non-nil: a nil z (documented: allocate) is dereferenced"
				}
			}
		}
		s.Check(bad == "", R, name+"/"+z.Name()+"/nil", m.Pos(fn.Pos()), fmt.Sprintf("%d method call(s) on the parameter itself, each behind a non-nil test", uses), bad)
	}
	// ---- Float: the sign of a zero result. A destination handed in keeps its sign through
	// SetPrec(0)/SetPrec(p) (math/big clears the value, not the sign), so where x is a zero the
	// destination is negated only behind a test that looks at the sign it has.
	if fn := m.TryLookup("(*Decimal).Float"); fn != nil && len(fn.Params) >= 2 {
		zeroK, _ := constant.Int64Val(m.PkgConst("zero"))
		live := m.Live(fn)
		var zeroEdges [][2]interface{}
		for _, b := range fn.Blocks {
			if !live[b.Index] || len(b.Instrs) == 0 {
				continue
			}
			ifi, ok := b.Instrs[len(b.Instrs)-1].(*ssa.If)
			if !ok {
				continue
			}
			bo, ok := ifi.Cond.(*ssa.BinOp)
			if !ok || (bo.Op != token.EQL && bo.Op != token.NEQ) {
				continue
			}
			lf, ok := m.LoadOfDecField(bo.X)
			k, okk := model.ConstInt(bo.Y)
			if !ok || !okk || lf.Field != m.F.Form || k != zeroK || !m.RefOf(lf.X).OnlyParam(0) {
				continue
			}
			si := 0
			if bo.Op == token.NEQ {
				si = 1
			}
			zeroEdges = append(zeroEdges, [2]interface{}{b, si})
		}
		n, bad := 0, ""
		for _, b := range fn.Blocks {
			if !live[b.Index] {
				continue
			}
			inZero := false
			for _, ze := range zeroEdges {
				zb, si := ze[0].(*ssa.BasicBlock), ze[1].(int)
				if (zb.Succs[si] == b && len(b.Preds) == 1) || m.EdgeDominates(zb, si, b) {
					inZero = true
				}
			}
			if !inZero {
				continue
			}
			for _, in := range b.Instrs {
				c, ok := in.(*ssa.Call)
				if !ok {
					continue
				}
				cal := model.Unthunk(c.Call.StaticCallee())
				if cal == nil || cal.Name() != "Neg" || cal.Pkg == nil || cal.Pkg.Pkg.Path() != "math/big" {
					continue
				}
				n++
				// the condition that leads here
				looks := false
				if len(b.Preds) == 1 {
					if ifi, ok := b.Preds[0].Instrs[len(b.Preds[0].Instrs)-1].(*ssa.If); ok {
						var walk func(v ssa.Value, d int)
						walk = func(v ssa.Value, d int) {
							if d == 0 || looks {
								return
							}
							if cc, ok := v.(*ssa.Call); ok {
								if c2 := model.Unthunk(cc.Call.StaticCallee()); c2 != nil && c2.Pkg != nil && c2.Pkg.Pkg.Path() == "math/big" && (c2.Name() == "Signbit" || c2.Name() == "Sign") {
									looks = true
									return
								}
							}
							if ii, ok := v.(ssa.Instruction); ok {
								var ops []*ssa.Value
								for _, o := range ii.Operands(ops) {
									if *o != nil {
										walk(*o, d-1)
									}
								}
							}
						}
						walk(ifi.Cond, 4)
					}
				}
				if !looks {
					bad = m.InstrPos(in) + ": for a zero x the destination is negated without a look at the sign it already has (a destination that held a negative value keeps its sign through SetPrec): +0 comes out as -0, or -0 as +0"
				}
			}
		}
		if n > 0 {
			s.Check(bad == "", R, "(*Decimal).Float/z/zero-sign", m.Pos(fn.Pos()), fmt.Sprintf("%d negation(s) of the destination for a zero x, each behind a test of the sign it has", n), bad)
		} else {
			s.Note(R, "(*Decimal).Float/z/zero-sign", m.Pos(fn.Pos()), "no negation of the destination on the zero branch (the sign is set some other way; not decided)")
		}
	}
	// ---- Float: a destination handed in keeps its rounding mode (Float64/Float32 rely on a
	// nearest-even destination of their own); only the allocation made for a nil z takes x's mode
	if fn := m.TryLookup("(*Decimal).Float"); fn != nil && len(fn.Params) >= 2 {
		z := fn.Params[1]
		n, bad := 0, ""
		mayBeParam := func(v ssa.Value) bool {
			if v == ssa.Value(z) {
				return true
			}
			if ph, ok := v.(*ssa.Phi); ok {
				for _, e := range ph.Edges {
					if e == ssa.Value(z) {
						return true
					}
				}
			}
			return false
		}
		for _, b := range fn.Blocks {
			for _, in := range b.Instrs {
				c, ok := in.(*ssa.Call)
				if !ok || len(c.Call.Args) == 0 {
					continue
				}
				cal := model.Unthunk(c.Call.StaticCallee())
				if cal == nil || cal.Name() != "SetMode" || cal.Pkg == nil || cal.Pkg.Pkg.Path() != "math/big" {
					continue
				}
				n++
				if mayBeParam(c.Call.Args[0]) {
					bad = m.InstrPos(in) + ": the rounding mode of a destination the caller handed in is overwritten with x's: Float64 and Float32 convert through a destination of their own that must round to nearest even, whatever mode x carries"
				}
			}
		}
		if n > 0 {
			s.Check(bad == "", R, "(*Decimal).Float/z/mode", m.Pos(fn.Pos()), fmt.Sprintf("%d SetMode call(s), only on the destination allocated for a nil z", n), bad)
		}
	}
	// ---- Float: precision 0
	if fn := m.TryLookup("(*Decimal).Float"); fn != nil && len(fn.Params) >= 2 {
		live := m.Live(fn)
		isPrecRead := func(v ssa.Value) bool {
			c, ok := stripConv(v).(*ssa.Call)
			if !ok {
				return false
			}
			cal := model.Unthunk(c.Call.StaticCallee())
			return cal != nil && cal.Name() == "Prec" && cal.Pkg != nil && cal.Pkg.Pkg.Path() == "math/big"
		}
		// edges on which a Prec() value is known non-zero
		nzEdge := func(v ssa.Value, at *ssa.BasicBlock, pred *ssa.BasicBlock) bool {
			for _, gb := range fn.Blocks {
				if !live[gb.Index] || len(gb.Instrs) == 0 {
					continue
				}
				ifi, ok := gb.Instrs[len(gb.Instrs)-1].(*ssa.If)
				if !ok {
					continue
				}
				bo, ok := ifi.Cond.(*ssa.BinOp)
				if !ok {
					continue
				}
				ze, ok := zeroOnEdge(bo, func(x ssa.Value) bool { return stripConv(x) == stripConv(v) })
				if !ok {
					continue
				}
				nz := 1 - ze
				if pred != nil {
					// the φ edge pred → at: the edge itself, or dominated by it
					if (gb == pred && gb.Succs[nz] == at && gb.Succs[ze] != at) || m.EdgeDominates(gb, nz, pred) {
						return true
					}
				} else if m.EdgeDominates(gb, nz, at) {
					return true
				}
			}
			return false
		}
		bad := ""
		n := 0
		var flows func(v ssa.Value, at *ssa.BasicBlock, pred *ssa.BasicBlock, seen map[ssa.Value]bool) string
		flows = func(v ssa.Value, at *ssa.BasicBlock, pred *ssa.BasicBlock, seen map[ssa.Value]bool) string {
			v = stripConv(v)
			if seen[v] {
				return ""
			}
			seen[v] = true
			switch x := v.(type) {
			case *ssa.Phi:
				for i, e := range x.Edges {
					if !live[x.Block().Preds[i].Index] {
						continue
					}
					if f := flows(e, x.Block(), x.Block().Preds[i], seen); f != "" {
						return f
					}
				}
			case *ssa.BinOp:
				if x.Op == token.ADD {
					if _, isK := model.ConstInt(x.Y); isK {
						if k, _ := model.ConstInt(x.Y); k > 0 {
							return "" // p + 1: not zero (wrap-around apart)
						}
					}
				}
			case *ssa.Call:
				if isPrecRead(x) && !nzEdge(x, at, pred) {
					return "the precision read from z reaches SetPrec along a path on which it was not found non-zero"
				}
			}
			return ""
		}
		for _, b := range fn.Blocks {
			if !live[b.Index] {
				continue
			}
			for _, in := range b.Instrs {
				c, ok := in.(*ssa.Call)
				if !ok || len(c.Call.Args) != 2 {
					continue
				}
				cal := model.Unthunk(c.Call.StaticCallee())
				if cal == nil || cal.Name() != "SetPrec" || cal.Pkg == nil || cal.Pkg.Pkg.Path() != "math/big" {
					continue
				}
				if _, isK := model.ConstInt(c.Call.Args[1]); isK {
					continue
				}
				n++
				if f := flows(c.Call.Args[1], b, nil, map[ssa.Value]bool{}); f != "" && bad == "" {
					bad = m.InstrPos(in) + ": " + f + " (a z of precision 0 must get max(⌈x.Prec()·log2(10)⌉, 64); SetPrec(0) makes the result 0)"
				}
			}
		}
		if n > 0 {
			s.Check(bad == "", R, "(*Decimal).Float/z/precision", m.Pos(fn.Pos()), fmt.Sprintf("%d SetPrec call(s) with a computed precision, none can be given z's own 0", n), bad)
		}
		// the result leaves with a precision: after the clearing SetPrec(0) every returning exit has
		// passed a SetPrec with a computed (non-zero, see above) precision
		isOut := outObjValues(fn, "Float", bigNamedType)
		nb := len(fn.Blocks)
		st := make([]int, nb) // 0 unreached, 1 precision given, 2 cleared / not given
		st[0] = 2
		stepP := func(b *ssa.BasicBlock, cur int, rec func(*ssa.Return, int)) int {
			for _, ins := range b.Instrs {
				switch x := ins.(type) {
				case *ssa.Call:
					cal := model.Unthunk(x.Call.StaticCallee())
					if cal == nil || cal.Name() != "SetPrec" || len(x.Call.Args) != 2 || !isOut[x.Call.Args[0]] {
						continue
					}
					if k, ok := model.ConstInt(x.Call.Args[1]); ok && k == 0 {
						cur = 2
					} else {
						cur = 1
					}
				case *ssa.Return:
					if rec != nil {
						rec(x, cur)
					}
				}
			}
			return cur
		}
		work := []int{0}
		for len(work) > 0 {
			bi := work[len(work)-1]
			work = work[:len(work)-1]
			if !live[bi] {
				continue
			}
			out := stepP(fn.Blocks[bi], st[bi], nil)
			for _, ed := range model.LiveSuccs(fn.Blocks[bi]) {
				if out > st[ed.To.Index] {
					st[ed.To.Index] = out
					work = append(work, ed.To.Index)
				}
			}
		}
		badP, nret, cleared := "", 0, false
		for _, b := range fn.Blocks {
			for _, ins := range b.Instrs {
				if c, ok := ins.(*ssa.Call); ok && len(c.Call.Args) == 2 {
					if cal := model.Unthunk(c.Call.StaticCallee()); cal != nil && cal.Name() == "SetPrec" && isOut[c.Call.Args[0]] {
						if k, ok := model.ConstInt(c.Call.Args[1]); ok && k == 0 {
							cleared = true
						}
					}
				}
			}
		}
		for bi, b := range fn.Blocks {
			if st[bi] == 0 || !live[bi] {
				continue
			}
			stepP(b, st[bi], func(r *ssa.Return, cur int) {
				if len(r.Results) == 0 {
					return
				}
				nret++
				if cur != 1 && badP == "" {
					badP = m.InstrPos(r) + ": the *big.Float is returned on a path that cleared it with SetPrec(0) and never gave it its precision back: the result has precision 0 (and with it the value 0)"
				}
			})
		}
		if cleared {
			s.Check(badP == "", R, "(*Decimal).Float/z/result-precision", m.Pos(fn.Pos()), fmt.Sprintf("%d returning exit(s), each behind a SetPrec with the computed precision", nret), badP)
		}
	}
}

// ---------------------------------------------------------------- SQRTSHAPE

func init() {
	Register(&Rule{Name: "SQRTSHAPE", Floor: 1, Run: runSqrtShape,
		Doc: "in sqrtInverse the value-producing final operation is an arithmetic method applied to the receiver itself (so that the receiver's precision and rounding mode govern the single final rounding), not a Set/copy from a temporary that was rounded under the temporary's attributes; the Newton iteration runs to a working precision above the receiver's"})
}

func runSqrtShape(m *model.Model, s *ob.Set) {
	const R = "SQRTSHAPE"
	fn := m.TryLookup("(*Decimal).sqrtInverse")
	if fn == nil {
		s.Note(R, "(*Decimal).sqrtInverse", "-", "function not found (the root is computed some other way; not decided)")
		return
	}
	runSqrtScratch(m, s, fn)
	reach := reachesRound(m)
	arith := map[string]bool{"(*Decimal).Mul": true, "(*Decimal).Quo": true, "(*Decimal).FMA": true, "(*Decimal).umul": true, "(*Decimal).uquo": true, "(*Decimal).Add": true, "(*Decimal).Sub": true}
	live := m.Live(fn)
	// backward from each return: the last call that may round anything
	var bad []string
	nret := 0
	for _, b := range fn.Blocks {
		if !live[b.Index] {
			continue
		}
		if _, ok := b.Instrs[len(b.Instrs)-1].(*ssa.Return); !ok {
			continue
		}
		nret++
		var last *ssa.Call
		// the return block and, if it has none, its unique dominator chain
		for cur := b; cur != nil && last == nil; {
			for i := len(cur.Instrs) - 1; i >= 0; i-- {
				c, ok := cur.Instrs[i].(*ssa.Call)
				if !ok {
					continue
				}
				cal := model.Unthunk(c.Call.StaticCallee())
				if cal == nil || reach[cal] == nil {
					continue
				}
				rounds := false
				for ai := range c.Call.Args {
					if reach[cal][ai] {
						rounds = true
					}
				}
				if rounds {
					last = c
					break
				}
			}
			if last == nil {
				if len(cur.Preds) == 1 {
					cur = cur.Preds[0]
				} else {
					d := m.Idom(fn)[cur.Index]
					if d < 0 || d == cur.Index {
						cur = nil
					} else {
						cur = fn.Blocks[d]
					}
				}
			}
		}
		if last == nil {
			bad = append(bad, m.InstrPos(b.Instrs[len(b.Instrs)-1])+": no rounding operation precedes this exit")
			continue
		}
		cal := model.Unthunk(last.Call.StaticCallee())
		if !arith[m.FuncName(cal)] || !m.RefOf(last.Call.Args[0]).OnlyParam(0) {
			bad = append(bad, fmt.Sprintf("%s: the last rounding step before the exit is %s on %s: the root must be produced by an arithmetic operation whose receiver is z itself, so that z's precision and rounding mode decide the one final rounding (a Set from a temporary rounds first under the temporary's mode)", m.InstrPos(last), m.FuncName(cal), types_ExprOf(last.Call.Args[0])))
		}
	}
	c := "(*Decimal).sqrtInverse/final-op"
	if len(bad) == 0 {
		s.Ok(R, c, m.Pos(fn.Pos()), fmt.Sprintf("%d exit(s): the last rounding step is an arithmetic method on the receiver", nret))
	} else {
		s.Bad(R, c, m.Pos(fn.Pos()), bad[0], bad[1:]...)
	}
	// working precision: z.prec + positive constant, if the code has that shape
	n, badk := 0, ""
	for _, b := range fn.Blocks {
		for _, in := range b.Instrs {
			bo, ok := in.(*ssa.BinOp)
			if !ok || bo.Op != token.ADD {
				continue
			}
			for _, pr := range [][2]ssa.Value{{bo.X, bo.Y}, {bo.Y, bo.X}} {
				lf, ok := m.LoadOfDecField(stripConv(pr[0]))
				if !ok || lf.Field != m.F.Prec || !m.RefOf(lf.X).OnlyParam(0) {
					continue
				}
				if k, ok := model.ConstInt(pr[1]); ok {
					n++
					if k < 1 {
						badk = m.InstrPos(bo) + ": the iteration target is the receiver's precision plus a non-positive constant"
					}
				}
			}
		}
	}
	if n > 0 {
		s.Check(badk == "", R, "(*Decimal).sqrtInverse/working-prec", m.Pos(fn.Pos()), "the iteration runs to the receiver's precision plus a positive constant", badk+": the reciprocal root carries no guard digits into the final multiplication")
	} else {
		s.Note(R, "(*Decimal).sqrtInverse/working-prec", m.Pos(fn.Pos()), "no `z.prec + constant` found (working precision computed some other way; not decided)")
	}
}

// runSqrtScratch: the temporaries of the Newton iteration — Decimals made inside sqrtInverse or
// by a constructor it calls — keep the zero value of the rounding mode (ToNearestEven). The
// error analysis of the iteration (two guard digits) assumes unbiased roundings of at most half
// a unit each; directed rounding of the temporaries adds up in one direction.
func runSqrtScratch(m *model.Model, s *ob.Set, fn *ssa.Function) {
	const R = "SQRTSHAPE"
	near, _ := constant.Int64Val(m.PkgConst("ToNearestEven"))
	setMode := m.TryLookup("(*Decimal).SetMode")
	fns := []*ssa.Function{fn}
	seen := map[*ssa.Function]bool{fn: true}
	for _, b := range fn.Blocks {
		for _, in := range b.Instrs {
			cal, _ := model.Callee(in)
			if cal == nil || seen[cal] || !m.InDecimalPkg(cal) || len(cal.Blocks) == 0 {
				continue
			}
			hasDec := false
			for _, p := range cal.Params {
				if m.IsDecPtr(p.Type()) {
					hasDec = true
				}
			}
			res := cal.Signature.Results()
			if hasDec || res.Len() != 1 || !m.IsDecPtr(res.At(0).Type()) {
				continue
			}
			seen[cal] = true
			fns = append(fns, cal)
		}
	}
	bad := ""
	for _, f := range fns {
		for _, b := range f.Blocks {
			for _, in := range b.Instrs {
				if cal, c := model.Callee(in); cal != nil && cal == setMode && len(c.Args) == 2 {
					if r := m.RefOf(c.Args[0]); r.Fresh && r.Params == 0 {
						if k, ok := model.ConstInt(c.Args[1]); !ok || k != near {
							bad = fmt.Sprintf("%s: a temporary of the iteration is given a rounding mode other than ToNearestEven", m.InstrPos(in))
						}
					}
					continue
				}
				st, ok := in.(*ssa.Store)
				if !ok {
					continue
				}
				fa, ok := m.DecField(st.Addr)
				if !ok || fa.Field != m.F.Mode {
					continue
				}
				if r := m.RefOf(fa.X); !r.Fresh || r.Params != 0 {
					continue
				}
				if k, ok := model.ConstInt(st.Val); ok && k == near {
					continue
				}
				bad = fmt.Sprintf("%s: a temporary of the iteration is given a rounding mode other than ToNearestEven", m.InstrPos(st))
			}
		}
	}
	s.Check(bad == "", R, "(*Decimal).sqrtInverse/scratch-mode", m.Pos(fn.Pos()), fmt.Sprintf("%d function(s) that make the temporaries; none changes their rounding mode", len(fns)), bad+": the roundings of the Newton steps are then biased in one direction and use up the guard digits")
}

func types_ExprOf(v ssa.Value) string {
	if v.Name() != "" {
		return v.Name()
	}
	return v.String()
}

// ---------------------------------------------------------------- PRECWRAP

func init() {
	Register(&Rule{Name: "PRECWRAP", Floor: 2, Run: runPrecWrap,
		Doc: "no uint32 addition/multiplication on a Decimal's precision that wraps for precisions near MaxPrec (= MaxUint32): widen first, or establish prec < MaxPrec on the way"})
}

// PRECWRAP …/clamp — a precision given by the caller as a uint becomes the 32-bit precision
// field only where it is known not to exceed MaxPrec: the narrowing conversion takes the
// parameter from the edge on which `prec > MaxPrec` failed, and the constant MaxPrec (or another
// constant) from the other (uint32(prec) of a larger value keeps the low 32 bits: New(1<<32 + 5)
// would work with 5 digits).
func runPrecClamp(m *model.Model, s *ob.Set) {
	const R = "PRECWRAP"
	maxPrec := m.PkgConst("MaxPrec")
	for _, fn := range m.Funcs {
		if !(m.InDecimalPkg(fn) || m.InContextPkg(fn)) || len(fn.Blocks) == 0 || fn.Synthetic != "" {
			continue
		}
		live := m.Live(fn)
		is64 := func(t types.Type) bool {
			b, ok := t.Underlying().(*types.Basic)
			return ok && (b.Kind() == types.Uint || b.Kind() == types.Uint64 || b.Kind() == types.Int || b.Kind() == types.Int64)
		}
		// on a 32-bit configuration uint and int are no wider than the field: nothing is cut off
		narrowHere := func(t types.Type) bool {
			b, _ := t.Underlying().(*types.Basic)
			return !(m.Cfg.Name == "386" && b != nil && (b.Kind() == types.Uint || b.Kind() == types.Int))
		}
		// parameters that are precisions: named prec, of a 64-bit integer type
		precParam := map[ssa.Value]bool{}
		for _, p := range fn.Params {
			if is64(p.Type()) && strings.Contains(strings.ToLower(p.Name()), "prec") {
				precParam[p] = true
			}
		}
		if len(precParam) == 0 {
			continue
		}
		// edges on which p <= MaxPrec is known
		bounded := func(p ssa.Value, at *ssa.BasicBlock, pred *ssa.BasicBlock) bool {
			for _, gb := range fn.Blocks {
				if !live[gb.Index] || len(gb.Instrs) == 0 {
					continue
				}
				ifi, ok := gb.Instrs[len(gb.Instrs)-1].(*ssa.If)
				if !ok {
					continue
				}
				bo, ok := ifi.Cond.(*ssa.BinOp)
				if !ok {
					continue
				}
				x, y, op := bo.X, bo.Y, bo.Op
				if stripConv(y) == p {
					x, y, op = y, x, mirrorOpTok[op]
				}
				c, isC := stripConv(y).(*ssa.Const)
				if stripConv(x) != p || !isC || c.Value == nil || c.Value.Kind() != constant.Int {
					continue
				}
				for si := 0; si < 2; si++ {
					o := op
					if si == 1 {
						o = negOp[o]
					}
					// p <= k or p < k with k <= MaxPrec(+1)
					okB := (o == token.LEQ && constant.Compare(c.Value, token.LEQ, maxPrec)) ||
						(o == token.LSS && constant.Compare(c.Value, token.LEQ, constant.BinaryOp(maxPrec, token.ADD, constant.MakeInt64(1))))
					if !okB {
						continue
					}
					if pred != nil {
						if (gb == pred && gb.Succs[si] == at && gb.Succs[1-si] != at) || m.EdgeDominates(gb, si, pred) {
							return true
						}
					} else if m.EdgeDominates(gb, si, at) {
						return true
					}
				}
			}
			return false
		}
		var check func(v ssa.Value, at, pred *ssa.BasicBlock, seen map[ssa.Value]bool) string
		check = func(v ssa.Value, at, pred *ssa.BasicBlock, seen map[ssa.Value]bool) string {
			v = stripConv(v)
			if seen[v] {
				return ""
			}
			seen[v] = true
			if bounded(v, at, pred) {
				return "" // whatever it was made of, here it is known not to exceed MaxPrec
			}
			if c, isC := v.(*ssa.Const); isC && c.Value != nil && c.Value.Kind() == constant.Int && !constant.Compare(c.Value, token.LEQ, maxPrec) {
				return "a constant above MaxPrec is narrowed to 32 bits"
			}
			if ph, ok := v.(*ssa.Phi); ok {
				for i, e := range ph.Edges {
					if !live[ph.Block().Preds[i].Index] {
						continue
					}
					if f := check(e, ph.Block(), ph.Block().Preds[i], seen); f != "" {
						return f
					}
				}
				return ""
			}
			if precParam[v] && !bounded(v, at, pred) {
				return "the precision parameter " + v.Name() + " is narrowed to 32 bits along a path on which it was not found to be at most MaxPrec"
			}
			return ""
		}
		nsites := 0
		bad := ""
		for _, b := range fn.Blocks {
			if !live[b.Index] {
				continue
			}
			for _, in := range b.Instrs {
				cv, ok := in.(*ssa.Convert)
				if !ok || !is64(cv.X.Type()) {
					continue
				}
				bt, ok := cv.Type().Underlying().(*types.Basic)
				if !ok || bt.Kind() != types.Uint32 {
					continue
				}
				// does a precision parameter reach it?
				reaches := false
				var walk func(v ssa.Value, seen map[ssa.Value]bool)
				walk = func(v ssa.Value, seen map[ssa.Value]bool) {
					v = stripConv(v)
					if seen[v] {
						return
					}
					seen[v] = true
					if precParam[v] {
						reaches = true
					}
					if ph, ok := v.(*ssa.Phi); ok {
						for _, e := range ph.Edges {
							walk(e, seen)
						}
					}
				}
				walk(cv.X, map[ssa.Value]bool{})
				if !reaches {
					continue
				}
				nsites++
				if !narrowHere(cv.X.Type()) {
					continue
				}
				if f := check(cv.X, b, nil, map[ssa.Value]bool{}); f != "" && bad == "" {
					bad = m.InstrPos(in) + ": " + f + " (uint32 of a larger value keeps its low 32 bits)"
				}
			}
		}
		if nsites > 0 {
			s.Check(bad == "", R, m.FuncName(fn)+"/clamp", m.Pos(fn.Pos()), fmt.Sprintf("%d narrowing(s) of a caller's precision, each behind the MaxPrec clamp", nsites), bad)
		}
	}
}

func runPrecWrap(m *model.Model, s *ob.Set) {
	const R = "PRECWRAP"
	runPrecClamp(m, s)
	tabled := map[string]string{
		"(*Decimal).round": "reached only when the mantissa holds more digits than z.prec; with z.prec > MaxUint32-19 that is a mantissa of more than 4·10^9 digits (226 million words)",
	}
	maxPrec := m.PkgConst("MaxPrec")
	n := 0
	wide := map[*ssa.Function]int{}
	narrowSeen := map[*ssa.Function]bool{}
	defer func() {
		var fns []*ssa.Function
		for fn := range wide {
			fns = append(fns, fn)
		}
		sort.Slice(fns, func(i, j int) bool { return m.FuncName(fns[i]) < m.FuncName(fns[j]) })
		for _, fn := range fns {
			if !narrowSeen[fn] {
				s.Ok(R, m.FuncName(fn), m.Pos(fn.Pos()), fmt.Sprintf("%d addition/multiplication(s) on a precision, all carried out in a 64-bit type", wide[fn]))
			}
		}
	}()
	for _, fn := range m.Funcs {
		if !m.InDecimalPkg(fn) {
			continue
		}
		live := m.Live(fn)
		var sites, countSites []*ssa.BinOp
		for _, b := range fn.Blocks {
			if !live[b.Index] {
				continue
			}
			for _, in := range b.Instrs {
				bo, ok := in.(*ssa.BinOp)
				if !ok || (bo.Op != token.ADD && bo.Op != token.MUL && bo.Op != token.SHL) {
					continue
				}
				bt, ok := bo.Type().Underlying().(*types.Basic)
				if !ok || bt.Info()&types.IsInteger == 0 {
					continue
				}
				narrow := false
				switch bt.Kind() {
				case types.Uint32, types.Int32, types.Uint16, types.Int16, types.Uint8, types.Int8:
					narrow = true
				case types.Uint, types.Int, types.Uintptr:
					narrow = m.Cfg.Name == "386"
				}
				isPrec := func(v ssa.Value) bool {
					lf, ok := m.LoadOfDecField(stripConv(v))
					return ok && lf.Field == m.F.Prec
				}
				if isPrec(bo.X) || isPrec(bo.Y) {
					if narrow {
						sites = append(sites, bo)
					} else {
						wide[fn]++
					}
					continue
				}
				// a count that is not bounded by the word size of the library — the bit length
				// of a big.Int, a digit count — narrowed to 32 bits and scaled by a constant in
				// 32-bit arithmetic: the product wraps from count = 2^32/c on (30103 × bits wraps
				// at 142 676 bits, a 43 000-digit integer)
				if narrow && bo.Op == token.MUL {
					isCount := func(v ssa.Value) bool {
						cv, ok := v.(*ssa.Convert)
						if !ok {
							return false
						}
						call, ok := stripConv(cv.X).(*ssa.Call)
						if !ok || model.BuiltinName(&call.Call) != "" {
							return false
						}
						rt, ok := call.Type().Underlying().(*types.Basic)
						return ok && rt.Info()&types.IsInteger != 0
					}
					c, other := int64(0), ssa.Value(nil)
					if k, ok := model.ConstInt(bo.Y); ok {
						c, other = k, bo.X
					} else if k, ok := model.ConstInt(bo.X); ok {
						c, other = k, bo.Y
					}
					if other != nil && c >= 16 && isCount(other) {
						countSites = append(countSites, bo)
					}
				}
			}
		}
		// functions that narrow a method's count to 32 bits at all are the instances of this clause
		narrowedCount := 0
		for _, b := range fn.Blocks {
			if !live[b.Index] {
				continue
			}
			for _, in := range b.Instrs {
				cv, ok := in.(*ssa.Convert)
				if !ok {
					continue
				}
				bt, ok := cv.Type().Underlying().(*types.Basic)
				if !ok || (bt.Kind() != types.Uint32 && bt.Kind() != types.Int32) {
					continue
				}
				if call, ok := stripConv(cv.X).(*ssa.Call); ok && model.BuiltinName(&call.Call) == "" {
					if rt, ok := call.Type().Underlying().(*types.Basic); ok && rt.Info()&types.IsInteger != 0 {
						narrowedCount++
					}
				}
			}
		}
		if narrowedCount > 0 && len(countSites) == 0 {
			s.Ok(R, m.FuncName(fn)+"/count", m.Pos(fn.Pos()), fmt.Sprintf("%d count(s) narrowed to 32 bits, none scaled by a constant in 32-bit arithmetic", narrowedCount))
		}
		if len(countSites) > 0 {
			bo := countSites[0]
			s.Bad(R, m.FuncName(fn)+"/count", m.InstrPos(bo), fmt.Sprintf("%s: a count returned by a method (a bit length, a digit count) is narrowed to 32 bits and multiplied by a constant in 32-bit arithmetic: the product wraps for large operands and the buffer or precision derived from it comes out too small", m.InstrPos(bo)))
		}
		if len(sites) == 0 {
			continue
		}
		narrowSeen[fn] = true
		n += len(sites)
		name := m.FuncName(fn)
		if why, ok := tabled[name]; ok {
			s.Note(R, name, m.InstrPos(sites[0]), fmt.Sprintf("%d site(s), tabled: %s", len(sites), why))
			continue
		}
		var bad []string
		for _, bo := range sites {
			// guarded: dominated by the edge of a comparison prec < MaxPrec / prec != MaxPrec
			guarded := false
			for _, gb := range fn.Blocks {
				if len(gb.Instrs) == 0 {
					continue
				}
				ifi, ok := gb.Instrs[len(gb.Instrs)-1].(*ssa.If)
				if !ok {
					continue
				}
				c, ok := ifi.Cond.(*ssa.BinOp)
				if !ok {
					continue
				}
				lf, okx := m.LoadOfDecField(stripConv(c.X))
				k, oky := c.Y.(*ssa.Const)
				if !okx || lf.Field != m.F.Prec || !oky || k.Value == nil || !constant.Compare(constant.ToInt(k.Value), token.EQL, maxPrec) {
					continue
				}
				edge := -1
				switch c.Op {
				case token.LSS, token.NEQ:
					edge = 0
				case token.GEQ, token.EQL:
					edge = 1
				}
				if edge >= 0 && m.EdgeDominates(gb, edge, bo.Block()) {
					guarded = true
				}
			}
			if !guarded {
				bad = append(bad, fmt.Sprintf("%s: uint32 arithmetic on a precision (%s) wraps for precisions within a few units of MaxPrec", m.InstrPos(bo), bo.Op))
			}
		}
		if len(bad) == 0 {
			s.Ok(R, name, m.InstrPos(sites[0]), fmt.Sprintf("%d site(s), each on a path where prec < MaxPrec is established", len(sites)))
		} else {
			s.Bad(R, name, m.InstrPos(sites[0]), bad[0], bad[1:]...)
		}
	}
	if n == 0 {
		s.Note(R, "package decimal", "-", "no uint32 arithmetic on a precision found")
	}
}

// ---------------------------------------------------------------- QUOLEN

func init() {
	Register(&Rule{Name: "QUOLEN", Floor: 1, Run: runQuoLen,
		Doc: "the number of quotient words uquo asks for is a pure integer function n(prec) of the receiver's precision; it must satisfy n(prec)*_DW > prec for every precision (room for prec digits plus the rounding digit), which is decided by evaluating the expression over two full periods of the word size and at the top of the precision range"})
}

// pureOfPrec evaluates v as a function of the receiver's precision p, if v is built only from
// the load of z.prec, integer constants, conversions and + - * / % << >>. Integer types wrap.
func pureOfPrec(m *model.Model, v ssa.Value, p uint64, depth int) (val *big.Int, ok bool) {
	if depth == 0 {
		return nil, false
	}
	wrap := func(x *big.Int, t types.Type) *big.Int {
		b, isb := t.Underlying().(*types.Basic)
		if !isb || b.Info()&types.IsInteger == 0 {
			return x
		}
		bits := uint(64)
		switch b.Kind() {
		case types.Int8, types.Uint8:
			bits = 8
		case types.Int16, types.Uint16:
			bits = 16
		case types.Int32, types.Uint32:
			bits = 32
		case types.Int, types.Uint, types.Uintptr:
			if m.Cfg.Name == "386" {
				bits = 32
			}
		}
		mod := new(big.Int).Lsh(big.NewInt(1), bits)
		r := new(big.Int).Mod(x, mod)
		if b.Info()&types.IsUnsigned == 0 && r.Bit(int(bits-1)) == 1 {
			r.Sub(r, mod)
		}
		return r
	}
	switch x := v.(type) {
	case *ssa.Const:
		if x.Value == nil || x.Value.Kind() != constant.Int {
			return nil, false
		}
		bi, ok := new(big.Int).SetString(x.Value.ExactString(), 10)
		return bi, ok
	case *ssa.UnOp:
		if lf, ok := m.LoadOfDecField(x); ok && lf.Field == m.F.Prec && m.RefOf(lf.X).OnlyParam(0) {
			return new(big.Int).SetUint64(p), true
		}
		return nil, false
	case *ssa.Convert:
		a, ok := pureOfPrec(m, x.X, p, depth-1)
		if !ok {
			return nil, false
		}
		return wrap(a, x.Type()), true
	case *ssa.ChangeType:
		return pureOfPrec(m, x.X, p, depth-1)
	case *ssa.BinOp:
		a, ok1 := pureOfPrec(m, x.X, p, depth-1)
		b, ok2 := pureOfPrec(m, x.Y, p, depth-1)
		if !ok1 || !ok2 {
			return nil, false
		}
		r := new(big.Int)
		switch x.Op {
		case token.ADD:
			r.Add(a, b)
		case token.SUB:
			r.Sub(a, b)
		case token.MUL:
			r.Mul(a, b)
		case token.QUO:
			if b.Sign() == 0 {
				return nil, false
			}
			r.Quo(a, b)
		case token.REM:
			if b.Sign() == 0 {
				return nil, false
			}
			r.Rem(a, b)
		case token.SHL:
			r.Lsh(a, uint(b.Uint64()))
		case token.SHR:
			r.Rsh(a, uint(b.Uint64()))
		default:
			return nil, false
		}
		return wrap(r, x.Type()), true
	}
	return nil, false
}

func runQuoLen(m *model.Model, s *ob.Set) {
	const R = "QUOLEN"
	fn := m.TryLookup("(*Decimal).uquo")
	if fn == nil {
		s.Note(R, "(*Decimal).uquo", "-", "function not found (the quotient is sized some other way; not decided)")
		return
	}
	dw, _ := constant.Int64Val(m.PkgConst("_DW"))
	maxPrec, _ := constant.Uint64Val(constant.ToInt(m.PkgConst("MaxPrec")))
	// maximal pure expressions of prec
	pure := map[ssa.Value]bool{}
	for _, b := range fn.Blocks {
		for _, in := range b.Instrs {
			v, ok := in.(ssa.Value)
			if !ok {
				continue
			}
			switch in.(type) {
			case *ssa.BinOp, *ssa.Convert:
				if _, ok := pureOfPrec(m, v, 7, 8); ok {
					pure[v] = true
				}
			}
		}
	}
	var roots []ssa.Value
	for v := range pure {
		isOperand := false
		if v.Referrers() != nil {
			for _, u := range *v.Referrers() {
				if uv, ok := u.(ssa.Value); ok && pure[uv] {
					isOperand = true
				}
			}
		}
		if !isOperand {
			roots = append(roots, v)
		}
	}
	if len(roots) == 0 {
		s.Note(R, "(*Decimal).uquo/words", m.Pos(fn.Pos()), "no pure function of the receiver's precision found in uquo (not decided)")
		return
	}
	var ps []uint64
	for p := uint64(1); p <= uint64(4*dw+5); p++ {
		ps = append(ps, p)
	}
	for p := maxPrec - uint64(2*dw); p <= maxPrec && p >= maxPrec-uint64(2*dw); p++ {
		ps = append(ps, p)
		if p == maxPrec {
			break
		}
	}
	bad := ""
	for _, r := range roots {
		for _, p := range ps {
			n, ok := pureOfPrec(m, r, p, 8)
			if !ok {
				continue
			}
			lhs := new(big.Int).Mul(n, big.NewInt(dw))
			if lhs.Cmp(new(big.Int).SetUint64(p)) <= 0 {
				bad = fmt.Sprintf("%s: for precision %d the word count is %s, i.e. %s digits: no room for the rounding digit (a quotient of exactly prec digits is taken for exact by round, whatever the remainder)", m.InstrPos(r.(ssa.Instruction)), p, n, lhs)
				break
			}
		}
	}
	s.Check(bad == "", R, "(*Decimal).uquo/words", m.Pos(fn.Pos()), fmt.Sprintf("n(prec)*_DW > prec for %d precisions (two periods of the word size and the top of the range)", len(ps)), bad)
}

// ---------------------------------------------------------------- NATLEN

func init() {
	Register(&Rule{Name: "NATLEN", Floor: 1, Run: runNatLen,
		Doc: "the number of binary words decToNat allocates is a pure function w(d) of the operand's digit count d; it must satisfy w(d)*_W >= bitlen(10^d - 1) (room for the largest d-digit integer), decided by evaluating the expression for d = 1..4000 and a few larger values against exact powers of ten"})
}

// evalNum evaluates v with one free variable (free(v) reports it): integers as *big.Int with the
// wrap-around of their type, float64 values as float64 — the two kinds the sizing formula mixes.
func evalNum(m *model.Model, v ssa.Value, free func(ssa.Value) bool, d int64, depth int) (interface{}, bool) {
	if depth == 0 {
		return nil, false
	}
	if free(v) {
		return big.NewInt(d), true
	}
	isFloat := func(t types.Type) bool {
		b, ok := t.Underlying().(*types.Basic)
		return ok && b.Info()&types.IsFloat != 0
	}
	toF := func(x interface{}) float64 {
		switch y := x.(type) {
		case float64:
			return y
		case *big.Int:
			f, _ := new(big.Float).SetInt(y).Float64()
			return f
		}
		return 0
	}
	switch x := v.(type) {
	case *ssa.Const:
		if x.Value == nil {
			return nil, false
		}
		if isFloat(x.Type()) {
			f, _ := constant.Float64Val(constant.ToFloat(x.Value))
			return f, true
		}
		if x.Value.Kind() == constant.Int {
			bi, ok := new(big.Int).SetString(x.Value.ExactString(), 10)
			return bi, ok
		}
		return nil, false
	case *ssa.Convert:
		a, ok := evalNum(m, x.X, free, d, depth-1)
		if !ok {
			return nil, false
		}
		if isFloat(x.Type()) {
			return toF(a), true
		}
		if f, isf := a.(float64); isf {
			bi, _ := new(big.Float).SetFloat64(math.Trunc(f)).Int(nil)
			return bi, true
		}
		return a, true
	case *ssa.ChangeType:
		return evalNum(m, x.X, free, d, depth-1)
	case *ssa.BinOp:
		a, ok1 := evalNum(m, x.X, free, d, depth-1)
		b, ok2 := evalNum(m, x.Y, free, d, depth-1)
		if !ok1 || !ok2 {
			return nil, false
		}
		if isFloat(x.Type()) {
			fa, fb := toF(a), toF(b)
			switch x.Op {
			case token.ADD:
				return fa + fb, true
			case token.SUB:
				return fa - fb, true
			case token.MUL:
				return fa * fb, true
			case token.QUO:
				return fa / fb, true
			}
			return nil, false
		}
		ia, oka := a.(*big.Int)
		ib, okb := b.(*big.Int)
		if !oka || !okb {
			return nil, false
		}
		r := new(big.Int)
		switch x.Op {
		case token.ADD:
			r.Add(ia, ib)
		case token.SUB:
			r.Sub(ia, ib)
		case token.MUL:
			r.Mul(ia, ib)
		case token.QUO:
			if ib.Sign() == 0 {
				return nil, false
			}
			r.Quo(ia, ib)
		case token.SHR:
			r.Rsh(ia, uint(ib.Uint64()))
		case token.SHL:
			r.Lsh(ia, uint(ib.Uint64()))
		default:
			return nil, false
		}
		return r, true
	case *ssa.Call:
		// math.Ceil / math.Floor of a float
		if cal := model.Unthunk(x.Call.StaticCallee()); cal != nil && cal.Pkg != nil && cal.Pkg.Pkg.Path() == "math" && len(x.Call.Args) == 1 {
			a, ok := evalNum(m, x.Call.Args[0], free, d, depth-1)
			if !ok {
				return nil, false
			}
			switch cal.Name() {
			case "Ceil":
				return math.Ceil(toF(a)), true
			case "Floor", "Trunc":
				return math.Floor(toF(a)), true
			}
		}
	}
	return nil, false
}

func runNatLen(m *model.Model, s *ob.Set) {
	const R = "NATLEN"
	fn := m.TryLookup("decToNat")
	if fn == nil {
		s.Note(R, "decToNat", "-", "function not found (not decided)")
		return
	}
	w, _ := constant.Int64Val(m.PkgConst("_W"))
	isDigits := func(v ssa.Value) bool {
		c, ok := stripConv(v).(*ssa.Call)
		if !ok {
			return false
		}
		cal := model.Unthunk(c.Call.StaticCallee())
		return cal != nil && m.FuncName(cal) == "dec.digits"
	}
	free := func(v ssa.Value) bool { return isDigits(v) && v == stripConv(v) }
	var sizes []ssa.Value
	for _, b := range fn.Blocks {
		for _, in := range b.Instrs {
			cal, c := model.Callee(in)
			if cal == nil || cal.Name() != "makeNat" || len(c.Args) != 2 {
				continue
			}
			if _, isConst := c.Args[1].(*ssa.Const); isConst {
				continue
			}
			sizes = append(sizes, c.Args[1])
		}
	}
	if len(sizes) == 0 {
		s.Note(R, "decToNat/words", m.Pos(fn.Pos()), "no makeNat call with a computed size found (not decided)")
		return
	}
	var ds []int64
	for d := int64(1); d <= 4000; d++ {
		ds = append(ds, d)
	}
	ds = append(ds, 10000, 19*1000, 50000)
	bad, evaluated := "", 0
	for _, sz := range sizes {
		if _, ok := evalNum(m, sz, free, 20, 10); !ok {
			continue
		}
		evaluated++
		ten := big.NewInt(10)
		for _, d := range ds {
			r, ok := evalNum(m, sz, free, d, 10)
			n, isInt := r.(*big.Int)
			if !ok || !isInt {
				continue
			}
			need := new(big.Int).Exp(ten, big.NewInt(d), nil)
			need.Sub(need, big.NewInt(1))
			have := new(big.Int).Mul(n, big.NewInt(w))
			if have.Cmp(big.NewInt(int64(need.BitLen()))) < 0 {
				bad = fmt.Sprintf("%s: for a %d-digit operand the formula gives %s words = %s bits, the largest %d-digit integer needs %d bits: the top word is dropped silently", m.InstrPos(sz.(ssa.Instruction)), d, n, have, d, need.BitLen())
				break
			}
		}
	}
	if evaluated == 0 {
		s.Note(R, "decToNat/words", m.Pos(fn.Pos()), "the size passed to makeNat is not a closed formula of digits() (not decided)")
		return
	}
	s.Check(bad == "", R, "decToNat/words", m.Pos(fn.Pos()), fmt.Sprintf("w(d)*_W >= bitlen(10^d-1) for %d digit counts", len(ds)), bad)
}

// ---------------------------------------------------------------- ROUNDSHAPE

func init() {
	Register(&Rule{Name: "ROUNDSHAPE", Floor: 1, Run: runRoundShape,
		Doc: "in round, every exit reached after the mantissa was cut or incremented passes through the store that clears the digits below the precision in the lowest kept word (mant[0] reduced by a value derived from the power of ten lsd), unless the exit is the overflow to infinity: otherwise a finite result keeps non-zero digits beyond its precision"})
}

func runRoundShape(m *model.Model, s *ob.Set) {
	const R = "ROUNDSHAPE"
	fn := m.TryLookup("(*Decimal).round")
	if fn == nil {
		s.Note(R, "(*Decimal).round", "-", "function not found (not decided)")
		return
	}
	finite, _ := constant.Int64Val(m.PkgConst("finite"))
	pow10 := m.TryLookup("pow10")
	fromPow10 := func(v ssa.Value) bool {
		seen := map[ssa.Value]bool{}
		var walk func(v ssa.Value, d int) bool
		walk = func(v ssa.Value, d int) bool {
			if d == 0 || seen[v] {
				return false
			}
			seen[v] = true
			if c, ok := v.(*ssa.Call); ok && pow10 != nil && model.Unthunk(c.Call.StaticCallee()) == pow10 {
				return true
			}
			if in, ok := v.(ssa.Instruction); ok {
				var ops []*ssa.Value
				for _, o := range in.Operands(ops) {
					if *o != nil && walk(*o, d-1) {
						return true
					}
				}
			}
			return false
		}
		return walk(v, 8)
	}
	type st struct{ reached, dirty, cleared, inf bool }
	n := len(fn.Blocks)
	in := make([]st, n)
	in[0] = st{reached: true, cleared: true, inf: true} // must-bits start true and are cut by joins; see below
	in[0].cleared, in[0].inf = false, false
	isClear := func(ins ssa.Instruction) bool {
		sto, ok := ins.(*ssa.Store)
		if !ok {
			return false
		}
		ia, ok := sto.Addr.(*ssa.IndexAddr)
		if !ok || !m.IsWordSlice(ia.X.Type()) {
			return false
		}
		if k, ok := model.ConstInt(ia.Index); !ok || k != 0 {
			return false
		}
		isMant := false
		for l := range m.RootsOf(ia.X) {
			if l == "P0.mant" {
				isMant = true
			}
		}
		return isMant && fromPow10(sto.Val)
	}
	step := func(b *ssa.BasicBlock, s0 st, onRet func(*ssa.Return, st)) st {
		cur := s0
		for _, ins := range b.Instrs {
			switch x := ins.(type) {
			case *ssa.Store:
				if fa, ok := m.DecField(x.Addr); ok && m.RefOf(fa.X).OnlyParam(0) {
					if fa.Field == m.F.Mant {
						cur.dirty = true
						cur.cleared = false
					}
					if fa.Field == m.F.Form {
						if k, ok := model.ConstInt(x.Val); ok && k != finite {
							cur.inf = true
						}
					}
				}
				if isClear(ins) {
					cur.cleared = true
				}
			case *ssa.Call:
				if cal := model.Unthunk(x.Call.StaticCallee()); cal != nil && carryKernels[cal.Name()] && len(x.Call.Args) > 0 {
					for l := range m.RootsOf(x.Call.Args[0]) {
						if l == "P0.mant" {
							cur.dirty = true
							cur.cleared = false
						}
					}
				}
			case *ssa.Return:
				if onRet != nil {
					onRet(x, cur)
				}
			}
		}
		return cur
	}
	live := m.Live(fn)
	work := []int{0}
	for len(work) > 0 {
		bi := work[len(work)-1]
		work = work[:len(work)-1]
		if !live[bi] {
			continue
		}
		out := step(fn.Blocks[bi], in[bi], nil)
		for _, ed := range model.LiveSuccs(fn.Blocks[bi]) {
			t := ed.To.Index
			nv := out
			if in[t].reached {
				// "cleared, or an infinity (whose digits nobody looks at)" is what an exit needs: a way
				// that set the form to Inf and one that cleared the digits may meet in front of it
				nv = st{true, in[t].dirty || out.dirty, (in[t].cleared || in[t].inf) && (out.cleared || out.inf), in[t].inf && out.inf}
			}
			if nv != in[t] {
				in[t] = nv
				work = append(work, t)
			}
		}
	}
	var bad []string
	nret, hasClear := 0, false
	for _, b := range fn.Blocks {
		for _, ins := range b.Instrs {
			if isClear(ins) {
				hasClear = true
			}
		}
	}
	for bi, b := range fn.Blocks {
		if !in[bi].reached || !live[bi] {
			continue
		}
		step(b, in[bi], func(r *ssa.Return, cur st) {
			nret++
			if cur.dirty && !cur.cleared && !cur.inf {
				bad = append(bad, fmt.Sprintf("%s: this exit is reached after the mantissa was cut or incremented without the digits below the precision having been cleared in the lowest word (and the result is not an infinity)", m.InstrPos(r)))
			}
		})
	}
	// the word written after the all-nines carry is the most significant word of the CUT mantissa:
	// its index is (high bound of the cut) - 1
	{
		top := constant.BinaryOp(m.PkgConst("_DB"), token.QUO_ASSIGN, constant.MakeInt64(10))
		var cutHigh ssa.Value
		for _, b := range fn.Blocks {
			for _, ins := range b.Instrs {
				if sl, ok := ins.(*ssa.Slice); ok && sl.High != nil && m.IsWordSlice(sl.X.Type()) {
					if sl.Low == nil {
						for l := range m.RootsOf(sl.X) {
							if l == "P0.mant" {
								cutHigh = sl.High
							}
						}
					}
				}
			}
		}
		nst, badIdx := 0, ""
		for _, b := range fn.Blocks {
			for _, ins := range b.Instrs {
				sto, ok := ins.(*ssa.Store)
				if !ok {
					continue
				}
				k, ok := sto.Val.(*ssa.Const)
				if !ok || k.Value == nil || k.Value.Kind() != constant.Int || !constant.Compare(k.Value, token.EQL, top) {
					continue
				}
				ia, ok := sto.Addr.(*ssa.IndexAddr)
				if !ok || !m.IsWordSlice(ia.X.Type()) {
					continue
				}
				nst++
				okIdx := false
				if sub, ok := ia.Index.(*ssa.BinOp); ok && sub.Op == token.SUB && cutHigh != nil {
					if one, ok := model.ConstInt(sub.Y); ok && one == 1 && structEq(stripConv(sub.X), stripConv(cutHigh), 6) {
						okIdx = true
					}
				}
				if !okIdx {
					badIdx = m.InstrPos(sto) + ": the leading word 10^(_DW-1) is stored at an index that is not (length of the cut mantissa) - 1"
				}
			}
		}
		if nst > 0 && cutHigh != nil {
			s.Check(badIdx == "", R, "(*Decimal).round/carry-word", m.Pos(fn.Pos()), "after the all-nines carry the top word of the cut mantissa is set", badIdx+": the rounded-up power of ten gets a zero top word (or the store is out of range)")
		}
	}
	c := "(*Decimal).round/low-digits-cleared"
	if !hasClear {
		s.Note(R, c, m.Pos(fn.Pos()), "no store of the form mant[0] = f(mant[0], pow10(…)) found (the low digits are cleared some other way; not decided)")
		return
	}
	if len(bad) == 0 {
		s.Ok(R, c, m.Pos(fn.Pos()), fmt.Sprintf("%d exit(s): every finite exit after a cut/increment passes the clearing store", nret))
	} else {
		s.Bad(R, c, m.Pos(fn.Pos()), bad[0], bad[1:]...)
	}
}

// ---------------------------------------------------------------- ROUNDONCE

func init() {
	Register(&Rule{Name: "ROUNDONCE", Floor: 5, Run: runRoundOnce,
		Doc: "the operations documented to round their result once apply at most one operation that may round to the receiver on any path (SetRat: the numerator must not be converted into the receiver at the receiver's precision before the division)"})
}

func runRoundOnce(m *model.Model, s *ob.Set) {
	const R = "ROUNDONCE"
	runExactOperands(m, s)
	for _, n := range []string{"Add", "Sub", "Mul", "Quo", "Set", "SetInt", "SetInt64", "SetUint64", "setBits64", "SetRat", "SetMantExp", "SetBitsExp", "Neg", "Abs", "umul", "uquo", "uadd", "usub"} {
		fn := m.TryLookup("(*Decimal)." + n)
		if fn == nil {
			continue
		}
		c := "(*Decimal)." + n
		if bad := roundedTwice(m, fn, 0); bad != "" {
			s.Bad(R, c, m.Pos(fn.Pos()), bad+": the value is rounded twice (the second rounding does not see the digits the first one dropped, and the accuracy reported is that of the second only)")
		} else {
			s.Ok(R, c, m.Pos(fn.Pos()), "no path applies two rounding operations to the receiver")
		}
	}
}

// ---------------------------------------------------------------- STICKY, MUSTUSE

func init() {
	Register(&Rule{Name: "STICKY", Floor: 1, Run: runStickyShape,
		Doc: "dec.sticky answers 0 (no non-zero digit below position i) only on paths that have run the loop over all lower words to its end, or for an empty operand: an early `return 0` before that loop hides non-zero digits from every rounding decision"})
	Register(&Rule{Name: "MUSTUSE", Floor: 3, Run: runMustUse,
		Doc: "every normal exit of uadd, usub, umul and uquo is preceded by a dec-layer operation that takes the mantissas of BOTH operands: a path that produces its result from one operand alone (a `y is negligible` fast path) drops digits that can still carry into the rounding position"})
}

func runStickyShape(m *model.Model, s *ob.Set) {
	const R = "STICKY"
	fn := m.TryLookup("dec.sticky")
	if fn == nil {
		s.Note(R, "dec.sticky", "-", "function not found (not decided)")
		return
	}
	live := m.Live(fn)
	// loop headers: blocks on a cycle that end in an If or are the target of a back edge
	var loopBlocks []*ssa.BasicBlock
	for _, b := range fn.Blocks {
		if live[b.Index] && blockReaches(b, b) {
			loopBlocks = append(loopBlocks, b)
		}
	}
	if len(loopBlocks) == 0 {
		s.Note(R, "dec.sticky/zero-after-scan", m.Pos(fn.Pos()), "no loop over the lower words found (written some other way; not decided)")
		return
	}
	bad, nz := "", 0
	for _, b := range fn.Blocks {
		if !live[b.Index] {
			continue
		}
		r, ok := b.Instrs[len(b.Instrs)-1].(*ssa.Return)
		if !ok || len(r.Results) != 1 {
			continue
		}
		if k, ok := model.ConstInt(r.Results[0]); !ok || k != 0 {
			continue
		}
		nz++
		// dominated by the loop (some loop block dominates this exit), i.e. reached only through it
		viaLoop := false
		for _, lb := range loopBlocks {
			if m.Dominates(lb, b) {
				viaLoop = true
			}
		}
		if viaLoop {
			continue
		}
		// or: the operand is empty (len(x) == 0 on the dominating edge)
		empty := false
		for _, gb := range fn.Blocks {
			if len(gb.Instrs) == 0 {
				continue
			}
			ifi, ok := gb.Instrs[len(gb.Instrs)-1].(*ssa.If)
			if !ok {
				continue
			}
			bo, ok := ifi.Cond.(*ssa.BinOp)
			if !ok {
				continue
			}
			isLen := func(v ssa.Value) bool {
				c, ok := stripConv(v).(*ssa.Call)
				return ok && model.BuiltinName(&c.Call) == "len" && c.Call.Args[0] == ssa.Value(fn.Params[0])
			}
			// the operand is empty, however the test is written (== 0, < 1, <= 0, !(> 0) ...)
			if e, ok := zeroOnEdge(bo, isLen); ok && m.EdgeDominates(gb, e, b) {
				empty = true
			}
			// or: the caller asked about zero digits (the digit-count PARAMETER itself is 0, not
			// the remainder of its division by the word size)
			if len(fn.Params) > 1 {
				isP1 := func(v ssa.Value) bool { return v == ssa.Value(fn.Params[1]) }
				if e, ok := zeroOnEdge(bo, isP1); ok && m.EdgeDominates(gb, e, b) {
					empty = true
				}
			}
		}
		if !empty {
			bad = m.InstrPos(r) + ": `return 0` is reachable without the scan of the lower words having run to its end"
		}
	}
	if nz == 0 {
		s.Note(R, "dec.sticky/zero-after-scan", m.Pos(fn.Pos()), "no `return 0` found (not decided)")
		return
	}
	s.Check(bad == "", R, "dec.sticky/zero-after-scan", m.Pos(fn.Pos()), fmt.Sprintf("%d `return 0` exit(s), each behind the scan of the lower words (or for an empty operand)", nz), bad+": non-zero digits in lower words are reported as absent (wrong ToNearestEven ties, inexact results reported Exact)")
}

// zeroOnEdge: the comparison establishes V == 0 on the returned edge, for a V that cannot be
// negative (a length or an unsigned count): V == 0, V < 1, V <= 0 on the true edge; V != 0, V >= 1,
// V > 0 on the false edge; and the mirrored forms with the constant on the left.
func zeroOnEdge(bo *ssa.BinOp, isV func(ssa.Value) bool) (int, bool) {
	x, y, op := bo.X, bo.Y, bo.Op
	if _, isC := x.(*ssa.Const); isC {
		x, y = y, x
		switch op {
		case token.LSS:
			op = token.GTR
		case token.GTR:
			op = token.LSS
		case token.LEQ:
			op = token.GEQ
		case token.GEQ:
			op = token.LEQ
		}
	}
	k, ok := model.ConstInt(y)
	if !ok || !isV(x) {
		return 0, false
	}
	switch {
	case op == token.EQL && k == 0, op == token.LSS && k == 1, op == token.LEQ && k == 0:
		return 0, true
	case op == token.NEQ && k == 0, op == token.GEQ && k == 1, op == token.GTR && k == 0:
		return 1, true
	}
	return 0, false
}

func runMustUse(m *model.Model, s *ob.Set) {
	const R = "MUSTUSE"
	for _, n := range []string{"uadd", "usub", "umul", "uquo"} {
		fn := m.TryLookup("(*Decimal)." + n)
		if fn == nil || len(fn.Params) < 3 {
			continue
		}
		live := m.Live(fn)
		nb := len(fn.Blocks)
		// must-analysis: a call taking word slices rooted in both P1.mant and P2.mant has happened
		in := make([]int, nb) // 0 unreached, 1 both used, 2 not yet
		in[0] = 2
		// data taint: a word slice carries operand k's digits if it is rooted in Pk.mant, was
		// produced by a dec-layer call from a slice that does (t := shl(y.mant, s)), or was loaded
		// from z.mant after such a value had been stored there earlier in the same block
		taint := [3]map[ssa.Value]bool{nil, {}, {}}
		carries := func(v ssa.Value, k int) bool {
			if taint[k][v] {
				return true
			}
			switch x := v.(type) {
			case *ssa.Slice:
				if taint[k][x.X] {
					return true
				}
			case *ssa.ChangeType:
				if taint[k][x.X] {
					return true
				}
			}
			if lf, ok := m.LoadOfDecField(stripConv(v)); ok && lf.Field == m.F.Mant && m.RefOf(lf.X).OnlyParam(0) {
				return false // z.mant: only what the block-local tracking says
			}
			for l := range m.RootsOf(v) {
				if l == fmt.Sprintf("P%d.mant", k) {
					return true
				}
			}
			return false
		}
		step := func(b *ssa.BasicBlock, v int, onRet func(*ssa.Return, int)) int {
			cell := [3]bool{}
			for _, ins := range b.Instrs {
				switch x := ins.(type) {
				case *ssa.Store:
					if fa, ok := m.DecField(x.Addr); ok && fa.Field == m.F.Mant && m.RefOf(fa.X).OnlyParam(0) {
						cell[1], cell[2] = carries(x.Val, 1), carries(x.Val, 2)
					}
				case *ssa.UnOp:
					if lf, ok := m.LoadOfDecField(x); ok && lf.Field == m.F.Mant && m.RefOf(lf.X).OnlyParam(0) {
						for k := 1; k <= 2; k++ {
							if cell[k] {
								taint[k][x] = true
							}
						}
					}
				case *ssa.Slice:
					for k := 1; k <= 2; k++ {
						if carries(x.X, k) {
							taint[k][x] = true
						}
					}
				case *ssa.ChangeType:
					for k := 1; k <= 2; k++ {
						if carries(x.X, k) {
							taint[k][x] = true
						}
					}
				case *ssa.Phi:
					for k := 1; k <= 2; k++ {
						for _, e := range x.Edges {
							if carries(e, k) {
								taint[k][x] = true
							}
						}
					}
				case *ssa.Extract:
					for k := 1; k <= 2; k++ {
						if carries(x.Tuple, k) {
							taint[k][x] = true
						}
					}
				case *ssa.Call:
					cal := model.Unthunk(x.Call.StaticCallee())
					if cal == nil || !m.InDecimalPkg(cal) {
						continue
					}
					hx, hy := false, false
					for _, a := range x.Call.Args {
						if !m.IsWordSlice(a.Type()) {
							continue
						}
						hx = hx || carries(a, 1)
						hy = hy || carries(a, 2)
					}
					if hx {
						taint[1][x] = true
					}
					if hy {
						taint[2][x] = true
					}
					if hx && hy {
						v = 1
					}
					// squaring: x*x is computed from one mantissa (umul takes this path for x == y)
					if (hx || hy) && m.FuncName(cal) == "dec.sqr" {
						v = 1
					}
				case *ssa.Return:
					if onRet != nil {
						onRet(x, v)
					}
				}
			}
			return v
		}
		work := []int{0}
		for len(work) > 0 {
			bi := work[len(work)-1]
			work = work[:len(work)-1]
			if !live[bi] {
				continue
			}
			out := step(fn.Blocks[bi], in[bi], nil)
			for _, ed := range model.LiveSuccs(fn.Blocks[bi]) {
				if out > in[ed.To.Index] {
					in[ed.To.Index] = out
					work = append(work, ed.To.Index)
				}
			}
		}
		bad, nret := "", 0
		for bi, b := range fn.Blocks {
			if in[bi] == 0 || !live[bi] {
				continue
			}
			step(b, in[bi], func(r *ssa.Return, v int) {
				nret++
				if v != 1 {
					bad = m.InstrPos(r) + ": this exit is reached on a path where no dec-layer operation has combined the mantissas of both operands"
				}
			})
		}
		c := "(*Decimal)." + n
		s.Check(bad == "", R, c, m.Pos(fn.Pos()), fmt.Sprintf("%d exit(s), each after an operation on both mantissas", nret), bad+": the result is built from one operand alone")
	}
}

// ---------------------------------------------------------------- WORKPREC

func init() {
	Register(&Rule{Name: "WORKPREC", Floor: 1, Run: runWorkPrec,
		Doc: "the precision given to a temporary (SetPrec on a big.Float or a Decimal) is derived from a destination's Prec(), never from MinPrec() — the digits an operand happens to hold now say nothing about the accuracy the result needs"})
}

// runWorkPrec: every SetPrec whose argument is computed (not a constant) is followed back through
// arithmetic, conversions, φs and max/min: reaching a call of MinPrec is a violation.
// runWorkPrecGuard: where the precision of a temporary comes out of a helper of the receiver
// (z.workPrec()), the helper is evaluated at a handful of precisions by constant propagation: the
// temporary carries at least one whole word of digits more than the receiver, up to MaxPrec. A
// result below that at any sample is reported; a result the propagation cannot fold is not decided.
func runWorkPrecGuard(m *model.Model, s *ob.Set) {
	const R = "WORKPREC"
	dw, _ := constant.Int64Val(m.PkgConst("_DW"))
	maxPrec, _ := constant.Int64Val(m.PkgConst("MaxPrec"))
	seen := map[*ssa.Function]bool{}
	for _, fn := range m.Funcs {
		if !m.InDecimalPkg(fn) || len(fn.Blocks) == 0 || fn.Synthetic != "" {
			continue
		}
		for _, b := range fn.Blocks {
			for _, in := range b.Instrs {
				call, ok := in.(*ssa.Call)
				if !ok {
					continue
				}
				cal := model.Unthunk(call.Call.StaticCallee())
				if cal == nil || cal.Name() != "SetPrec" || cal.Signature.Recv() == nil || len(call.Call.Args) != 2 {
					continue
				}
				hc, ok := stripConv(call.Call.Args[1]).(*ssa.Call)
				if !ok {
					continue
				}
				h := model.Unthunk(hc.Call.StaticCallee())
				if h == nil || seen[h] || !m.InDecimalPkg(h) || len(h.Blocks) == 0 || len(h.Params) != 1 || !m.IsDecPtr(h.Params[0].Type()) || h.Object() == nil || h.Object().Exported() {
					continue
				}
				if bt, ok := h.Signature.Results().At(0).Type().Underlying().(*types.Basic); h.Signature.Results().Len() != 1 || !ok || bt.Info()&types.IsUnsigned == 0 {
					continue
				}
				seen[h] = true
				bad, undecided, n := "", 0, 0
				for _, k := range []int64{1, 17, 20, 37, 1000, maxPrec - dw - 1, maxPrec - 3, maxPrec} {
					if k < 1 {
						continue
					}
					it := cdai.New(m)
					it.Budget = 20000
					st := cdai.NewState()
					z := st.NewObj()
					for f := range m.FieldN {
						st.Set(z, f, cdai.TopV)
					}
					st.Set(z, m.F.Prec, cdai.Int(k))
					var outs []cdai.Outcome
					func() {
						defer func() {
							if recover() != nil {
								outs = nil
							}
						}()
						outs = it.Run(h, []cdai.Val{z}, st)
					}()
					want := k + dw
					if want > maxPrec {
						want = maxPrec
					}
					n++
					if len(outs) == 0 {
						undecided++
						continue
					}
					for _, o := range outs {
						v, ok := retInt(o, 0)
						if !ok {
							undecided++
							break
						}
						if v < want && bad == "" {
							bad = fmt.Sprintf("for a receiver of precision %d %s gives %d; the temporary must carry a whole word of digits more than the receiver (%d, at most MaxPrec): the powers of two it is used for are inexact, and the digits beyond the receiver's are what keeps their error out of the result", k, h.Name(), v, want)
						}
					}
				}
				cn := m.FuncName(h) + "/guard-word"
				switch {
				case bad != "":
					s.Bad(R, cn, m.Pos(h.Pos()), bad)
				case undecided > 0:
					s.Note(R, cn, m.Pos(h.Pos()), fmt.Sprintf("not folded to a constant at %d of %d sample precisions (not decided)", undecided, n))
				default:
					s.Ok(R, cn, m.Pos(h.Pos()), fmt.Sprintf("at %d sample precisions the temporary has the receiver's precision plus one word, at most MaxPrec", n))
				}
			}
		}
	}
}

func runWorkPrec(m *model.Model, s *ob.Set) {
	const R = "WORKPREC"
	runWorkPrecGuard(m, s)
	for _, fn := range m.Funcs {
		if !m.InDecimalPkg(fn) || len(fn.Blocks) == 0 || fn.Synthetic != "" {
			continue
		}
		live := m.Live(fn)
		n := 0
		var bad []string
		for _, b := range fn.Blocks {
			if !live[b.Index] {
				continue
			}
			for _, in := range b.Instrs {
				call, ok := in.(*ssa.Call)
				if !ok {
					continue
				}
				cal := model.Unthunk(call.Call.StaticCallee())
				if cal == nil || cal.Name() != "SetPrec" || cal.Signature.Recv() == nil || len(call.Call.Args) != 2 {
					continue
				}
				arg := call.Call.Args[1]
				if _, isC := arg.(*ssa.Const); isC {
					continue
				}
				n++
				seen := map[ssa.Value]bool{}
				var fromMin func(v ssa.Value, d int) bool
				fromMin = func(v ssa.Value, d int) bool {
					if d == 0 || seen[v] {
						return false
					}
					seen[v] = true
					switch x := v.(type) {
					case *ssa.Call:
						if c2 := model.Unthunk(x.Call.StaticCallee()); c2 != nil && c2.Name() == "MinPrec" && c2.Signature.Recv() != nil {
							return true
						}
						if bn := model.BuiltinName(&x.Call); bn == "max" || bn == "min" {
							for _, a := range x.Call.Args {
								if fromMin(a, d-1) {
									return true
								}
							}
						}
						if c2 := model.Unthunk(x.Call.StaticCallee()); c2 != nil && m.InDecimalPkg(c2) && (c2.Name() == "max" || c2.Name() == "min" || c2.Name() == "umax32") {
							for _, a := range x.Call.Args {
								if fromMin(a, d-1) {
									return true
								}
							}
						}
					case *ssa.BinOp:
						return fromMin(x.X, d-1) || fromMin(x.Y, d-1)
					case *ssa.Convert:
						return fromMin(x.X, d-1)
					case *ssa.ChangeType:
						return fromMin(x.X, d-1)
					case *ssa.Phi:
						for _, e := range x.Edges {
							if fromMin(e, d-1) {
								return true
							}
						}
					}
					return false
				}
				if fromMin(arg, 8) && !(m.FuncName(fn) == "(*Decimal).Append" && appendTableDecided(m)) {
					bad = append(bad, fmt.Sprintf("%s: the precision of a temporary is computed from MinPrec(): the number of digits an operand holds at the moment, not the precision the result has to be accurate to", m.InstrPos(in)))
				}
			}
		}
		if n == 0 {
			continue
		}
		if len(bad) == 0 {
			s.Ok(R, m.FuncName(fn), m.Pos(fn.Pos()), fmt.Sprintf("%d computed SetPrec argument(s), none derived from MinPrec()", n))
		} else {
			s.Bad(R, m.FuncName(fn), m.Pos(fn.Pos()), bad[0], bad[1:]...)
		}
	}
}

// runExactOperands: a temporary Decimal that an operation fills from an integer (SetInt, SetInt64,
// SetUint64 — exact when the temporary has no precision of its own) in order to use it as an
// operand must not have been given a precision first: the conversion would round, and the
// operation that follows rounds again (SetRat's numerator and denominator).
func runExactOperands(m *model.Model, s *ob.Set) {
	const R = "ROUNDONCE"
	for _, fn := range m.Funcs {
		if !m.InDecimalPkg(fn) || len(fn.Blocks) == 0 || fn.Synthetic != "" {
			continue
		}
		live := m.Live(fn)
		n := 0
		var bad []string
		for _, b := range fn.Blocks {
			if !live[b.Index] {
				continue
			}
			for _, in := range b.Instrs {
				call, ok := in.(*ssa.Call)
				if !ok {
					continue
				}
				cal := model.Unthunk(call.Call.StaticCallee())
				if cal == nil || len(call.Call.Args) == 0 {
					continue
				}
				switch m.FuncName(cal) {
				case "(*Decimal).SetInt", "(*Decimal).SetInt64", "(*Decimal).SetUint64":
				default:
					continue
				}
				r := m.RefOf(call.Call.Args[0])
				if !r.Fresh || r.Params != 0 || r.Global || r.Unknown || len(r.Allocs) != 1 {
					continue
				}
				// a small constant (the 2 of pow2's squaring loop) is exact at any precision
				if len(call.Call.Args) == 2 {
					if _, isK := model.ConstInt(call.Call.Args[1]); isK {
						continue
					}
				}
				n++
				al := r.Allocs[0]
				// a precision given to the same object in front of the conversion
				for _, b2 := range fn.Blocks {
					if !live[b2.Index] {
						continue
					}
					for _, in2 := range b2.Instrs {
						if in2 == in || !m.Reaches(in2, in) {
							continue
						}
						if c2, ok := in2.(*ssa.Call); ok {
							if k2 := model.Unthunk(c2.Call.StaticCallee()); k2 != nil && m.FuncName(k2) == "(*Decimal).SetPrec" && len(c2.Call.Args) == 2 {
								r2 := m.RefOf(c2.Call.Args[0])
								if len(r2.Allocs) == 1 && r2.Allocs[0] == al {
									if k, isK := model.ConstInt(c2.Call.Args[1]); !isK || k != 0 {
										bad = append(bad, fmt.Sprintf("%s: the temporary is given a precision (%s) and then filled from an integer at %s: the integer is rounded before it is used as an operand", m.InstrPos(in2), exprKey(m, c2.Call.Args[1], 3), m.InstrPos(in)))
									}
								}
							}
						}
						if st, ok := in2.(*ssa.Store); ok {
							if fa, ok := m.DecField(st.Addr); ok && fa.Field == m.F.Prec {
								r2 := m.RefOf(fa.X)
								if len(r2.Allocs) == 1 && r2.Allocs[0] == al {
									if k, isK := model.ConstInt(st.Val); !isK || k != 0 {
										bad = append(bad, fmt.Sprintf("%s: the temporary's precision is set and it is then filled from an integer at %s", m.InstrPos(in2), m.InstrPos(in)))
									}
								}
							}
						}
					}
				}
			}
		}
		if n == 0 {
			continue
		}
		c := m.FuncName(fn) + "/exact-operands"
		if len(bad) == 0 {
			s.Ok(R, c, m.Pos(fn.Pos()), fmt.Sprintf("%d temporar(ies) filled from an integer, none given a precision first", n))
		} else {
			s.Bad(R, c, m.Pos(fn.Pos()), bad[0]+": the operation rounds twice (operands first, then the result)", bad[1:]...)
		}
	}
}
