package rules

// OUTPARAM — Int(z *big.Int), Rat(z *big.Rat) and Float(z *big.Float) accept a caller-supplied
// result object. On every exit that returns it, every component of that object must have been
// (re)defined by the call: a component left as the caller handed it in makes the result depend
// on the previous contents (x/oldDenominator for Rat). A must-analysis over the CFG: the bit
// "fully defined" is set by allocating the object, by a whole-value setter of math/big, or (Rat)
// by writing the denominator through Denom(); read-modify-write methods (Neg, Quo, Mul, SetMantExp,
// SetPrec(p != 0), Num().SetBits) do not set it.

import (
	"fmt"
	"go/constant"
	"go/token"
	"go/types"
	"sort"

	"golang.org/x/tools/go/ssa"

	"decverif/internal/model"
	"decverif/internal/ob"
)

func init() {
	Register(&Rule{Name: "OUTPARAM", Floor: 2, Run: runOutParam,
		Doc: "the caller-supplied result of Int, Rat and Float is completely redefined on every exit that returns it (whole-value setter of math/big, fresh allocation, or — for Rat — an explicit write of the denominator)"})
}

func runOutParam(m *model.Model, s *ob.Set) {
	const R = "OUTPARAM"
	whole := map[string]map[string]bool{
		"Int":   {"SetBits": true, "SetInt64": true, "SetUint64": true, "Set": true, "SetString": true, "SetBytes": true},
		"Rat":   {"SetInt": true, "SetInt64": true, "SetUint64": true, "SetFrac": true, "SetFrac64": true, "Set": true, "SetString": true, "SetFloat64": true},
		"Float": {"SetInt": true, "SetInt64": true, "SetUint64": true, "SetFloat64": true, "Set": true, "SetRat": true, "SetInf": true, "SetString": true, "Copy": true},
	}
	bigNamed := func(t types.Type) string {
		p, ok := t.(*types.Pointer)
		if !ok {
			return ""
		}
		n, ok := p.Elem().(*types.Named)
		if !ok || n.Obj().Pkg() == nil || n.Obj().Pkg().Path() != "math/big" {
			return ""
		}
		return n.Obj().Name()
	}
	for _, name := range []string{"(*Decimal).Int", "(*Decimal).Rat", "(*Decimal).Float"} {
		fn := m.TryLookup(name)
		if fn == nil || len(fn.Params) < 2 {
			continue
		}
		kind := bigNamed(fn.Params[1].Type())
		if whole[kind] == nil {
			continue
		}
		// values that denote the out-parameter object: the parameter, φs of it, results of math/big
		// methods called on it that return their receiver (chaining)
		isOut := map[ssa.Value]bool{fn.Params[1]: true}
		for ch := true; ch; {
			ch = false
			for _, b := range fn.Blocks {
				for _, in := range b.Instrs {
					v, ok := in.(ssa.Value)
					if !ok || isOut[v] || bigNamed(v.Type()) != kind {
						continue
					}
					switch x := in.(type) {
					case *ssa.Phi:
						for _, e := range x.Edges {
							if isOut[e] {
								isOut[v], ch = true, true
							}
						}
					case *ssa.Call:
						if cal := x.Call.StaticCallee(); cal != nil && cal.Signature.Recv() != nil && len(x.Call.Args) > 0 && isOut[x.Call.Args[0]] {
							isOut[v], ch = true, true
						}
					case *ssa.Alloc:
						// new(big.X) assigned to the result variable: joins the φ
						if x.Heap {
							isOut[v], ch = true, true
						}
					}
				}
			}
		}
		live := m.Live(fn)
		n := len(fn.Blocks)
		in := make([]int, n) // 0 unreached, 1 defined, 2 not (yet) defined
		in[0] = 2
		step := func(b *ssa.BasicBlock, st int, rec func(*ssa.Return, int)) int {
			for _, ins := range b.Instrs {
				switch x := ins.(type) {
				case *ssa.Alloc:
					if x.Heap && bigNamed(x.Type()) == kind {
						st = 1
					}
				case *ssa.Call:
					cal := x.Call.StaticCallee()
					if cal == nil || cal.Signature.Recv() == nil || len(x.Call.Args) == 0 {
						continue
					}
					recv := x.Call.Args[0]
					if isOut[recv] {
						if whole[kind][cal.Name()] {
							st = 1
						}
						if kind == "Float" && cal.Name() == "SetPrec" {
							if k, ok := model.ConstInt(x.Call.Args[1]); ok && k == 0 {
								st = 1 // documented: the value becomes 0
							}
						}
						continue
					}
					// z.Denom().SetBits(...): a write of the denominator through its accessor
					if kind == "Rat" && bigNamed(recv.Type()) == "Int" {
						if c2, ok := recv.(*ssa.Call); ok {
							if cc := c2.Call.StaticCallee(); cc != nil && cc.Name() == "Denom" && len(c2.Call.Args) > 0 && isOut[c2.Call.Args[0]] {
								if whole["Int"][cal.Name()] {
									st = 1
								}
							}
						}
					}
				case *ssa.Return:
					if rec != nil {
						rec(x, st)
					}
				}
			}
			return st
		}
		work := []int{0}
		for len(work) > 0 {
			bi := work[len(work)-1]
			work = work[:len(work)-1]
			if !live[bi] {
				continue
			}
			out := step(fn.Blocks[bi], in[bi], nil)
			for _, ed := range model.LiveSuccs(fn.Blocks[bi]) {
				if out > in[ed.To.Index] {
					in[ed.To.Index] = out
					work = append(work, ed.To.Index)
				}
			}
		}
		var bad []string
		nret := 0
		for bi, b := range fn.Blocks {
			if in[bi] == 0 || !live[bi] {
				continue
			}
			step(b, in[bi], func(r *ssa.Return, st int) {
				if len(r.Results) == 0 {
					return
				}
				if c, ok := r.Results[0].(*ssa.Const); ok && c.IsNil() {
					return
				}
				nret++
				if st != 1 {
					what := "the result object"
					if kind == "Rat" {
						what = "the denominator of the result"
					}
					bad = append(bad, fmt.Sprintf("%s: %s is returned without having been redefined on every path: a caller-supplied %s keeps part of its previous value", m.InstrPos(r), what, "*big."+kind))
				}
			})
		}
		c := name + "/" + fn.Params[1].Name()
		if len(bad) == 0 {
			s.Ok(R, c, m.Pos(fn.Pos()), fmt.Sprintf("%d returning exit(s), the *big.%s is fully redefined on each", nret, kind))
		} else {
			s.Bad(R, c, m.Pos(fn.Pos()), bad[0], bad[1:]...)
		}
	}
}

// ---------------------------------------------------------------- SQRTSHAPE

func init() {
	Register(&Rule{Name: "SQRTSHAPE", Floor: 1, Run: runSqrtShape,
		Doc: "in sqrtInverse the value-producing final operation is an arithmetic method applied to the receiver itself (so that the receiver's precision and rounding mode govern the single final rounding), not a Set/copy from a temporary that was rounded under the temporary's attributes; the Newton iteration runs to a working precision above the receiver's"})
}

func runSqrtShape(m *model.Model, s *ob.Set) {
	const R = "SQRTSHAPE"
	fn := m.TryLookup("(*Decimal).sqrtInverse")
	if fn == nil {
		s.Note(R, "(*Decimal).sqrtInverse", "-", "function not found (the root is computed some other way; not decided)")
		return
	}
	reach := reachesRound(m)
	arith := map[string]bool{"(*Decimal).Mul": true, "(*Decimal).Quo": true, "(*Decimal).FMA": true, "(*Decimal).umul": true, "(*Decimal).uquo": true, "(*Decimal).Add": true, "(*Decimal).Sub": true}
	live := m.Live(fn)
	// backward from each return: the last call that may round anything
	var bad []string
	nret := 0
	for _, b := range fn.Blocks {
		if !live[b.Index] {
			continue
		}
		if _, ok := b.Instrs[len(b.Instrs)-1].(*ssa.Return); !ok {
			continue
		}
		nret++
		var last *ssa.Call
		// the return block and, if it has none, its unique dominator chain
		for cur := b; cur != nil && last == nil; {
			for i := len(cur.Instrs) - 1; i >= 0; i-- {
				c, ok := cur.Instrs[i].(*ssa.Call)
				if !ok {
					continue
				}
				cal := c.Call.StaticCallee()
				if cal == nil || reach[cal] == nil {
					continue
				}
				rounds := false
				for ai := range c.Call.Args {
					if reach[cal][ai] {
						rounds = true
					}
				}
				if rounds {
					last = c
					break
				}
			}
			if last == nil {
				if len(cur.Preds) == 1 {
					cur = cur.Preds[0]
				} else {
					d := m.Idom(fn)[cur.Index]
					if d < 0 || d == cur.Index {
						cur = nil
					} else {
						cur = fn.Blocks[d]
					}
				}
			}
		}
		if last == nil {
			bad = append(bad, m.InstrPos(b.Instrs[len(b.Instrs)-1])+": no rounding operation precedes this exit")
			continue
		}
		cal := last.Call.StaticCallee()
		if !arith[m.FuncName(cal)] || !m.RefOf(last.Call.Args[0]).OnlyParam(0) {
			bad = append(bad, fmt.Sprintf("%s: the last rounding step before the exit is %s on %s: the root must be produced by an arithmetic operation whose receiver is z itself, so that z's precision and rounding mode decide the one final rounding (a Set from a temporary rounds first under the temporary's mode)", m.InstrPos(last), m.FuncName(cal), types_ExprOf(last.Call.Args[0])))
		}
	}
	c := "(*Decimal).sqrtInverse/final-op"
	if len(bad) == 0 {
		s.Ok(R, c, m.Pos(fn.Pos()), fmt.Sprintf("%d exit(s): the last rounding step is an arithmetic method on the receiver", nret))
	} else {
		s.Bad(R, c, m.Pos(fn.Pos()), bad[0], bad[1:]...)
	}
	// working precision: z.prec + positive constant, if the code has that shape
	n, badk := 0, ""
	for _, b := range fn.Blocks {
		for _, in := range b.Instrs {
			bo, ok := in.(*ssa.BinOp)
			if !ok || bo.Op != token.ADD {
				continue
			}
			for _, pr := range [][2]ssa.Value{{bo.X, bo.Y}, {bo.Y, bo.X}} {
				lf, ok := m.LoadOfDecField(stripConv(pr[0]))
				if !ok || lf.Field != m.F.Prec || !m.RefOf(lf.X).OnlyParam(0) {
					continue
				}
				if k, ok := model.ConstInt(pr[1]); ok {
					n++
					if k < 1 {
						badk = m.InstrPos(bo) + ": the iteration target is the receiver's precision plus a non-positive constant"
					}
				}
			}
		}
	}
	if n > 0 {
		s.Check(badk == "", R, "(*Decimal).sqrtInverse/working-prec", m.Pos(fn.Pos()), "the iteration runs to the receiver's precision plus a positive constant", badk+": the reciprocal root carries no guard digits into the final multiplication")
	} else {
		s.Note(R, "(*Decimal).sqrtInverse/working-prec", m.Pos(fn.Pos()), "no `z.prec + constant` found (working precision computed some other way; not decided)")
	}
}

func types_ExprOf(v ssa.Value) string {
	if v.Name() != "" {
		return v.Name()
	}
	return v.String()
}

// ---------------------------------------------------------------- PRECWRAP

func init() {
	Register(&Rule{Name: "PRECWRAP", Floor: 2, Run: runPrecWrap,
		Doc: "no uint32 addition/multiplication on a Decimal's precision that wraps for precisions near MaxPrec (= MaxUint32): widen first, or establish prec < MaxPrec on the way"})
}

func runPrecWrap(m *model.Model, s *ob.Set) {
	const R = "PRECWRAP"
	tabled := map[string]string{
		"(*Decimal).round": "reached only when the mantissa holds more digits than z.prec; with z.prec > MaxUint32-19 that is a mantissa of more than 4·10^9 digits (226 million words)",
	}
	maxPrec := m.PkgConst("MaxPrec")
	n := 0
	wide := map[*ssa.Function]int{}
	narrowSeen := map[*ssa.Function]bool{}
	defer func() {
		var fns []*ssa.Function
		for fn := range wide {
			fns = append(fns, fn)
		}
		sort.Slice(fns, func(i, j int) bool { return m.FuncName(fns[i]) < m.FuncName(fns[j]) })
		for _, fn := range fns {
			if !narrowSeen[fn] {
				s.Ok(R, m.FuncName(fn), m.Pos(fn.Pos()), fmt.Sprintf("%d addition/multiplication(s) on a precision, all carried out in a 64-bit type", wide[fn]))
			}
		}
	}()
	for _, fn := range m.Funcs {
		if !m.InDecimalPkg(fn) {
			continue
		}
		live := m.Live(fn)
		var sites []*ssa.BinOp
		for _, b := range fn.Blocks {
			if !live[b.Index] {
				continue
			}
			for _, in := range b.Instrs {
				bo, ok := in.(*ssa.BinOp)
				if !ok || (bo.Op != token.ADD && bo.Op != token.MUL && bo.Op != token.SHL) {
					continue
				}
				bt, ok := bo.Type().Underlying().(*types.Basic)
				if !ok || bt.Info()&types.IsInteger == 0 {
					continue
				}
				narrow := false
				switch bt.Kind() {
				case types.Uint32, types.Int32, types.Uint16, types.Int16, types.Uint8, types.Int8:
					narrow = true
				case types.Uint, types.Int, types.Uintptr:
					narrow = m.Cfg.Name == "386"
				}
				isPrec := func(v ssa.Value) bool {
					lf, ok := m.LoadOfDecField(stripConv(v))
					return ok && lf.Field == m.F.Prec
				}
				if isPrec(bo.X) || isPrec(bo.Y) {
					if narrow {
						sites = append(sites, bo)
					} else {
						wide[fn]++
					}
				}
			}
		}
		if len(sites) == 0 {
			continue
		}
		narrowSeen[fn] = true
		n += len(sites)
		name := m.FuncName(fn)
		if why, ok := tabled[name]; ok {
			s.Note(R, name, m.InstrPos(sites[0]), fmt.Sprintf("%d site(s), tabled: %s", len(sites), why))
			continue
		}
		var bad []string
		for _, bo := range sites {
			// guarded: dominated by the edge of a comparison prec < MaxPrec / prec != MaxPrec
			guarded := false
			for _, gb := range fn.Blocks {
				if len(gb.Instrs) == 0 {
					continue
				}
				ifi, ok := gb.Instrs[len(gb.Instrs)-1].(*ssa.If)
				if !ok {
					continue
				}
				c, ok := ifi.Cond.(*ssa.BinOp)
				if !ok {
					continue
				}
				lf, okx := m.LoadOfDecField(stripConv(c.X))
				k, oky := c.Y.(*ssa.Const)
				if !okx || lf.Field != m.F.Prec || !oky || k.Value == nil || !constant.Compare(constant.ToInt(k.Value), token.EQL, maxPrec) {
					continue
				}
				edge := -1
				switch c.Op {
				case token.LSS, token.NEQ:
					edge = 0
				case token.GEQ, token.EQL:
					edge = 1
				}
				if edge >= 0 && m.EdgeDominates(gb, edge, bo.Block()) {
					guarded = true
				}
			}
			if !guarded {
				bad = append(bad, fmt.Sprintf("%s: uint32 arithmetic on a precision (%s) wraps for precisions within a few units of MaxPrec", m.InstrPos(bo), bo.Op))
			}
		}
		if len(bad) == 0 {
			s.Ok(R, name, m.InstrPos(sites[0]), fmt.Sprintf("%d site(s), each on a path where prec < MaxPrec is established", len(sites)))
		} else {
			s.Bad(R, name, m.InstrPos(sites[0]), bad[0], bad[1:]...)
		}
	}
	if n == 0 {
		s.Note(R, "package decimal", "-", "no uint32 arithmetic on a precision found")
	}
}
