package rules

// OVERLAP (direction) — a shift kernel that is called with a destination that may share its array
// with the source at a *different offset* must walk in the direction that reads each source word
// before the destination overwrites it: destination above the source (dec.shl: z[n-m:] against x)
// needs a descending walk, destination below the source (dec.shr: z against x[m-n:]) an ascending
// one. The requirement is read off the call sites of the dec layer (methods whose destination
// comes from the receiver's buffer, with no alias test in front of the call); the direction off
// the loop of the portable twin that stores z[i] (step of i) and off the assembly loop that stores
// through the destination register (sign of the index step, by symbolic evaluation of the body).

import (
	"fmt"
	"go/token"
	"go/types"
	"sort"
	"strings"

	"golang.org/x/tools/go/ssa"

	"decverif/internal/model"
	"decverif/internal/ob"
)

func runOverlapDir(m *model.Model, s *ob.Set) {
	const R = "OVERLAP"
	need := map[string]int{} // kernel name -> +1 ascending, -1 descending, 2 conflicting
	where := map[string]string{}
	wherePos := map[string]string{}
	for _, fn := range m.Funcs {
		if !m.InDecimalPkg(fn) || len(fn.Blocks) == 0 || inKernelLayer(m, fn) || fn.Signature.Recv() == nil || len(fn.Params) < 2 || !m.IsWordSlice(fn.Params[0].Type()) {
			continue
		}
		live := m.Live(fn)
		for _, b := range fn.Blocks {
			if !live[b.Index] {
				continue
			}
			for _, in := range b.Instrs {
				call, ok := in.(*ssa.Call)
				if !ok {
					continue
				}
				cal := model.Unthunk(call.Call.StaticCallee())
				if cal == nil || !m.InDecimalPkg(cal) || !carryKernels[cal.Name()] || len(call.Call.Args) < 3 {
					continue
				}
				// the shift kernels only (third parameter a shift count, not a word): they are the
				// ones the dec layer uses in place at an offset; the element-wise kernels are kept
				// apart from their operands by the alias guards (ALIASGUARD)
				if bt, ok := cal.Signature.Params().At(2).Type().Underlying().(*types.Basic); !ok || bt.Kind() != types.Uint {
					continue
				}
				d, sarg := call.Call.Args[0], call.Call.Args[1]
				if !m.IsWordSlice(sarg.Type()) {
					continue
				}
				lowOf := func(v ssa.Value) (base ssa.Value, low ssa.Value) {
					v = stripConvAny(v)
					if sl, ok := v.(*ssa.Slice); ok {
						return stripConvAny(sl.X), sl.Low
					}
					return v, nil
				}
				db, dl := lowOf(d)
				sb, sl := lowOf(sarg)
				if db == sb {
					continue // same base value: the in-place relation is OVERLAP's offsets clause
				}
				// destination from the receiver's buffer, source from another parameter
				dr, sr := m.RootsOf(db), m.RootsOf(sb)
				if !dr["P0"] || sr["P0"] || len(sr) == 0 {
					continue
				}
				// no alias test in front of the call
				guarded := false
				for _, gb := range fn.Blocks {
					if len(gb.Instrs) == 0 {
						continue
					}
					ifi, ok := gb.Instrs[len(gb.Instrs)-1].(*ssa.If)
					if !ok {
						continue
					}
					if c, ok := ifi.Cond.(*ssa.Call); ok {
						if gc := model.Unthunk(c.Call.StaticCallee()); gc != nil && (gc.Name() == "alias" || gc.Name() == "same") && (m.EdgeDominates(gb, 0, b) || m.EdgeDominates(gb, 1, b)) {
							guarded = true
						}
					}
				}
				if guarded {
					continue
				}
				dir := 0
				nonzero := func(v ssa.Value) bool {
					if v == nil {
						return false
					}
					k, ok := model.ConstInt(v)
					return !ok || k != 0
				}
				switch {
				case nonzero(dl) && !nonzero(sl):
					dir = -1
				case !nonzero(dl) && nonzero(sl):
					dir = +1
				default:
					continue
				}
				k := cal.Name()
				if need[k] != 0 && need[k] != dir {
					need[k] = 2
				} else {
					need[k] = dir
				}
				where[k] = m.FuncName(fn) + " (" + m.InstrPos(in) + ")"
				wherePos[k] = m.InstrPos(in)
			}
		}
	}
	var ks []string
	for k := range need {
		ks = append(ks, k)
	}
	sort.Strings(ks)
	dirName := map[int]string{1: "ascending", -1: "descending"}
	for _, k := range ks {
		c := "direction/" + k
		if need[k] == 2 {
			s.Note(R, c, "-", "called both with the destination above and below the source: no single safe direction (not decided)")
			continue
		}
		// portable twin
		var twin *ssa.Function
		for _, fn := range m.Funcs {
			if m.InDecimalPkg(fn) && len(fn.Blocks) > 0 && (fn.Name() == k+"_g") {
				twin = fn
			}
		}
		var got []string
		ok := true
		if twin != nil {
			d := goLoopDir(m, twin)
			got = append(got, fmt.Sprintf("%s walks %s", twin.Name(), dirName[d]))
			if d != 0 && d != need[k] {
				ok = false
			}
			if d == 0 {
				got[len(got)-1] = twin.Name() + ": direction not read (no loop storing z[i] with a ±1 step)"
			}
		}
		// assembly twin (amd64 configuration)
		if m.Cfg.Name == "amd64" {
			f := decAsmFile(m)
			if t := f.text("·" + k); t != nil {
				d, desc := asmLoopDir(t, f.defines)
				got = append(got, desc)
				if d != 0 && d != need[k] {
					ok = false
				}
			}
		}
		s.Check(ok, R, c, wherePos[k], fmt.Sprintf("needs a %s walk (call in %s); %s", dirName[need[k]], where[k], strings.Join(got, "; ")),
			fmt.Sprintf("%s is called from %s with a destination %s the source in what may be the same array, which needs a %s walk, but: %s — words of the source are overwritten before they are read", k, where[k], map[int]string{-1: "above", 1: "below"}[need[k]], dirName[need[k]], strings.Join(got, "; ")))
	}
	if len(ks) == 0 {
		s.Note(R, "direction", "-", "no kernel call with a destination at another offset than a possibly aliasing source")
	}
}

// goLoopDir: +1 / −1 if every loop of fn that stores z[i] (z the first parameter) steps i that way.
func goLoopDir(m *model.Model, fn *ssa.Function) int {
	dir := 0
	for _, b := range fn.Blocks {
		for _, in := range b.Instrs {
			st, ok := in.(*ssa.Store)
			if !ok {
				continue
			}
			ia, ok := st.Addr.(*ssa.IndexAddr)
			if !ok || !m.IsWordSlice(ia.X.Type()) || !m.RootsOf(ia.X)["P0"] {
				continue
			}
			// the index, possibly i-1 / i+1
			idx := stripConv(ia.Index)
			if bo, ok := idx.(*ssa.BinOp); ok && (bo.Op == token.ADD || bo.Op == token.SUB) {
				idx = stripConv(bo.X)
			}
			ph, ok := idx.(*ssa.Phi)
			if !ok || !blockReaches(ph.Block(), ph.Block()) {
				continue
			}
			for _, e := range ph.Edges {
				bo, ok := e.(*ssa.BinOp)
				if !ok || bo.X != ssa.Value(ph) {
					continue
				}
				k, ok := model.ConstInt(bo.Y)
				if !ok {
					continue
				}
				d := 0
				switch {
				case bo.Op == token.ADD && k > 0, bo.Op == token.SUB && k < 0:
					d = 1
				case bo.Op == token.SUB && k > 0, bo.Op == token.ADD && k < 0:
					d = -1
				}
				if d != 0 {
					if dir != 0 && dir != d {
						return 0
					}
					dir = d
				}
			}
		}
	}
	return dir
}

// asmLoopDir: the sign of the index step of the loops of t that store through an indexed address.
func asmLoopDir(t *asmText, defines map[string]string) (int, string) {
	dir := 0
	n := 0
	for _, body := range asmLoops(t) {
		idxReg := ""
		for _, in := range body {
			if isLaneStore(in) {
				if mm := reLaneMem.FindStringSubmatch(in.args[1]); mm != nil {
					idxReg = mm[3]
				}
			}
		}
		if idxReg == "" {
			continue
		}
		st := newSymState(defines)
		st.run(body)
		if st.unknown != "" {
			continue
		}
		fin := st.r(idxReg)
		// in:REG + #k
		k, ok := int64(0), false
		if fin.op == "add" && len(fin.args) == 2 {
			for _, a := range fin.args {
				if a.isC() {
					k, ok = int64(a.k), true
				}
			}
		}
		if !ok || k == 0 {
			continue
		}
		n++
		d := 1
		if k < 0 {
			d = -1
		}
		if dir != 0 && dir != d {
			return 0, t.name + ": loops walk in both directions"
		}
		dir = d
	}
	if dir == 0 {
		return 0, t.name + ": direction not read"
	}
	return dir, fmt.Sprintf("%s walks %s (%d loop(s))", t.name, map[int]string{1: "ascending", -1: "descending"}[dir], n)
}
