package rules

// SIBLING — twin helpers of the dec layer that differ only in the direction of the operation
// (decKaratsubaAdd / decKaratsubaSub: the same shape, one built on add10VV + add10VW, the other on
// sub10VV + sub10VW) must hand their kernels the same windows: the i-th kernel call of one and the
// i-th of the other take slices with the same bounds, as linear forms over the parameters. A
// window that is right in one twin and half as long in the other is a slip in one of them
// (cross-checking of sibling implementations).

import (
	"fmt"
	"sort"
	"strings"

	"golang.org/x/tools/go/ssa"

	"decverif/internal/model"
	"decverif/internal/ob"
)

func init() {
	Register(&Rule{Name: "SIBLING", Floor: 1, Run: runSibling,
		Doc: "twin dec-layer helpers that differ only in add vs sub kernels pass slices with the same bounds to corresponding kernel calls"})
}

func canonBound(m *model.Model, fn *ssa.Function, v ssa.Value, depth int) *sx {
	if v == nil {
		return sxLeaf("nil")
	}
	if k, ok := model.ConstInt(v); ok {
		return sxC(uint64(k))
	}
	if depth > 0 {
		switch x := v.(type) {
		case *ssa.Parameter:
			for i, p := range fn.Params {
				if p == x {
					return sxLeaf(fmt.Sprintf("P%d", i))
				}
			}
		case *ssa.BinOp:
			a, b := canonBound(m, fn, x.X, depth-1), canonBound(m, fn, x.Y, depth-1)
			switch x.Op.String() {
			case "+":
				return sxAdd(a, b)
			case "-":
				return sxAdd(a, sxNeg(b))
			case "*":
				if b.isC() {
					return sxMulC(a, b.k)
				}
				if a.isC() {
					return sxMulC(b, a.k)
				}
			case "<<":
				if b.isC() && b.k < 62 {
					return sxMulC(a, uint64(1)<<b.k)
				}
			}
			return sxOp("op"+x.Op.String(), a, b)
		case *ssa.Convert:
			return canonBound(m, fn, x.X, depth-1)
		case *ssa.ChangeType:
			return canonBound(m, fn, x.X, depth-1)
		case *ssa.Call:
			if n := model.BuiltinName(&x.Call); n != "" && len(x.Call.Args) == 1 {
				return sxOp(n, canonBound(m, fn, x.Call.Args[0], depth-1))
			}
		case *ssa.Slice:
			return sxOp("slice", canonBound(m, fn, x.X, depth-1), canonBound(m, fn, x.Low, depth-1), canonBound(m, fn, x.High, depth-1))
		}
	}
	if p, ok := v.(*ssa.Parameter); ok {
		for i, q := range fn.Params {
			if q == p {
				return sxLeaf(fmt.Sprintf("P%d", i))
			}
		}
	}
	return sxLeaf("?" + fmt.Sprintf("%T", v))
}

func runSibling(m *model.Model, s *ob.Set) {
	const R = "SIBLING"
	twinOf := map[string]string{"add10VV": "sub10VV", "sub10VV": "add10VV", "add10VW": "sub10VW", "sub10VW": "add10VW"}
	type sig struct {
		fn    *ssa.Function
		calls []*ssa.Call
	}
	var cands []sig
	for _, fn := range m.Funcs {
		if !m.InDecimalPkg(fn) || len(fn.Blocks) == 0 || inKernelLayer(m, fn) || fn.Parent() != nil || fn.Synthetic != "" {
			continue
		}
		var calls []*ssa.Call
		other := false
		for _, b := range fn.Blocks {
			for _, in := range b.Instrs {
				c, ok := in.(*ssa.Call)
				if !ok {
					continue
				}
				cal := model.Unthunk(c.Call.StaticCallee())
				if cal != nil && m.InDecimalPkg(cal) && twinOf[cal.Name()] != "" {
					calls = append(calls, c)
				} else if model.BuiltinName(&c.Call) == "" {
					other = true
				}
			}
		}
		if len(calls) >= 2 && !other && len(fn.Blocks) <= 6 {
			cands = append(cands, sig{fn, calls})
		}
	}
	sort.Slice(cands, func(i, j int) bool { return m.FuncName(cands[i].fn) < m.FuncName(cands[j].fn) })
	pairs := 0
	for i := 0; i < len(cands); i++ {
		for j := i + 1; j < len(cands); j++ {
			a, b := cands[i], cands[j]
			if len(a.calls) != len(b.calls) || len(a.fn.Params) != len(b.fn.Params) || a.fn.Signature.String() != b.fn.Signature.String() {
				continue
			}
			twins := true
			for k := range a.calls {
				if twinOf[a.calls[k].Call.StaticCallee().Name()] != b.calls[k].Call.StaticCallee().Name() {
					twins = false
				}
			}
			if !twins {
				continue
			}
			pairs++
			var diffs []string
			for k := range a.calls {
				for ai := range a.calls[k].Call.Args {
					if ai >= len(b.calls[k].Call.Args) {
						continue
					}
					x, y := a.calls[k].Call.Args[ai], b.calls[k].Call.Args[ai]
					if !m.IsWordSlice(x.Type()) {
						continue
					}
					kx, ky := canonBound(m, a.fn, stripConvAny(x), 8).String(), canonBound(m, b.fn, stripConvAny(y), 8).String()
					if kx != ky {
						diffs = append(diffs, fmt.Sprintf("argument %d of the %s call at %s is %s, of the %s call at %s it is %s", ai+1, a.calls[k].Call.StaticCallee().Name(), m.InstrPos(a.calls[k]), pretty(kx), b.calls[k].Call.StaticCallee().Name(), m.InstrPos(b.calls[k]), pretty(ky)))
					}
				}
			}
			c := m.FuncName(a.fn) + "~" + m.FuncName(b.fn)
			if len(diffs) == 0 {
				s.Ok(R, c, m.Pos(a.fn.Pos()), fmt.Sprintf("%d corresponding kernel calls take the same windows", len(a.calls)))
			} else {
				s.Bad(R, c, m.Pos(a.fn.Pos()), "twin helpers pass different windows to corresponding kernels: "+diffs[0]+": one of the two propagates its carry or borrow through the wrong number of words", diffs[1:]...)
			}
		}
	}
	if pairs == 0 {
		s.Note(R, "dec layer", "-", "no pair of add/sub twin helpers found")
	}
}

func pretty(k string) string {
	k = strings.ReplaceAll(k, "mulc", "mul")
	if len(k) > 120 {
		k = k[:120] + "…"
	}
	return k
}
