package rules

// E4 — T-ROUND / T-SETEXP: the rounding decision of (*Decimal).round and the
// exponent-range dispatch of setExpAndRound, enumerated exhaustively over their
// finite decision inputs and compared with the IEEE 754 direction table
// (DESIGN Appendix A), which is written here from the standard.

import (
	"fmt"
	"go/constant"
	"go/token"
	"math/big"

	"decverif/internal/cdai"
	"decverif/internal/model"
	"decverif/internal/ob"
)

func init() {
	Register(&Rule{Name: "T-ROUND", Floor: 120, Run: runTRound,
		Doc: "round increments the magnitude exactly per the IEEE direction table over (mode, sign, rounding digit, sticky, parity), reports accuracy as the sign of (stored-exact), and turns an all-nines carry into an exponent step or an infinity"})
	Register(&Rule{Name: "T-SETEXP", Floor: 15, Run: runTSetExp,
		Doc: "setExpAndRound maps exponent underflow to a zero and overflow to an infinity of the result's sign with the documented accuracy, and otherwise stores the exponent and rounds with the caller's sticky bit"})
}

func runTRound(m *model.Model, s *ob.Set) {
	const R = "T-ROUND"
	e := getEnums(m)
	fn := m.Lookup("(*Decimal).round")
	pos := m.Pos(fn.Pos())

	// non-finite: only the accuracy is reset
	for _, form := range []int64{e.zero, e.inf} {
		for _, neg := range []bool{false, true} {
			it := cdai.New(m)
			it.Opaque["(*Decimal).validate"] = true
			st := cdai.NewState()
			z := mkDec(m, st, decSpec{form: i64(form), neg: bptr(neg), prec: i64(7), mode: i64(e.posInf), acc: i64(e.above), exp: i64(3)})
			outs := it.Run(fn, []cdai.Val{z, cdai.Int(1)}, st)
			ok := len(outs) == 1 && outs[0].Kind == "return" && len(outs[0].St.Imprec) == 0
			if ok {
				o := outs[0]
				a, _ := fInt(m, o.St, z, m.F.Acc)
				f, _ := fInt(m, o.St, z, m.F.Form)
				n, _ := fBool(m, o.St, z, m.F.Neg)
				p, _ := fInt(m, o.St, z, m.F.Prec)
				ok = a == e.exact && f == form && n == neg && p == 7 && len(o.St.Trace) == 0
			}
			s.Check(ok, R, fmt.Sprintf("nonfinite form=%d neg=%v", form, neg), pos, "only acc is reset", "round on a zero or infinity must set acc=Exact and change nothing else")
		}
	}

	nCheck := 0
	for _, mode := range e.modes() {
		for _, neg := range []bool{false, true} {
			for _, sbArg := range []int64{0, 1} {
				for d := int64(0); d < 10; d++ {
					var fails []string
					paths := 0
					for _, p := range []int64{0, 1, 2, 5, 9} { // only the parity of the last kept digit can matter
						for ms := int64(0); ms < 2; ms++ {
							for cy := int64(0); cy < 2; cy++ {
								for _, exp0 := range []int64{0, e.maxExp} {
									if exp0 != 0 && cy == 0 {
										continue // the exponent is only consulted on a carry
									}
									f, n := roundScenario(m, e, fn, mode, neg, sbArg, d, p, ms, cy, exp0)
									paths += n
									nCheck++
									if f != "" && len(fails) < 3 {
										fails = append(fails, f)
									}
								}
							}
						}
					}
					c := fmt.Sprintf("mode=%s neg=%v sbit=%d rdigit=%d", e.modeNames[mode], neg, sbArg, d)
					if len(fails) == 0 {
						s.Ok(R, c, pos, fmt.Sprintf("%d paths over parity×sticky×carry×exponent", paths))
					} else {
						s.Bad(R, c, pos, fails[0], fails[1:]...)
					}
				}
			}
		}
	}
	runDigitSamples(m, s)
	s.Note(R, "scenarios", pos, fmt.Sprintf("%d hidden-input scenarios enumerated", nCheck))
}

func roundScenario(m *model.Model, e enums, fn interface{}, mode int64, neg bool, sbArg, d, p, ms, cy, exp0 int64) (string, int) {
	it := cdai.New(m)
	it.Opaque["(*Decimal).validate"] = true
	it.Inline["makeAcc"] = true
	it.Models["dec.digit"] = func(it *cdai.Interp, st *cdai.State, name string, args []cdai.Val) ([]cdai.Val, bool) {
		n := st.Counter["digit"]
		st.Counter["digit"]++
		if n == 0 {
			return []cdai.Val{cdai.Int(d)}, true
		}
		return []cdai.Val{cdai.Int(p)}, true
	}
	it.Models["dec.sticky"] = func(it *cdai.Interp, st *cdai.State, name string, args []cdai.Val) ([]cdai.Val, bool) {
		return []cdai.Val{cdai.Int(ms)}, true
	}
	it.Models["add10VW"] = func(it *cdai.Interp, st *cdai.State, name string, args []cdai.Val) ([]cdai.Val, bool) {
		return []cdai.Val{cdai.Int(cy)}, true
	}
	st := cdai.NewState()
	z := mkDec(m, st, decSpec{form: i64(e.finite), neg: bptr(neg), mode: i64(mode), acc: i64(e.below), exp: i64(exp0), prec: nil})
	rfn := m.Lookup("(*Decimal).round")
	outs := it.Run(rfn, []cdai.Val{z, cdai.Int(sbArg)}, st)
	sigma := sbArg != 0 || ms != 0
	inexact := d != 0 || sigma
	var inc bool
	switch mode {
	case e.nearEven:
		inc = d > 5 || (d == 5 && (sigma || p%2 == 1))
	case e.nearAway:
		inc = d >= 5
	case e.toZ:
		inc = false
	case e.away:
		inc = inexact
	case e.negInf:
		inc = inexact && neg
	case e.posInf:
		inc = inexact && !neg
	}
	wantAcc := e.exact
	if inexact {
		if inc != neg {
			wantAcc = e.above
		} else {
			wantAcc = e.below
		}
	}
	desc := fmt.Sprintf("mode=%s neg=%v sbit=%d rdigit=%d lsd-digit=%d mant-sticky=%d carry=%d exp=%d", e.modeNames[mode], neg, sbArg, d, p, ms, cy, exp0)
	nround := 0
	for _, o := range outs {
		if len(o.St.Imprec) > 0 {
			return desc + ": imprecise path: " + o.St.Imprec[0], len(outs)
		}
		if o.Kind != "return" {
			return desc + ": round must return normally, got " + outcomeStr(m, o, z), len(outs)
		}
		n, nOK := fBool(m, o.St, z, m.F.Neg)
		md, mOK := fInt(m, o.St, z, m.F.Mode)
		if !nOK || n != neg || !mOK || md != mode {
			return desc + ": round must not change sign or mode: " + outcomeStr(m, o, z), len(outs)
		}
		a, aOK := fInt(m, o.St, z, m.F.Acc)
		f, fOK := fInt(m, o.St, z, m.F.Form)
		x, xOK := fInt(m, o.St, z, m.F.Exp)
		if len(findEvents(o.St, "dec.digit")) == 0 {
			// mantissa fits: nothing to round
			if !aOK || a != e.exact || !fOK || f != e.finite || !xOK || x != exp0 || len(findEvents(o.St, "add10VW")) != 0 {
				return desc + ": the mantissa-fits exit must leave the value alone and report Exact: " + outcomeStr(m, o, z), len(outs)
			}
			continue
		}
		nround++
		gotInc := len(findEvents(o.St, "add10VW")) > 0
		if gotInc != inc {
			return fmt.Sprintf("%s: increment=%v, IEEE direction table says %v: %s", desc, gotInc, inc, outcomeStr(m, o, z)), len(outs)
		}
		if !aOK || a != wantAcc {
			return fmt.Sprintf("%s: acc=%s, want %d (sign of stored-exact): %s", desc, cdai.Str(o.St.Get(z, m.F.Acc)), wantAcc, outcomeStr(m, o, z)), len(outs)
		}
		wantForm, wantExp := e.finite, exp0
		if inc && cy == 1 {
			if exp0 >= e.maxExp {
				wantForm = e.inf
			} else {
				wantExp = exp0 + 1
			}
		}
		if !fOK || f != wantForm {
			return fmt.Sprintf("%s: form=%s, want %d: %s", desc, cdai.Str(o.St.Get(z, m.F.Form)), wantForm, outcomeStr(m, o, z)), len(outs)
		}
		if wantForm == e.finite && (!xOK || x != wantExp) {
			return fmt.Sprintf("%s: exp=%s, want %d (carry out of an all-nines mantissa steps the exponent once): %s", desc, cdai.Str(o.St.Get(z, m.F.Exp)), wantExp, outcomeStr(m, o, z)), len(outs)
		}
	}
	if nround == 0 {
		return desc + ": no path performs rounding", len(outs)
	}
	return "", len(outs)
}

func runTSetExp(m *model.Model, s *ob.Set) {
	const R = "T-SETEXP"
	e := getEnums(m)
	fn := m.Lookup("(*Decimal).setExpAndRound")
	pos := m.Pos(fn.Pos())
	for _, exp := range []int64{e.minExp - 1, e.minExp, -7, 0, e.maxExp, e.maxExp + 1, -(1 << 62), 1 << 62} {
		for _, neg := range []bool{false, true} {
			for _, sb := range []int64{0, 1} {
				it := cdai.New(m)
				it.Opaque["(*Decimal).round"] = true
				it.Traced["(*Decimal).round"] = true
				it.Inline["makeAcc"] = true
				st := cdai.NewState()
				z := mkDec(m, st, decSpec{form: i64(e.zero), neg: bptr(neg), mode: i64(e.nearEven), acc: i64(e.exact), exp: i64(99), prec: i64(5)})
				// (arguments in the order of the parameters: the exponent is the signed 64-bit one)
				searArgsV := []cdai.Val{z, cdai.Int(exp), cdai.Int(sb)}
				if ei, si := searArgs(fn); ei == 2 && si == 1 {
					searArgsV = []cdai.Val{z, cdai.Int(sb), cdai.Int(exp)}
				}
				outs := it.Run(fn, searArgsV, st)
				c := fmt.Sprintf("exp=%d neg=%v sbit=%d", exp, neg, sb)
				fail := ""
				if len(outs) == 0 {
					fail = "no outcome"
				}
				for _, o := range outs {
					if o.Kind != "return" || len(o.St.Imprec) > 0 {
						fail = "must return normally: " + outcomeStr(m, o, z)
						break
					}
					f, fOK := fInt(m, o.St, z, m.F.Form)
					a, aOK := fInt(m, o.St, z, m.F.Acc)
					n, nOK := fBool(m, o.St, z, m.F.Neg)
					rs := findEvents(o.St, "(*Decimal).round")
					if !nOK || n != neg {
						fail = "sign must not change: " + outcomeStr(m, o, z)
						break
					}
					switch {
					case exp < e.minExp:
						want := e.below
						if neg {
							want = e.above
						}
						if !fOK || f != e.zero || !aOK || a != want || len(rs) != 0 {
							fail = fmt.Sprintf("underflow must give a zero with acc=%d and no rounding: %s", want, outcomeStr(m, o, z))
						}
					case exp > e.maxExp:
						want := e.above
						if neg {
							want = e.below
						}
						if !fOK || f != e.inf || !aOK || a != want || len(rs) != 0 {
							fail = fmt.Sprintf("overflow must give an infinity with acc=%d and no rounding: %s", want, outcomeStr(m, o, z))
						}
					default:
						if len(rs) != 1 {
							fail = "in-range exponent: exactly one call of round expected: " + outcomeStr(m, o, z)
							break
						}
						rf, _ := evRecvInt(m, rs[0], m.F.Form)
						rx, rxOK := evRecvInt(m, rs[0], m.F.Exp)
						sa, saOK := cdai.ConstInt(rs[0].Args[1])
						if rf != e.finite || !rxOK || rx != exp || !saOK || sa != sb {
							fail = fmt.Sprintf("round must be entered with form=finite, exp=%d and the caller's sticky bit %d: %s", exp, sb, outcomeStr(m, o, z))
						}
					}
					if fail != "" {
						break
					}
				}
				s.Check(fail == "", R, c, pos, fmt.Sprintf("%d paths", len(outs)), fail)
			}
		}
	}
}

// runDigitSamples: dec.digit and dec.sticky at sample points. The two helpers round() takes the
// rounding digit and the sticky bit from are evaluated by constant propagation on a three-word
// mantissa of known digits, at positions around the word boundaries; the digit must be
// ⌊x / 10^i⌋ mod 10 and the sticky bit 1 exactly when x mod 10^i ≠ 0. A definite difference at a
// sample is a violation; a sample that cannot be folded is not decided.
func runDigitSamples(m *model.Model, s *ob.Set) {
	const R = "T-ROUND"
	dw, _ := constant.Int64Val(m.PkgConst("_DW"))
	// decimal digits of the three words, least significant word first
	var words []string
	if dw == 19 {
		words = []string{"9876543210123456789", "0000000000000000000", "1234567890123456708"}
	} else {
		words = []string{"987654321", "000000000", "123456708"}
	}
	digitAt := func(i int64) int64 {
		j, k := i/dw, i%dw
		if j >= int64(len(words)) {
			return 0
		}
		w := words[j]
		return int64(w[len(w)-1-int(k)] - '0')
	}
	stickyAt := func(i int64) int64 {
		for p := int64(0); p < i; p++ {
			if p >= dw*int64(len(words)) {
				return 1 // x.sticky(i) with i beyond the digits: the whole non-zero x is below
			}
			if digitAt(p) != 0 {
				return 1
			}
		}
		return 0
	}
	mk := func() cdai.Lit {
		l := cdai.Lit{}
		for _, w := range words {
			v, _ := new(big.Int).SetString(w, 10)
			l = append(l, cdai.Const{V: constant.MakeFromLiteral(v.String(), token.INT, 0)})
		}
		return l
	}
	divModel := func(_ *cdai.Interp, _ *cdai.State, _ string, a []cdai.Val) ([]cdai.Val, bool) {
		if len(a) != 3 {
			return nil, false
		}
		hi, ok1 := cdai.ConstInt(a[0])
		lo, ok2 := cdai.ConstInt(a[1])
		y, ok3 := cdai.ConstInt(a[2])
		if !ok1 || !ok2 || !ok3 || hi != 0 || y <= 0 || lo < 0 {
			return nil, false
		}
		return []cdai.Val{cdai.Tuple{cdai.Int(lo / y), cdai.Int(lo % y)}}, true
	}
	for _, h := range []struct {
		name string
		want func(int64) int64
	}{{"dec.digit", digitAt}, {"dec.sticky", stickyAt}} {
		fn := m.TryLookup(h.name)
		if fn == nil || len(fn.Params) != 2 {
			continue
		}
		bad, undecided, n := "", 0, 0
		for _, i := range []int64{0, 1, 2, dw - 1, dw, dw + 1, 2*dw - 1, 2 * dw, 2*dw + 1, 2*dw + 2, 3*dw - 1} {
			it := cdai.New(m)
			it.Budget = 50000
			it.LoopBound = 64
			it.Inline["pow10"] = true
			for _, nm := range []string{"math/bits.Div", "math/bits.Div64", "math/bits.Div32"} {
				it.Models[nm] = divModel
			}
			var outs []cdai.Outcome
			func() {
				defer func() {
					if recover() != nil {
						outs = nil
					}
				}()
				outs = it.Run(fn, []cdai.Val{mk(), cdai.Int(i)}, cdai.NewState())
			}()
			n++
			if len(outs) != 1 || outs[0].Kind != "return" || len(outs[0].St.Decs) > 0 {
				undecided++
				continue
			}
			v, ok := retInt(outs[0], 0)
			if !ok {
				undecided++
				continue
			}
			if w := h.want(i); v != w && bad == "" {
				bad = fmt.Sprintf("%s(x, %d) is %d for x = %s|%s|%s (words, most significant first); by definition it is %d", fn.Name(), i, v, words[2], words[1], words[0], w)
			}
		}
		cn := h.name + "/samples"
		switch {
		case bad != "":
			s.Bad(R, cn, m.Pos(fn.Pos()), bad+": round() takes the rounding digit, the parity of the last kept digit and the sticky bit from here")
		case undecided == n:
			s.Note(R, cn, m.Pos(fn.Pos()), "no sample position could be folded (not decided)")
		default:
			s.Ok(R, cn, m.Pos(fn.Pos()), fmt.Sprintf("%d of %d sample positions give the digit / sticky bit the definition gives", n-undecided, n))
		}
	}
}
